#!/bin/bash
# usage: import_next.sh <srcroot> <ID> <k> [dstpid] : imports a confirmed seed under the next free id of dstpid (default ID)
srcroot=$1; id=$2; k=$3; dst=${4:-$id}
r=$(grep "^RESULT $srcroot/$id/$k " /tmp/seedverify/$id.r2.log | tail -1)
echo "$r" | grep -q "demo_with_change_exit=[1-9].*existing_tests_exit=0.*demo_pristine_exit=0" || { echo "NOT CONFIRMED $id/$k: $r"; exit 1; }
n=$(ls /verif/seeded | grep "^$dst-" | sed "s/^$dst-//" | sort -n | tail -1); n=$((n+1))
python3 /verif/import_seed.py $id $k "$r" $srcroot $n $dst | tail -1
