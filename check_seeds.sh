#!/bin/bash
R=${REPO:-/repo}   # REPO=<scratch worktree> lets several of these run side by side; the default is /repo itself
# Re-runs every stored seeded change against the checks of the property it breaks; prints MISSED for any
# that the property's own check no longer reports. (Applies each patch to /repo and reverts it.)
cd /verif
miss=0
for d in seeded/*/; do
  id=$(basename $d); prop=${id%-*}
  n=$((n+1)); if [ -n "$SHARD" ] && [ $((n % ${SHARD#*/})) -ne ${SHARD%/*} ]; then continue; fi   # SHARD=i/n: every n-th entry, offset i
  git -C $R apply /verif/$d/patch.diff 2>/dev/null || git -C $R apply -C1 /verif/$d/patch.diff 2>/dev/null || { echo "APPLY-FAILED $id"; continue; }
  out=$(./bin/tmverif -repo $R -prop $prop -no-evidence 2>&1)
  git -C $R checkout -- .
  if echo "$out" | grep -q "^VIOLATION property=$prop"; then echo "caught $id: $(echo "$out" | grep -m1 '^  VIOLATION\|^  UNDECIDED\|^  FLOOR' | cut -c1-150)"; else echo "MISSED $id"; miss=1; fi
done
exit $miss
