#!/bin/bash
# Re-runs every stored seeded change against the checks of the property it breaks; prints MISSED for any
# that the property's own check no longer reports. (Applies each patch to /repo and reverts it.)
cd /verif
miss=0
for d in seeded/*/; do
  id=$(basename $d); prop=${id%-*}
  git -C /repo apply /verif/$d/patch.diff 2>/dev/null || git -C /repo apply -C1 /verif/$d/patch.diff 2>/dev/null || { echo "APPLY-FAILED $id"; continue; }
  out=$(./bin/tmverif -prop $prop -no-evidence 2>&1)
  git -C /repo checkout -- .
  if echo "$out" | grep -q "^VIOLATION property=$prop"; then echo "caught $id: $(echo "$out" | grep -m1 '^  VIOLATION\|^  UNDECIDED\|^  FLOOR' | cut -c1-150)"; else echo "MISSED $id"; miss=1; fi
done
exit $miss
