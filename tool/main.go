package main

import (
	"encoding/json"
	"flag"
	"fmt"
	"os"
	"path/filepath"
	"runtime/debug"
	"runtime/pprof"
	"sort"
	"strconv"
	"strings"
	"time"
)

// ---------------------------------------------------------------------------
// Rule registry

type Rule struct {
	Prop  string
	ID    string // e.g. "R1"
	Kind  string // K1..K11
	Desc  string
	Floor int // minimum number of obligations the rule must evaluate (non-vacuity)
	Run   func(c *Ctx)
}

var registry []*Rule

func register(prop, id, kind, desc string, floor int, run func(c *Ctx)) {
	registry = append(registry, &Rule{Prop: prop, ID: id, Kind: kind, Desc: desc, Floor: floor, Run: run})
}

// Obligation is one evaluated rule instance.
type Obligation struct {
	Prop   string `json:"property"`
	Rule   string `json:"rule"`
	Key    string `json:"key"` // construct key: stable under line moves
	Pos    string `json:"pos"`
	Status string `json:"status"` // ok | violation | undecided | floor | known
	Msg    string `json:"msg"`
}

type Ctx struct {
	W    *World
	Rule *Rule
	Obls []*Obligation
	tier string
}

func (c *Ctx) record(status, key, pos, msg string) {
	c.Obls = append(c.Obls, &Obligation{Prop: c.Rule.Prop, Rule: c.Rule.Prop + "." + c.Rule.ID, Key: key, Pos: pos, Status: status, Msg: msg})
}
func (c *Ctx) OK(key, pos, msg string)   { c.record("ok", key, pos, msg) }
func (c *Ctx) Fail(key, pos, msg string) { c.record("violation", key, pos, msg) }
func (c *Ctx) Undecided(key, pos, msg string) {
	c.record("undecided", key, pos, msg)
}

// Check records ok or violation.
func (c *Ctx) Check(cond bool, key, pos, okMsg, failMsg string) bool {
	if cond {
		c.OK(key, pos, okMsg)
	} else {
		c.Fail(key, pos, failMsg)
	}
	return cond
}

// ---------------------------------------------------------------------------
// Known findings

type Finding struct {
	Property string `json:"property"`
	Rule     string `json:"rule"`
	Key      string `json:"key"`
	What     string `json:"what"`
	Status   string `json:"status"` // "open" or "fixed"
	Commit   string `json:"commit,omitempty"`
}

type FindingsFile struct {
	Findings []Finding `json:"findings"`
	Fixed    []string  `json:"fixed"`
}

func loadFindings(path string) (*FindingsFile, error) {
	b, err := os.ReadFile(path)
	if err != nil {
		if os.IsNotExist(err) {
			return &FindingsFile{}, nil
		}
		return nil, err
	}
	var f FindingsFile
	if err := json.Unmarshal(b, &f); err != nil {
		return nil, err
	}
	return &f, nil
}

// ---------------------------------------------------------------------------

func verifDir() string {
	if d := os.Getenv("VERIF_DIR"); d != "" {
		return d
	}
	exe, err := os.Executable()
	if err == nil {
		d := filepath.Dir(filepath.Dir(exe))
		if _, err := os.Stat(filepath.Join(d, "properties.jsonl")); err == nil {
			return d
		}
	}
	return "/verif"
}

type propResult struct {
	prop       string
	obls       []*Obligation
	rulesRun   []string
	violations []*Obligation
	known      []*Obligation
	witness    []WitnessResult
	funcs      int
	wall       float64
}

func runProp(w *World, prop, tier string, ff *FindingsFile) *propResult {
	res := &propResult{prop: prop}
	for _, r := range registry {
		if r.Prop != prop {
			continue
		}
		c := &Ctx{W: w, Rule: r, tier: tier}
		func() {
			defer func() {
				if x := recover(); x != nil {
					c.Undecided("panic", "-", fmt.Sprintf("analyser panic (fail closed): %v\n%s", x, debug.Stack()))
				}
			}()
			r.Run(c)
		}()
		// non-vacuity: the rule must still match a substantial part of what was confirmed by hand. The
		// threshold is 2/3 of the confirmed count (rounded up), not the count itself: merging two sites into a
		// shared helper or similar tidying legitimately lowers the number of instances, whereas a rule that
		// lost its anchors drops to (near) zero. Individual mechanisms have their own "present" obligations.
		if min := (2*r.Floor + 2) / 3; len(c.Obls) < min {
			c.record("floor", "floor", "-", fmt.Sprintf("rule matched %d instances, fewer than 2/3 of the %d confirmed by hand: anchors moved or rule became vacuous", len(c.Obls), r.Floor))
		}
		res.rulesRun = append(res.rulesRun, fmt.Sprintf("%s.%s[%s] %s: %d obligations", r.Prop, r.ID, r.Kind, r.Desc, len(c.Obls)))
		res.obls = append(res.obls, c.Obls...)
	}
	for _, o := range res.obls {
		if o.Status == "ok" {
			continue
		}
		isKnown := false
		for _, f := range ff.Findings {
			if f.Status != "fixed" && f.Property == o.Prop && f.Rule == o.Rule && f.Key == o.Key && o.Status == "violation" {
				isKnown = true
				o.Status = "known"
				o.Msg = f.What + " :: " + o.Msg
			}
		}
		if isKnown {
			res.known = append(res.known, o)
		} else {
			res.violations = append(res.violations, o)
		}
	}
	return res
}

func main() {
	if pf := os.Getenv("TMVERIF_CPUPROFILE"); pf != "" {
		if fh, err := os.Create(pf); err == nil {
			_ = pprof.StartCPUProfile(fh)
			defer pprof.StopCPUProfile()
		}
	}
	prop := flag.String("prop", "", "property id (C01..C20) or 'all'")
	tier := flag.String("tier", "quick", "quick|thorough")
	repo := flag.String("repo", "/repo", "repository root")
	replay := flag.String("replay", "", "print a stored violation record and re-evaluate its rule")
	list := flag.Bool("list", false, "list rules")
	verbose := flag.Bool("v", false, "print every obligation")
	noEvidence := flag.Bool("no-evidence", false, "do not write evidence files")
	tags := flag.String("tags", "", "build tags")
	witnessSel := flag.String("witness", "", "run sensitivity witnesses of -prop: all or a name")
	dump := flag.String("dump", "", "debug: dump functions pkg:Name[,pkg:Name]")
	genNamesTo := flag.String("gen-names", "", "write the frozen reference-name table for the current tree to this file (maintenance)")
	flag.Parse()

	if *list {
		for _, r := range registry {
			fmt.Printf("%s.%s [%s] floor=%d %s\n", r.Prop, r.ID, r.Kind, r.Floor, r.Desc)
		}
		return
	}
	vd := verifDir()
	if *replay != "" {
		b, err := os.ReadFile(*replay)
		if err != nil {
			fmt.Println("cannot read replay file:", err)
			os.Exit(2)
		}
		var o Obligation
		_ = json.Unmarshal(b, &o)
		fmt.Printf("replaying %s %s key=%s (%s)\n  recorded: %s\n", o.Prop, o.Rule, o.Key, o.Pos, o.Msg)
		*prop = o.Prop
	}
	if *prop == "" && *dump == "" && *genNamesTo == "" {
		fmt.Fprintln(os.Stderr, "usage: tmverif -prop Cnn [-tier quick|thorough]")
		os.Exit(2)
	}
	if t := os.Getenv("VERIF_TIER"); t != "" && (t == "quick" || t == "thorough") {
		flagSet := false
		flag.Visit(func(f *flag.Flag) {
			if f.Name == "tier" {
				flagSet = true
			}
		})
		if !flagSet {
			*tier = t
		}
	}
	seed := 0
	if s := os.Getenv("VERIF_SEED"); s != "" {
		seed, _ = strconv.Atoi(s)
	}
	ff, err := loadFindings(filepath.Join(vd, "known_findings.json"))
	if err != nil {
		fmt.Println("cannot read known_findings.json:", err)
		os.Exit(2)
	}

	if *witnessSel != "" && *dump != "" {
		for _, wt := range witnesses {
			if wt.Name == *witnessSel {
				ov, skip := applyEdits(*repo, wt)
				if skip != "" {
					fmt.Println(skip)
					os.Exit(2)
				}
				w, err := Load(LoadOpts{Dir: *repo, Overlay: ov})
				if err != nil {
					fmt.Println(err)
					os.Exit(2)
				}
				for _, d := range strings.Split(*dump, ",") {
					pn := strings.SplitN(d, ":", 2)
					if f := w.Fn(pn[0], pn[1]); f != nil {
						dumpFunc(w, f)
					}
				}
				if *prop != "" {
					pr := runProp(w, *prop, "quick", ff)
					for _, o := range pr.obls {
						if o.Status != "ok" {
							fmt.Printf("    %-9s %s %s %s — %s\n", o.Status, o.Rule, o.Key, o.Pos, o.Msg)
						}
					}
				}
			}
		}
		return
	}
	if *witnessSel != "" {
		bad := 0
		for _, p := range strings.Split(*prop, ",") {
			for _, r := range runWitnessSet(*repo, p, *witnessSel, ff) {
				fmt.Printf("%-8s %-7s %s %s (%s): %s\n", r.Status, r.Kind, r.Prop, r.Name, r.Rule, r.Msg)
				if r.Status == "broken" || r.Status == "skipped" {
					bad++
				}
			}
		}
		if bad > 0 {
			os.Exit(2)
		}
		return
	}
	t0 := time.Now()
	w, err := Load(LoadOpts{Dir: *repo, Tags: *tags})
	if err != nil {
		fmt.Printf("LOAD-FAILED: %v\n", err)
		// A tree that does not load cannot be judged: fail closed as tool failure.
		os.Exit(2)
	}
	fmt.Printf("loaded %d root packages, %d in-scope functions in %.1fs\n", len(w.Roots), len(w.Funcs), w.LoadS)
	if *genNamesTo != "" {
		frozenOnce.Do(func() { frozenTable = map[string]*frozenFn{} }) // describe with current names
		if err := os.WriteFile(*genNamesTo, genNames(w), 0o644); err != nil {
			fmt.Println(err)
			os.Exit(2)
		}
		return
	}

	if *dump != "" {
		for _, d := range strings.Split(*dump, ",") {
			pn := strings.SplitN(d, ":", 2)
			f := w.Fn(pn[0], pn[1])
			if f == nil {
				fmt.Println("not found:", d)
				continue
			}
			dumpFunc(w, f)
			for _, a := range f.AnonFuncs {
				dumpFunc(w, a)
			}
		}
		return
	}
	var props []string
	if *prop == "all" {
		seen := map[string]bool{}
		for _, r := range registry {
			if !seen[r.Prop] {
				seen[r.Prop] = true
				props = append(props, r.Prop)
			}
		}
		sort.Strings(props)
	} else {
		props = strings.Split(*prop, ",")
	}

	exit := 0
	for _, p := range props {
		tp := time.Now()
		res := runProp(w, p, *tier, ff)
		if len(res.rulesRun) == 0 {
			fmt.Printf("no rules registered for %s\n", p)
			exit = 2
			continue
		}
		if *tier == "thorough" {
			res.witness = runWitnesses(w, p, ff)
			res.witness = append(res.witness, runSeedWitnesses(*repo, vd, p, ff)...)
			extra := runExtraConfigs(p, *repo, ff)
			for _, e := range extra {
				res.rulesRun = append(res.rulesRun, e.summary)
				res.violations = append(res.violations, e.violations...)
			}
		}
		res.wall = time.Since(tp).Seconds() + w.LoadS
		res.funcs = len(w.Funcs)
		for _, s := range res.rulesRun {
			fmt.Println("  rule", s)
		}
		if *verbose {
			for _, o := range res.obls {
				fmt.Printf("    %-9s %s %s %s — %s\n", o.Status, o.Rule, o.Key, o.Pos, o.Msg)
			}
		}
		for _, o := range res.known {
			fmt.Printf("KNOWN-FINDING: property=%s rule=%s key=%s at %s: %s\n", o.Prop, o.Rule, o.Key, o.Pos, o.Msg)
		}
		vdir := filepath.Join(vd, "evidence", "violations")
		if len(res.violations) > 0 {
			_ = os.MkdirAll(vdir, 0o755)
		}
		for i, o := range res.violations {
			path := filepath.Join(vdir, fmt.Sprintf("%s-%d.json", p, i+1))
			b, _ := json.MarshalIndent(o, "", " ")
			_ = os.WriteFile(path, b, 0o644)
			fmt.Printf("  %s: %s key=%s at %s\n      %s\n", strings.ToUpper(o.Status), o.Rule, o.Key, o.Pos, o.Msg)
			fmt.Printf("VIOLATION property=%s replay=%s\n", p, path)
			exit = 1
		}
		witnessBroken := false
		if len(res.witness) > 0 {
			cnt := map[string]int{}
			for _, wr := range res.witness {
				cnt[wr.Status]++
				if *verbose || wr.Status == "skipped" {
					fmt.Printf("  witness %-8s %-7s %s — %s\n", wr.Status, wr.Kind, wr.Name, wr.Msg)
				}
			}
			fmt.Printf("  witnesses: %d run — %d fired (break), %d silent (neutral), %d skipped, %d broken\n", len(res.witness), cnt["fired"], cnt["silent"], cnt["skipped"], cnt["broken"])
		}
		for _, wr := range res.witness {
			if wr.Status == "broken" {
				witnessBroken = true
				fmt.Printf("CHECK-BROKEN: witness %s did not fire: %s\n", wr.Name, wr.Msg)
			}
		}
		if witnessBroken && exit == 0 {
			exit = 2
		}
		if !*noEvidence {
			writeEvidence(vd, w, res, *tier, seed)
		}
		fmt.Printf("%s: %d obligations, %d ok, %d known findings, %d violations (%.1fs)\n", p, len(res.obls), countStatus(res.obls, "ok"), len(res.known), len(res.violations), time.Since(t0).Seconds())
	}
	pprof.StopCPUProfile()
	os.Exit(exit)
}

func countStatus(obls []*Obligation, st string) int {
	n := 0
	for _, o := range obls {
		if o.Status == st {
			n++
		}
	}
	return n
}

func writeEvidence(vd string, w *World, res *propResult, tier string, seed int) {
	distinct := map[string]bool{}
	var samples []map[string]string
	for _, o := range res.obls {
		k := o.Rule + "|" + o.Key
		if !distinct[k] {
			distinct[k] = true
			if len(samples) < 40 {
				samples = append(samples, map[string]string{"rule": o.Rule, "construct": o.Key, "at": o.Pos, "status": o.Status, "what": o.Msg})
			}
		}
	}
	ok := countStatus(res.obls, "ok")
	ev := map[string]interface{}{
		"property_id": res.prop,
		"tier":        tier,
		"seed":        seed,
		"level":       "other",
		"coverage": map[string]interface{}{
			"explanation":         "Static analysis of /repo's current source (go/packages type-checked program lowered to go/ssa). Each obligation is one instance of a rule (guard-on-all-paths, ordering, ownership, exhaustiveness, agreement, lock-held, bounded, send-count) evaluated on a specific construct of the code; the rules are structural necessary conditions of the property, not the behaviour itself (DESIGN.md §4 lists what is and is not decided).",
			"obligations":         len(res.obls),
			"discharged":          ok + len(res.known),
			"evaluations":         len(res.obls),
			"distinct_nontrivial": len(distinct),
			"rule":                "one obligation per (rule, construct key): a sink/site matched in the SSA program together with the guard/order/ownership condition evaluated on every CFG path to it; distinct = distinct (rule, construct) pairs; all are non-trivial because each names a matched site in the code (rules matching nothing fail their floor)",
			"samples":             samples,
			"rules":               res.rulesRun,
			"functions_analysed":  res.funcs,
			"root_packages":       len(w.Roots),
			"build_config":        w.BuildCfg,
			"known_findings":      len(res.known),
			"witnesses":           res.witness,
			"checker_cmd":         "bin/tmverif -prop " + res.prop + " -tier " + tier,
			"trusted_base":        []string{"go/types", "golang.org/x/tools v0.29.0 go/packages, go/ssa", "the frozen scope and allow tables in /verif/tool"},
		},
		"assumptions": []string{
			"go/types and go/ssa model the program faithfully; reflection and unsafe are not followed (neither occurs at anchored sites)",
			"the rules are necessary conditions: passing them does not prove the behavioural property",
			"packages under test/, abci/example, docs and *_test.go files are out of scope",
		},
		"wall_s":     res.wall,
		"violations": len(res.violations),
	}
	b, _ := json.MarshalIndent(ev, "", " ")
	_ = os.MkdirAll(filepath.Join(vd, "evidence"), 0o755)
	_ = os.WriteFile(filepath.Join(vd, "evidence", res.prop+".json"), b, 0o644)
}
