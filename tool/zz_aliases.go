package main

// Cross-registration: a mechanism that several properties rest on is checked under each of them, so a
// change that breaks it is reported by every property whose statement it falsifies.
func alias(newProp, newID, srcProp, srcID, note string) {
	for _, r := range registry {
		if r.Prop == srcProp && r.ID == srcID {
			register(newProp, newID, r.Kind, note+" (same rule as "+srcProp+"."+srcID+": "+r.Desc+")", r.Floor, r.Run)
			return
		}
	}
	panic("alias source not found: " + srcProp + "." + srcID)
}

func init() {
	alias("C01", "R9", "C02", "R4", "agreement needs locks to be released only by a later polka")
	alias("C01", "R10", "C02", "R3", "agreement needs every block precommit to be justified by a polka in its round")
	alias("C04", "R8", "C02", "R5", "the persisted sign state only protects across restarts if the signer refuses height/round/step regressions and reuses signatures correctly")
	alias("C12", "R6", "C05", "R6", "mempool contents stay current only if CheckTx is excluded during commit/update")
	alias("C12", "R7", "C05", "R5", "the update lock must be taken and the connection flushed around commit")
	alias("C02", "R8", "C01", "R5", "'more than two thirds' of the prevote power is decided by the vote set's quorum arithmetic")
	alias("C02", "R9", "C01", "R6", "a quorum only means something if every counted vote was admitted correctly")
	alias("C02", "R6", "C01", "R3", "a precommit for a block goes with locking on it")
	alias("C02", "R7", "C01", "R4", "after precommitting (locking) a block the validator prevotes nothing else")
}

func init() {
	alias("C15", "R2", "C04", "R6", "a synced write must have reached the disk")
	alias("C03", "R6", "C07", "R5", "the last commit a proposer places in the next block must verify, or every proposal of the next height is rejected")
	alias("C05", "R9", "C18", "R1", "after a crash inside SaveBlock the block store must not report a height whose seen commit or parts are missing (restart would not go on committing)")
	alias("C01", "R11", "C13", "R1", "a node that catches up by block sync also decides: it may apply a block only if a +2/3 commit covers exactly the hash and part-set header of the block it downloaded")
	alias("C06", "R7", "C07", "R1", "a block is valid only if its last commit is a valid +2/3 commit of the previous validator set with every present signature checked (block validation calls the full verifier)")
	alias("C17", "R8", "C10", "R1", "a block part from a peer is indexed into the part set only behind the bounds and proof checks: a hostile index must not panic the consensus routine")
	alias("C05", "R13", "C13", "R9", "store, state and application agree after a crash also while catching up: a block is stored before it is executed")
	alias("C06", "R8", "C12", "R2", "a correct proposer's block fits the limits only if the mempool reaps by the encoded (proto) size of the transactions")
	alias("C06", "R9", "C05", "R12", "re-running the last block on the recorded responses must yield the same next state as the live run (validator and consensus-parameter updates included)")
	alias("C18", "R7", "C08", "R8", "the state store must produce the validator set of every retained height, also on a node that started from a snapshot: bootstrap stores the set in force at each height")
	alias("C18", "R8", "C08", "R9", "after an operator rollback the state store must still produce the validator set of every retained height")
	alias("C20", "R7", "C10", "R3", "a relayed tx or query value is only as good as the Merkle proof check behind it: a proof verifies only for a valid (index, total, path) shape")
	alias("C20", "R8", "C06", "R1", "Block and BlockByHash tie the relayed block body to the verified header through Block.ValidateBasic: its content-hash checks must hold for every body, also an empty one")
	alias("C05", "R14", "C18", "R5", "after a crash inside the state store's save the node must go on committing: the state record is written last, so a state on disk always has its validator and parameter records")
	alias("C06", "R11", "C07", "R5", "a block built by a correct proposer passes validation only if the last commit it carries verifies: commit construction must agree with commit verification")
	alias("C14", "R8", "C08", "R8", "the node bootstraps from exactly the light-verified state: the validator records written for H-1, H, H+1 are the verified sets of that state, not recomputed ones")
	alias("C07", "R8", "C13", "R1", "block sync is a commit-verification entry point: the commit must be verified for exactly the id of the block being accepted (its own hash and part-set header), under the running state's validators")
	alias("C04", "R9", "C15", "R6", "the lock survives a crash only if replay finds the marker of the previous height: the end-height search may give up early only after a real, lower marker")
	alias("C04", "R10", "C15", "R9", "the lock survives a crash only if replay starts from the right marker")
	alias("C04", "R11", "C15", "R10", "the lock survives a second crash only if the first one's torn tail is repaired: replay must hand every corruption error back")
	alias("C20", "R13", "C06", "R13", "block results are checked against LastResultsHash: the check is only as strong as the projection the hash covers")
	alias("C14", "R12", "C18", "R9", "the state a snapshot-restored node starts from must let the state store produce the validator sets of the following heights")
}
