package main

import (
	"fmt"
	"strings"

	"golang.org/x/tools/go/ssa"
)

// Further C05 rules (recovery and plumbing around the commit pipeline), added after the third seeding
// round, whose changes were placed away from the anchored functions.

func init() {
	// ------------------------------------------------------------------ C05.R10
	register("C05", "R10", "K5", "proxy connections are faithful: every method of the consensus/mempool/query/snapshot wrappers delegates to the same-named client method and returns its result (a Sync call stays synchronous)", 20, func(c *Ctx) {
		w := c.W
		n := 0
		for _, typ := range []string{"appConnConsensus", "appConnMempool", "appConnQuery", "appConnSnapshot"} {
			for _, f := range w.methodsOf("proxy", typ) {
				if f.Blocks == nil {
					continue
				}
				n++
				name := f.Name()
				fk := funcKey(f)
				var same []ssa.CallInstruction
				var other []string
				for _, call := range callInstrs(f) {
					cn := calleeName(call)
					if !strings.Contains(cn, "abci/client#Client.") {
						continue
					}
					if strings.HasSuffix(cn, "Client."+name) {
						same = append(same, call)
					} else {
						other = append(other, cn)
					}
				}
				if !c.Check(len(same) == 1 && len(other) == 0, fk+" delegates to the client's "+name, w.pos(f.Pos()), "one call to Client."+name, fmt.Sprintf("calls to Client.%s: %d; other client calls: %s", name, len(same), strings.Join(other, ", "))) {
					continue
				}
				// arguments are passed through and the result is returned as it is
				args := callArgs(same[0])
				okArgs := true
				for i, a := range args {
					if p, isP := stripConv(a).(*ssa.Parameter); !isP || p != f.Params[i+1] {
						okArgs = false
					}
				}
				c.Check(okArgs, fk+" passes its arguments through", w.ipos(same[0]), "same arguments", w.callStr(same[0]))
				for _, r := range returnsOf(f) {
					ret := r.(*ssa.Return)
					for i, v := range ret.Results {
						want := w.callStr(same[0])
						if len(ret.Results) > 1 {
							want += fmt.Sprintf("#%d", i)
						}
						c.Check(w.expr(v) == want, fk+" returns the client's result", w.ipos(ret), want, "returns "+w.expr(v))
					}
				}
			}
		}
		c.Check(n >= 20, "proxy wrapper methods found", "-", fmt.Sprintf("%d", n), fmt.Sprintf("only %d", n))
	})

	// ------------------------------------------------------------------ C05.R11
	register("C05", "R11", "K2", "node start-up: after the handshake (which may replay blocks and change the state) the state is loaded again before anything is built from it", 2, func(c *Ctx) {
		w := c.W
		f := c.fn("node", "NewNode")
		if f == nil {
			return
		}
		fk := funcKey(f)
		hs := w.callsTo(f, "node#doHandshake")
		c.Check(len(hs) == 1, fk+" performs the handshake", w.pos(f.Pos()), "1 call", fmt.Sprintf("%d doHandshake calls", len(hs)))
		for _, call := range hs {
			// on the success edge of the handshake, Load() is called on every path before the state is used to
			// create the reactors (first consumer: onlyValidatorIsUs / createBlockchainReactor …)
			var okBlk *ssa.BasicBlock
			for _, ea := range condEdges(f) {
				if ea.A.Kind == "nil" && valueCall(ea.A.V) == call {
					okBlk = ea.E.From.Succs[ea.E.Succ]
				}
			}
			if okBlk == nil {
				c.Undecided(fk+" :: handshake success edge", w.ipos(call), "cannot find the error check of doHandshake")
				continue
			}
			load := func(in ssa.Instruction) bool {
				cc, ok := in.(ssa.CallInstruction)
				return ok && w.isCall(cc, "state#Store.Load")
			}
			consumer := func(in ssa.Instruction) bool {
				cc, ok := in.(ssa.CallInstruction)
				if !ok {
					return false
				}
				for _, a := range callArgs(cc) {
					s := w.expr(a)
					if s == "state" || strings.HasPrefix(s, "phi(") && strings.Contains(s, "LoadStateFromDBOrGenesisDocProvider(") || strings.HasSuffix(s, "LoadStateFromDBOrGenesisDocProvider(stateDB, genesisDocProvider)#0") {
						return true
					}
				}
				return false
			}
			q := &pathQ{kill: load, target: func(in ssa.Instruction) bool { return consumer(in) }}
			hit, path := q.reach(okBlk, 0)
			c.Check(hit == nil, fk+" :: state reloaded after the handshake", w.ipos(call), "stateStore.Load() on every path before the state is used", "after a successful handshake the stale pre-handshake state can be used without reloading: "+pathStr(w, path))
		}
	})

	// ------------------------------------------------------------------ C05.R12
	register("C05", "R12", "K5", "replay stub: the mock application used to re-run the last block hands back exactly the saved ABCI responses (whole EndBlock response, DeliverTx responses in order, the recorded app hash)", 4, func(c *Ctx) {
		w := c.W
		if f := c.fn("consensus", "mockProxyApp.EndBlock"); f != nil {
			rv := returnValues(f, 0)
			c.Check(len(rv) == 1 && w.expr(rv[0]) == "mock.abciResponses.EndBlock", funcKey(f)+" returns the saved EndBlock response unchanged", w.pos(f.Pos()), "*abciResponses.EndBlock", "returns "+fmt.Sprint(exprs(w, rv))+": validator or consensus-parameter updates of the replayed block can be lost")
		}
		if f := c.fn("consensus", "mockProxyApp.DeliverTx"); f != nil {
			ok := false
			for _, v := range returnValues(f, 0) {
				if w.expr(v) == "mock.abciResponses.DeliverTxs[mock.txCount]" {
					ok = true
				}
			}
			c.Check(ok, funcKey(f)+" returns the saved DeliverTx response of the current tx", w.pos(f.Pos()), "DeliverTxs[txCount]", "DeliverTx responses are not replayed by position")
			inc := false
			for _, fs := range w.fieldStoresIn(f, "consensus", "mockProxyApp", "txCount") {
				if w.arith(fs.Store.Val) == "(mock.txCount + 1)" {
					inc = true
				}
			}
			c.Check(inc, funcKey(f)+" advances to the next saved response", w.pos(f.Pos()), "txCount++", "txCount is not advanced")
		}
		if f := c.fn("consensus", "mockProxyApp.Commit"); f != nil {
			ok := false
			for _, b := range f.Blocks {
				for _, in := range b.Instrs {
					if st, isSt := in.(*ssa.Store); isSt && strings.HasSuffix(w.expr(st.Addr), ".Data") && w.expr(st.Val) == "mock.appHash" {
						ok = true
					}
				}
			}
			c.Check(ok, funcKey(f)+" returns the recorded app hash", w.pos(f.Pos()), "Data = appHash", "Commit does not return the recorded app hash")
		}
	})
}

func exprs(w *World, vs []ssa.Value) []string {
	var out []string
	for _, v := range vs {
		out = append(out, w.expr(v))
	}
	return out
}
