package main

import (
	"fmt"
	"strings"

	"golang.org/x/tools/go/ssa"
)

// Further C05 rules (recovery and plumbing around the commit pipeline), added after the third seeding
// round, whose changes were placed away from the anchored functions.

func init() {
	// ------------------------------------------------------------------ C05.R10
	register("C05", "R10", "K5", "proxy connections are faithful: every method of the consensus/mempool/query/snapshot wrappers delegates to the same-named client method and returns its result (a Sync call stays synchronous)", 20, func(c *Ctx) {
		w := c.W
		n := 0
		for _, typ := range []string{"appConnConsensus", "appConnMempool", "appConnQuery", "appConnSnapshot"} {
			for _, f := range w.methodsOf("proxy", typ) {
				if f.Blocks == nil {
					continue
				}
				n++
				name := f.Name()
				fk := funcKey(f)
				var same []ssa.CallInstruction
				var other []string
				for _, call := range callInstrs(f) {
					cn := calleeName(call)
					if !strings.Contains(cn, "abci/client#Client.") {
						continue
					}
					if strings.HasSuffix(cn, "Client."+name) {
						same = append(same, call)
					} else {
						other = append(other, cn)
					}
				}
				if !c.Check(len(same) == 1 && len(other) == 0, fk+" delegates to the client's "+name, w.pos(f.Pos()), "one call to Client."+name, fmt.Sprintf("calls to Client.%s: %d; other client calls: %s", name, len(same), strings.Join(other, ", "))) {
					continue
				}
				// arguments are passed through and the result is returned as it is
				args := callArgs(same[0])
				okArgs := true
				for i, a := range args {
					if p, isP := stripConv(a).(*ssa.Parameter); !isP || p != f.Params[i+1] {
						okArgs = false
					}
				}
				c.Check(okArgs, fk+" passes its arguments through", w.ipos(same[0]), "same arguments", w.callStr(same[0]))
				for _, r := range returnsOf(f) {
					ret := r.(*ssa.Return)
					for i, v := range ret.Results {
						want := w.callStr(same[0])
						if len(ret.Results) > 1 {
							want += fmt.Sprintf("#%d", i)
						}
						c.Check(w.expr(v) == want, fk+" returns the client's result", w.ipos(ret), want, "returns "+w.expr(v))
					}
				}
			}
		}
		c.Check(n >= 20, "proxy wrapper methods found", "-", fmt.Sprintf("%d", n), fmt.Sprintf("only %d", n))
	})

	// ------------------------------------------------------------------ C05.R11
	register("C05", "R11", "K2", "node start-up: after the handshake (which may replay blocks and change the state) the state is loaded again before anything is built from it", 2, func(c *Ctx) {
		w := c.W
		f := c.fn("node", "NewNode")
		if f == nil {
			return
		}
		fk := funcKey(f)
		hs := w.callsTo(f, "node#doHandshake")
		c.Check(len(hs) == 1, fk+" performs the handshake", w.pos(f.Pos()), "1 call", fmt.Sprintf("%d doHandshake calls", len(hs)))
		for _, call := range hs {
			// on the success edge of the handshake, Load() is called on every path before the state is used to
			// create the reactors (first consumer: onlyValidatorIsUs / createBlockchainReactor …)
			var okBlk *ssa.BasicBlock
			for _, ea := range condEdges(f) {
				if ea.A.Kind == "nil" && valueCall(ea.A.V) == call {
					okBlk = ea.E.From.Succs[ea.E.Succ]
				}
			}
			if okBlk == nil {
				c.Undecided(fk+" :: handshake success edge", w.ipos(call), "cannot find the error check of doHandshake")
				continue
			}
			load := func(in ssa.Instruction) bool {
				cc, ok := in.(ssa.CallInstruction)
				return ok && w.isCall(cc, "state#Store.Load")
			}
			consumer := func(in ssa.Instruction) bool {
				cc, ok := in.(ssa.CallInstruction)
				if !ok {
					return false
				}
				for _, a := range callArgs(cc) {
					s := w.expr(a)
					if s == "state" || strings.HasPrefix(s, "phi(") && strings.Contains(s, "LoadStateFromDBOrGenesisDocProvider(") || strings.HasSuffix(s, "LoadStateFromDBOrGenesisDocProvider(stateDB, genesisDocProvider)#0") {
						return true
					}
				}
				return false
			}
			q := &pathQ{kill: load, target: func(in ssa.Instruction) bool { return consumer(in) }}
			hit, path := q.reach(okBlk, 0)
			c.Check(hit == nil, fk+" :: state reloaded after the handshake", w.ipos(call), "stateStore.Load() on every path before the state is used", "after a successful handshake the stale pre-handshake state can be used without reloading: "+pathStr(w, path))
		}
	})

	// ------------------------------------------------------------------ C05.R12
	register("C05", "R12", "K5", "replay stub: the mock application used to re-run the last block hands back exactly the saved ABCI responses (whole EndBlock response, DeliverTx responses in order, the recorded app hash)", 4, func(c *Ctx) {
		w := c.W
		if f := c.fn("consensus", "mockProxyApp.EndBlock"); f != nil {
			rv := returnValues(f, 0)
			c.Check(len(rv) == 1 && w.expr(rv[0]) == "mock.abciResponses.EndBlock", funcKey(f)+" returns the saved EndBlock response unchanged", w.pos(f.Pos()), "*abciResponses.EndBlock", "returns "+fmt.Sprint(exprs(w, rv))+": validator or consensus-parameter updates of the replayed block can be lost")
		}
		if f := c.fn("consensus", "mockProxyApp.DeliverTx"); f != nil {
			ok := false
			for _, v := range returnValues(f, 0) {
				if w.expr(v) == "mock.abciResponses.DeliverTxs[mock.txCount]" {
					ok = true
				}
			}
			c.Check(ok, funcKey(f)+" returns the saved DeliverTx response of the current tx", w.pos(f.Pos()), "DeliverTxs[txCount]", "DeliverTx responses are not replayed by position")
			inc := false
			for _, fs := range w.fieldStoresIn(f, "consensus", "mockProxyApp", "txCount") {
				if w.arith(fs.Store.Val) == "(mock.txCount + 1)" {
					inc = true
				}
			}
			c.Check(inc, funcKey(f)+" advances to the next saved response", w.pos(f.Pos()), "txCount++", "txCount is not advanced")
		}
		if f := c.fn("consensus", "mockProxyApp.Commit"); f != nil {
			ok := false
			for _, b := range f.Blocks {
				for _, in := range b.Instrs {
					if st, isSt := in.(*ssa.Store); isSt && strings.HasSuffix(w.expr(st.Addr), ".Data") && w.expr(st.Val) == "mock.appHash" {
						ok = true
					}
				}
			}
			c.Check(ok, funcKey(f)+" returns the recorded app hash", w.pos(f.Pos()), "Data = appHash", "Commit does not return the recorded app hash")
		}
	})
}

func exprs(w *World, vs []ssa.Value) []string {
	var out []string
	for _, v := range vs {
		out = append(out, w.expr(v))
	}
	return out
}

// ------------------------------------------------------------------ C05.R15, R16 (hunt, second wave)
func init() {
	// F63: the handshake exists for the cases "block saved, state not yet": it allows the store to be one
	// block ahead of the state and replays that block. The height of "the block after the state" is
	// LastBlockHeight+1 — or the chain's initial height while no block has been applied. Measured against
	// LastBlockHeight+1 alone, a chain with initial_height > 1 cannot recover from a crash in its first block
	// (the handshake panics on every restart).
	register("C05", "R15", "K5", "the handshake compares the block store with the height of the block after the state, which is the initial height while no block has been applied", 2, func(c *Ctx) {
		w := c.W
		f := c.fn("consensus", "Handshaker.ReplayBlocks")
		if f == nil {
			return
		}
		fk := funcKey(f)
		n := 0
		// in ReplayBlocks or in the part of it that was split off into a function of its own
		var edges []struct {
			E Edge
			A Atom
		}
		for _, g := range append([]*ssa.Function{f}, transparentBodies(f)...) {
			edges = append(edges, condEdges(g)...)
		}
		for _, ea := range edges {
			if ea.A.Kind != "cmp" || ea.E.Succ != 0 {
				continue
			}
			x, y := ea.A.X, ea.A.Y
			if !strings.HasSuffix(w.expr(x), ".store.Height()") {
				x, y = y, x
			}
			if !strings.HasSuffix(w.expr(x), ".store.Height()") {
				continue
			}
			ys := w.expr(y)
			if !strings.Contains(ys, "LastBlockHeight + 1") {
				continue
			}
			n++
			c.Check(strings.Contains(ys, ".InitialHeight"), fmt.Sprintf("%s :: store height compared with the next height #%d", fk, n), w.ipos(ea.E.From.Instrs[len(ea.E.From.Instrs)-1]), "LastBlockHeight+1, or InitialHeight while no block has been applied", "compared with "+ys+": before the first block this is 1, not the chain's initial height")
		}
		c.Check(n >= 2, fk+" :: comparisons with the next height found (ahead-by-more panic, ahead-by-one replay)", w.pos(f.Pos()), ">= 2", fmt.Sprintf("%d", n))
	})
	// F64: Info's app version initialises the state's version only while there is neither a block in the
	// state nor one committed by the application: once InitChain was answered, the state was saved with the
	// version the first block is made with, and a handshake that overwrites it cannot replay that block.
	register("C05", "R16", "K1", "the handshake takes the app version from Info only while neither the state nor the application has a block", 2, func(c *Ctx) {
		w := c.W
		f := c.fn("consensus", "Handshaker.Handshake")
		if f == nil {
			return
		}
		fk := funcKey(f)
		n := 0
		for _, b := range f.Blocks {
			for _, in := range b.Instrs {
				st, ok := in.(*ssa.Store)
				if !ok || !strings.HasSuffix(w.expr(st.Addr), ".Version.Consensus.App") {
					continue
				}
				n++
				c.guards(f, st, fk+" :: take the app version from Info", 0,
					guardCmp("the state has no block", `\w+\.initialState\.LastBlockHeight`, "==", "0"),
					guardCmp("the application has committed no block", `.*InfoSync\(.*\)#0\.LastBlockHeight`, "==", "0"))
			}
		}
		c.Check(n == 1, fk+" :: version assignment found", w.pos(f.Pos()), "1", fmt.Sprintf("%d", n))
	})
}
