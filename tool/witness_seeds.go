package main

import (
	"encoding/json"
	"fmt"
	"os"
	"path/filepath"
	"runtime/debug"
	"sort"
	"strings"
	"sync"
)

// Seed-derived witnesses: every confirmed seeded change under /verif/seeded/<prop>-<k>/ (a realistic
// breaking edit that compiles and passes the repository's tests, produced by an independent agent that
// never saw the checker) is replayed in the thorough tier as an in-memory overlay of the *current* tree;
// the property's rules must report it. The patch is applied hunk by hunk by content (not line number);
// a hunk whose context no longer occurs exactly once means the tree was edited there and the witness
// is skipped, not failed.

type hunk struct {
	old, new []string
	line     int // first line of the old block as stated by the hunk header
}

func parseUnified(diff string) map[string][]hunk {
	out := map[string][]hunk{}
	var file string
	var cur *hunk
	flush := func() {
		if cur != nil && file != "" {
			out[file] = append(out[file], *cur)
		}
		cur = nil
	}
	for _, ln := range strings.Split(diff, "\n") {
		switch {
		case strings.HasPrefix(ln, "diff --git "):
			flush()
			file = ""
		case strings.HasPrefix(ln, "+++ "):
			flush()
			file = strings.TrimPrefix(strings.TrimPrefix(ln, "+++ "), "b/")
		case strings.HasPrefix(ln, "--- "), strings.HasPrefix(ln, "index "), strings.HasPrefix(ln, "new file"), strings.HasPrefix(ln, "\\ No newline"):
		case strings.HasPrefix(ln, "@@"):
			flush()
			cur = &hunk{}
			fmt.Sscanf(ln, "@@ -%d", &cur.line)
		case cur != nil && strings.HasPrefix(ln, " "):
			cur.old = append(cur.old, ln[1:])
			cur.new = append(cur.new, ln[1:])
		case cur != nil && strings.HasPrefix(ln, "-"):
			cur.old = append(cur.old, ln[1:])
		case cur != nil && strings.HasPrefix(ln, "+"):
			cur.new = append(cur.new, ln[1:])
		case cur != nil && ln == "":
			// blank context line whose leading space was stripped
			cur.old = append(cur.old, "")
			cur.new = append(cur.new, "")
		}
	}
	flush()
	return out
}

// applyPatchOverlay returns the overlay for the patch or a reason why it does not apply.
func applyPatchOverlay(repo, diff string) (map[string][]byte, string) {
	ov := map[string][]byte{}
	files := parseUnified(diff)
	var names []string
	for f := range files {
		names = append(names, f)
	}
	sort.Strings(names)
	for _, f := range names {
		if strings.HasSuffix(f, "_test.go") {
			continue
		}
		path := filepath.Join(repo, f)
		b, err := os.ReadFile(path)
		if err != nil {
			return nil, "file missing: " + f
		}
		src := string(b)
		for _, h := range files[f] {
			old, nw := h.old, h.new
			// trailing blank context produced by the split
			for len(old) > 0 && len(nw) > 0 && old[len(old)-1] == "" && nw[len(nw)-1] == "" && strings.Count(src, strings.Join(old, "\n")) != 1 {
				old, nw = old[:len(old)-1], nw[:len(nw)-1]
			}
			o := strings.Join(old, "\n")
			if n := strings.Count(src, o); n > 1 && h.line > 0 {
				// identical code in sibling functions: take the occurrence nearest to the stated line
				best, bestD := -1, 1<<30
				for off := 0; ; {
					i := strings.Index(src[off:], o)
					if i < 0 {
						break
					}
					ln := 1 + strings.Count(src[:off+i], "\n")
					d := ln - h.line
					if d < 0 {
						d = -d
					}
					if d < bestD {
						best, bestD = off+i, d
					}
					off += i + 1
				}
				if best >= 0 && bestD < 60 {
					src = src[:best] + strings.Join(nw, "\n") + src[best+len(o):]
					continue
				}
			}
			if n := strings.Count(src, o); n != 1 {
				// retry with one line of context less on each side
				if len(old) > 4 && len(nw) >= 2 && old[0] == nw[0] && old[len(old)-1] == nw[len(nw)-1] {
					o2 := strings.Join(old[1:len(old)-1], "\n")
					if strings.Count(src, o2) == 1 {
						src = strings.Replace(src, o2, strings.Join(nw[1:len(nw)-1], "\n"), 1)
						continue
					}
				}
				return nil, fmt.Sprintf("hunk context occurs %d times in %s (tree was edited there; seed not applicable)", n, f)
			}
			src = strings.Replace(src, o, strings.Join(nw, "\n"), 1)
		}
		ov[path] = []byte(src)
	}
	if len(ov) == 0 {
		return nil, "patch touches no source file"
	}
	return ov, ""
}

type seedMeta struct {
	ReportedBy []struct {
		Rule string `json:"rule"`
	} `json:"reported_by"`
}

func runSeedWitnesses(repo, vd, prop string, ff *FindingsFile) []WitnessResult {
	out := runPatchWitnesses(repo, vd, prop, "seeded", "break", ff)
	// behaviour-preserving refactorings produced by independent agents (given only the property text):
	// the property's rules must stay silent on each
	return append(out, runPatchWitnesses(repo, vd, prop, "neutral", "neutral", ff)...)
}

func runPatchWitnesses(repo, vd, prop, sub, kind string, ff *FindingsFile) []WitnessResult {
	dirs, _ := filepath.Glob(filepath.Join(vd, sub, prop+"-*"))
	sort.Strings(dirs)
	out := make([]WitnessResult, len(dirs))
	sem := witnessSem
	var wg sync.WaitGroup
	for i, d := range dirs {
		wg.Add(1)
		go func(i int, d string) {
			defer wg.Done()
			sem <- struct{}{}
			defer func() { <-sem }()
			defer func() {
				if x := recover(); x != nil {
					out[i] = WitnessResult{Name: sub + ":" + filepath.Base(d), Prop: prop, Kind: kind, Status: "broken", Msg: fmt.Sprint("panic: ", x)}
				}
			}()
			out[i] = runPatchWitness(repo, prop, sub, kind, d, ff)
			debug.FreeOSMemory()
		}(i, d)
	}
	wg.Wait()
	return out
}

func runPatchWitness(repo, prop, sub, kind, d string, ff *FindingsFile) WitnessResult {
	{
		name := sub + ":" + filepath.Base(d)
		if sub == "seeded" {
			name = "seed:" + filepath.Base(d)
		}
		res := WitnessResult{Name: name, Prop: prop, Kind: kind}
		diff, err := os.ReadFile(filepath.Join(d, "patch.diff"))
		if err != nil {
			res.Status, res.Msg = "skipped", "no patch.diff"
			return res
		}
		var meta seedMeta
		if b, err := os.ReadFile(filepath.Join(d, "meta.json")); err == nil {
			_ = json.Unmarshal(b, &meta)
		}
		ov, why := applyPatchOverlay(repo, string(diff))
		if why != "" {
			res.Status, res.Msg = "skipped", why
			return res
		}
		w, err := Load(LoadOpts{Dir: repo, Overlay: ov})
		if err != nil {
			res.Status, res.Msg = "skipped", "tree with the seeded change does not load: "+firstLine(err.Error())
			return res
		}
		pr := runProp(w, prop, "quick", ff)
		w.Release()
		switch {
		case kind == "neutral" && len(pr.violations) == 0:
			res.Status, res.Msg = "silent", "behaviour-preserving refactoring raised no report"
		case kind == "neutral":
			res.Status = "broken"
			res.Msg = fmt.Sprintf("false alarm on a behaviour-preserving refactoring: %s %s", pr.violations[0].Rule, pr.violations[0].Key)
		case len(pr.violations) > 0:
			res.Status = "fired"
			res.Rule = pr.violations[0].Rule
			res.Msg = fmt.Sprintf("%d report(s), e.g. %s %s", len(pr.violations), pr.violations[0].Rule, pr.violations[0].Key)
		default:
			res.Status = "broken"
			res.Msg = "a confirmed breaking change of " + prop + " is not reported by its rules"
		}
		return res
	}
}

func firstLine(s string) string {
	if i := strings.Index(s, "\n"); i >= 0 {
		s = s[:i]
	}
	if len(s) > 300 {
		s = s[:300]
	}
	return s
}
