package main

import (
	"fmt"
	"go/token"
	"go/types"
	"regexp"
	"strings"

	"golang.org/x/tools/go/ssa"
)

// edgeOnlyFails: every return reachable from block b (without re-entering `stop`) is a non-nil-error return.
func edgeOnlyFails(w *World, f *ssa.Function, b *ssa.BasicBlock) bool {
	fails := map[ssa.Instruction]bool{}
	for _, bb := range f.Blocks {
		if ret, ok := bb.Instrs[len(bb.Instrs)-1].(*ssa.Return); ok {
			fails[ret] = true
		}
	}
	for _, sp := range successPoints(w, f) {
		if r, ok := sp.at.(*ssa.Return); ok {
			delete(fails, r)
		} else {
			// success decided at an earlier point (phi / spill): treat returns dominated by it as success
			for r := range fails {
				if sp.at.Block().Dominates(r.Block()) {
					delete(fails, r)
				}
			}
		}
	}
	q := &pathQ{target: func(in ssa.Instruction) bool { return isReturn(in) && !fails[in] }}
	hit, _ := q.reach(b, 0)
	return hit == nil
}

// edgeOnlyFailsDeep: as edgeOnlyFails for an edge that may live in a helper carved out of root: the edge
// only leads to failing returns of the helper, and at the helper's (single) call site the failing result only
// leads to failing returns of the caller, up to root.
func edgeOnlyFailsDeep(w *World, root *ssa.Function, succ *ssa.BasicBlock) bool {
	h := succ.Parent()
	if !edgeOnlyFails(w, h, succ) {
		return false
	}
	for i := 0; h != root && i < 6; i++ {
		site := transparentSite(h)
		if site == nil {
			return false
		}
		p := site.Parent()
		var fail *ssa.BasicBlock
		for _, ea := range condEdges(p) {
			if ea.A.Kind == "nonnil" {
				if c := atomCall(ea.A); c != nil && c == ssa.CallInstruction(site) {
					fail = ea.E.From.Succs[ea.E.Succ]
				}
			}
		}
		if fail == nil {
			// `return helper(x)`: the helper's result is the caller's
			ok := false
			for _, sp := range successPoints(w, p) {
				if sp.viaCallee == h {
					ok = true
				}
			}
			if !ok {
				return false
			}
		} else if !edgeOnlyFails(w, p, fail) {
			return false
		}
		h = p
	}
	return h == root
}

func init() {
	// ------------------------------------------------------------------ C11.R1
	register("C11", "R1", "K1", "evidence becomes pending only if it is not pending, not committed and verified (votes reported by consensus are exempt from verify)", 9, func(c *Ctx) {
		w := c.W
		k := newKeyer()
		for _, s := range w.allCallsTo("evidence#Pool.addPendingEvidence") {
			call := s.Instr.(ssa.CallInstruction)
			evV := callArgs(call)[0]
			key := k.key(s.Fn, "addPendingEvidence")
			gs := []Guard{
				guardCallOn("not already pending (keeps the size counter exact)", "false", "evidence#Pool.isPending", evV),
				guardCallOn("not already committed", "false", "evidence#Pool.isCommitted", evV),
			}
			// evidence the pool builds itself from the votes consensus reported (also through a helper carved
			// out of processConsensusBuffer)
			fromConsensus := strings.Contains(w.expr(evV), "NewDuplicateVoteEvidence(")
			if r := transparentRoot(outermost(s.Fn)); !fromConsensus && r.Name() == "processConsensusBuffer" && strings.HasSuffix(underMakeInterface(evV).Type().String(), "types.DuplicateVoteEvidence") {
				if _, isParam := stripConv(evV).(*ssa.Parameter); !isParam {
					fromConsensus = true
				}
			}
			if !fromConsensus {
				gs = append(gs, guardCallOn("verified against the state of its height", "nil", "evidence#Pool.verify", evV))
			}
			c.guards(s.Fn, call, key, 0, gs...)
		}
		// the gossip list only receives evidence that was stored as pending
		for _, f := range w.methodsOf("evidence", "Pool") {
			for _, call := range w.callsTo(f, "libs/clist#CList.PushBack") {
				if !strings.HasSuffix(w.expr(callRecv(call)), ".evidenceList") {
					continue
				}
				if outermost(f).Name() == "NewPool" {
					continue // reloading what is already pending in the store
				}
				c.guards(f, call, k.key(f, "push to gossip list"), 0, guardCallOn("stored as pending", "nil", "evidence#Pool.addPendingEvidence", callArgs(call)[0]))
			}
		}
	})

	// ------------------------------------------------------------------ C11.R2
	register("C11", "R2", "K1/K4", "verify: evidence time equals its block's time; expired only when BOTH age limits are exceeded; every evidence type has a case", 7, func(c *Ctx) {
		w := c.W
		f := c.fn("evidence", "Pool.verify")
		if f == nil {
			return
		}
		fk := funcKey(f)
		c.Check(c.ge().ensures(f, guardCmp("evidence time equals the header time of its height", `evidence\.Time\(\)`, "==", `.*LoadBlockMeta\(evidence\.Height\(\)\)\.Header\.Time`), 2), fk+" ensures the evidence time is the block time", w.pos(f.Pos()), "nil only behind the time equality", "verify can accept evidence whose time differs from its block's time")
		c.Check(c.ge().ensures(f, guardRe("block of the evidence height is known", `^nonnil\(.*LoadBlockMeta\(evidence\.Height\(\)\)\)$`), 2), fk+" ensures the block at the evidence height exists", w.pos(f.Pos()), "nil only with the block meta", "verify can accept evidence for an unknown height")
		notExpired := guardAny("not older than both age limits",
			guardCmp("d", `.*LastBlockTime\.Sub\(.*Header\.Time\)`, "<=", `.*MaxAgeDuration`),
			guardCmp("b", `\(.*LastBlockHeight - evidence\.Height\(\)\)`, "<=", `.*MaxAgeNumBlocks`))
		c.Check(c.ge().ensures(f, notExpired, 2), fk+" ensures freshness by at least one age limit", w.pos(f.Pos()), "accepted only if duration or block age is within its limit", "verify can accept evidence that exceeded both age limits")
		// the expiry rejection requires both limits exceeded
		for _, ea := range condEdges(f) {
			if guardCmp("x", `.*LastBlockTime\.Sub\(.*Header\.Time\)`, ">", `.*MaxAgeDuration`).Match(w, f, ea.A) {
				// on this edge alone verify must not reject yet: the block-age comparison must follow
				succ := ea.E.From.Succs[ea.E.Succ]
				okBoth := false
				if ifi, ok := succ.Instrs[len(succ.Instrs)-1].(*ssa.If); ok {
					a := normCond(ifi.Cond, true)
					okBoth = guardCmp("y", `\(.*LastBlockHeight - evidence\.Height\(\)\)`, ">", `.*MaxAgeNumBlocks`).Match(w, f, a)
				}
				c.Check(okBoth, fk+" :: expiry needs the block-age limit as well", w.ipos(ea.E.From.Instrs[len(ea.E.From.Instrs)-1]), "duration exceeded leads to the block-age test", "evidence is rejected as expired on the duration limit alone")
			}
		}
		// exhaustive over the Evidence implementations
		iface, _ := w.NamedType("types", "Evidence").Underlying().(*types.Interface)
		asserted := map[string]bool{}
		for _, b := range f.Blocks {
			for _, in := range b.Instrs {
				if ta, ok := in.(*ssa.TypeAssert); ok {
					if n := derefNamed(ta.AssertedType); n != nil {
						asserted[n.Obj().Name()] = true
					}
				}
			}
		}
		for _, impl := range w.implementers(iface) {
			if impl.pkg != "types" {
				continue
			}
			c.Check(asserted[impl.name], fk+" handles evidence type "+impl.name, w.pos(f.Pos()), "type switch case present", "evidence type "+impl.name+" has no case in verify: it would fall to the default")
		}
		// the pool's pruning predicate
		if g := c.fn("evidence", "Pool.isExpired"); g != nil {
			okAnd := c.ge().ensures(g, guardCmp("block age exceeded", `.*`, ">", `.*MaxAgeNumBlocks`), 2)
			vals := returnValues(g, 0)
			okDur := false
			for _, v := range vals {
				if regexp.MustCompile(`MaxAgeDuration`).MatchString(w.expr(v)) && strings.Contains(w.expr(v), " > ") {
					okDur = true
				}
			}
			c.Check(okAnd && okDur, funcKey(g)+" is true only if both age limits are exceeded", w.pos(g.Pos()), "blocks > MaxAgeNumBlocks && duration > MaxAgeDuration", "isExpired can report expiry with only one limit exceeded")
		}
	})

	// ------------------------------------------------------------------ C11.R3
	register("C11", "R3", "K1", "duplicate-vote evidence verifies only with all its checks", 12, func(c *Ctx) {
		w := c.W
		f := c.fn("evidence", "VerifyDuplicateVote")
		if f == nil {
			return
		}
		val := `valSet\.GetByAddress\(e\.VoteA\.ValidatorAddress\)#1`
		for _, g := range []Guard{
			guardRe("validator is in the set of that height", `^nonnil\(`+val+`\)$`),
			guardCmp("same height", `e\.VoteA\.Height`, "==", `e\.VoteB\.Height`),
			guardCmp("same round", `e\.VoteA\.Round`, "==", `e\.VoteB\.Round`),
			guardCmp("same type", `e\.VoteA\.Type`, "==", `e\.VoteB\.Type`),
			guardRe("same validator address", `^true\(bytes\.Equal\(e\.VoteA\.ValidatorAddress, e\.VoteB\.ValidatorAddress\)\)$`),
			guardRe("different block ids", `^false\(e\.VoteA\.BlockID\.Equals\(e\.VoteB\.BlockID\)\)$`),
			guardRe("address belongs to the validator's key", `^true\(bytes\.Equal\(`+val+`\.PubKey\.Address\(\), e\.VoteA\.ValidatorAddress\)\)$`),
			guardCmp("validator power equals the recorded power", val+`\.VotingPower`, "==", `e\.ValidatorPower`),
			guardCmp("total power equals the recorded total", `valSet\.TotalVotingPower\(\)`, "==", `e\.TotalVotingPower`),
			guardRe("vote A signature verifies", `^true\(`+val+`\.PubKey\.VerifySignature\(types\.VoteSignBytes\(chainID, e\.VoteA\.ToProto\(\)\), e\.VoteA\.Signature\)\)$`),
			guardRe("vote B signature verifies", `^true\(`+val+`\.PubKey\.VerifySignature\(types\.VoteSignBytes\(chainID, e\.VoteB\.ToProto\(\)\), e\.VoteB\.Signature\)\)$`),
		} {
			c.Check(c.ge().ensures(f, g, 2), "evidence.VerifyDuplicateVote ensures "+g.Name, w.pos(f.Pos()), "nil only behind this check", "VerifyDuplicateVote can accept without: "+g.Name)
		}
		// verify() hands it the validators of the evidence height and the chain id
		if v := c.fn("evidence", "Pool.verify"); v != nil {
			for _, call := range w.callsTo(v, "evidence#VerifyDuplicateVote") {
				ok := regexp.MustCompile(`^evidence\.VerifyDuplicateVote\(.*#0, .*\.ChainID, \w+\.stateDB\.LoadValidators\(evidence\.Height\(\)\)#0\)$`).MatchString(w.callStr(call))
				c.Check(ok, "evidence.Pool.verify checks duplicate votes against the validators of the evidence height", w.ipos(call), "LoadValidators(evidence.Height())", w.callStr(call))
			}
		}
	})

	// ------------------------------------------------------------------ C11.R4
	register("C11", "R4", "K1", "light-client-attack evidence verifies only with its checks", 7, func(c *Ctx) {
		w := c.W
		f := c.fn("evidence", "VerifyLightClientAttack")
		if f == nil {
			return
		}
		cb := `e\.ConflictingBlock`
		for _, g := range []Guard{
			guardAny("lunatic: 1/3 of the common validators signed the conflicting block; else the conflicting header is correctly derived",
				guardRe("a", `^nil\(commonVals\.VerifyCommitLightTrusting\(trustedHeader\.Header\.ChainID, `+cb+`\.SignedHeader\.Commit, light\.DefaultTrustLevel\)\)$`),
				guardRe("b", `^false\(e\.ConflictingHeaderIsInvalid\(trustedHeader\.Header\)\)$`)),
			guardRe("+2/3 of the conflicting block's own validators signed it", `^nil\(`+cb+`\.ValidatorSet\.VerifyCommitLight\(trustedHeader\.Header\.ChainID, `+cb+`\.SignedHeader\.Commit\.BlockID, `+cb+`\.SignedHeader\.Header\.Height, `+cb+`\.SignedHeader\.Commit\)\)$`),
			guardCmp("total voting power equals the common validators'", `e\.TotalVotingPower`, "==", `commonVals\.TotalVotingPower\(\)`),
			guardAny("conflicting header differs from the trusted one (or is a forward lunatic with an earlier/equal time)",
				guardRe("a", `^false\(bytes\.Equal\(trustedHeader\.Header\.Hash\(\), `+cb+`\.SignedHeader\.Header\.Hash\(\)\)\)$`),
				guardRe("b", `^false\(`+cb+`\.SignedHeader\.Header\.Time\.After\(trustedHeader\.Header\.Time\)\)$`)),
		} {
			c.Check(c.ge().ensures(f, g, 1), "evidence.VerifyLightClientAttack ensures "+g.Name, w.pos(f.Pos()), "nil only behind this check", "VerifyLightClientAttack can accept without: "+g.Name)
		}
		// adjacency decides which of the two is required
		for _, call := range w.callsTo(f, "types#ValidatorSet.VerifyCommitLightTrusting") {
			c.guards(f, call, "evidence.VerifyLightClientAttack :: trusting check for a lunatic attack", 0, guardCmp("common height differs from the conflicting height", `commonHeader\.Header\.Height`, "!=", cb+`\.SignedHeader\.Header\.Height`))
		}
		if g := c.fn("evidence", "validateABCIEvidence"); g != nil {
			for _, gd := range []Guard{
				guardCmp("total power", `ev\.TotalVotingPower`, "==", `commonVals\.TotalVotingPower\(\)`),
				guardCmp("same number of byzantine validators", `len\(ev\.GetByzantineValidators\(commonVals, trustedHeader\)\)`, "==", `len\(ev\.ByzantineValidators\)`),
			} {
				c.Check(c.ge().ensures(g, gd, 2), "evidence.validateABCIEvidence ensures "+gd.Name, w.pos(g.Pos()), "nil only behind this check", "validateABCIEvidence can accept without: "+gd.Name)
			}
		}
	})

	// ------------------------------------------------------------------ C11.R5
	register("C11", "R5", "K1", "block evidence: committed or repeated evidence makes the block invalid", 3, func(c *Ctx) {
		w := c.W
		f := c.fn("evidence", "Pool.CheckEvidence")
		if f == nil {
			return
		}
		fk := funcKey(f)
		nC, nD := 0, 0
		for _, ea := range condEdgesDeep(f) {
			s := w.atomStr(ea.A)
			if regexp.MustCompile(`^true\(\w+\.isCommitted\(`).MatchString(s) {
				nC++
				c.Check(edgeOnlyFailsDeep(w, f, ea.E.From.Succs[ea.E.Succ]), fk+" :: committed evidence is rejected", w.pos(f.Pos()), "the committed edge only leads to an error return", "evidence already committed can pass CheckEvidence")
			}
			if regexp.MustCompile(`^true\(bytes\.Equal\(.*hashes.*\[.*\], .*hashes.*\[.*\]\)\)$`).MatchString(s) || regexp.MustCompile(`^true\(bytes\.Equal\(make\(\[\]\[\]byte.*\)\[.*\], (make\(\[\]\[\]byte.*\)\[.*\]|.*\.Hash\(\))\)\)$`).MatchString(s) {
				nD++
				c.Check(edgeOnlyFailsDeep(w, f, ea.E.From.Succs[ea.E.Succ]), fk+" :: repeated evidence in one block is rejected", w.pos(f.Pos()), "the equal-hash edge only leads to an error return", "the same evidence twice in a block can pass CheckEvidence")
			}
		}
		c.Check(nC >= 1, fk+" :: checks the committed marker", w.pos(f.Pos()), "isCommitted consulted", "CheckEvidence no longer consults the committed marker")
		c.Check(nD >= 1, fk+" :: compares evidence hashes within the block", w.pos(f.Pos()), "pairwise hash comparison present", "CheckEvidence no longer compares hashes within the block")
		// the verification error is returned
		for _, call := range w.callsTo(f, "evidence#Pool.verify") {
			succ := errPassSucc(call)
			c.Check(succ != nil, fk+" :: verification error is acted on", w.ipos(call), "error of verify is branched on", "the error of verify is ignored")
		}
	})

	// ------------------------------------------------------------------ C11.R6
	register("C11", "R6", "K2+K3", "the size counter moves only with a successful write/delete of a pending key", 4, func(c *Ctx) {
		w := c.W
		k := newKeyer()
		n := 0
		for _, f := range w.FuncsInPkg("evidence") {
			for _, call := range w.callsTo(f, "sync/atomic#AddUint32", "sync/atomic#StoreUint32") {
				if !strings.HasSuffix(w.expr(call.Common().Args[0]), ".evidenceSize") {
					continue
				}
				n++
				d := w.expr(call.Common().Args[1])
				switch {
				case w.isCall(call, "sync/atomic#StoreUint32"):
					c.Check(outermost(f).Name() == "NewPool", k.key(f, "size counter initialised"), w.ipos(call), "set from the stored pending evidence at start-up", "the counter is overwritten outside start-up")
				case d == "1":
					c.guards(f, call, k.key(f, "size counter +1"), 0, guardRe("pending key written", `^nil\(\w+\.evidenceStore\.Set\(evidence\.keyPending\(\w+\), .*\)\)$`))
				case d == "4294967295":
					c.guards(f, call, k.key(f, "size counter -1"), 0, guardRe("pending key deleted", `^nil\(\w+\.evidenceStore\.Delete\(evidence\.keyPending\(\w+\)\)\)$`))
				default:
					c.Fail(k.key(f, "size counter changed by "+d), w.ipos(call), "unexpected change of the size counter")
				}
			}
		}
		c.Check(n >= 3, "evidence size counter sites", "evidence/pool.go", fmt.Sprintf("%d sites", n), fmt.Sprintf("expected +1, -1 and start-up initialisation, found %d sites", n))
	})

	// ------------------------------------------------------------------ C11.R7
	register("C11", "R7", "K2", "Update: conflicting votes become evidence for the decided height, then state, then committed markers, then pruning; validators of the votes' own height", 9, func(c *Ctx) {
		w := c.W
		f := c.fn("evidence", "Pool.Update")
		if f == nil {
			return
		}
		order := []string{"evidence#Pool.processConsensusBuffer", "evidence#Pool.updateState", "evidence#Pool.markEvidenceAsCommitted"}
		for i := 0; i+1 < len(order); i++ {
			for _, later := range w.callsTo(f, order[i+1]) {
				ok, _ := mustPrecede(f, later, w.callPred(order[i]))
				c.Check(ok, funcKey(f)+" :: "+order[i][strings.Index(order[i], ".")+1:]+" before "+order[i+1][strings.Index(order[i+1], ".")+1:], w.ipos(later), "ordered", "step order changed")
			}
		}
		for _, call := range w.callsTo(f, "evidence#Pool.removeExpiredPendingEvidence") {
			ok, _ := mustPrecede(f, call, w.callPred("evidence#Pool.markEvidenceAsCommitted"))
			c.Check(ok, funcKey(f)+" :: pruning after marking committed", w.ipos(call), "ordered", "pruning can run before committed evidence is marked")
		}
		c.guards(f, firstCall(w, f, "evidence#Pool.processConsensusBuffer"), funcKey(f)+" :: height advances", 0, guardCmp("new state is for a later height", `state\.LastBlockHeight`, ">", `\w+\.state\.LastBlockHeight`))
		// every committed item gets a committed key, pending ones are removed
		if g := c.fn("evidence", "Pool.markEvidenceAsCommitted"); g != nil {
			sets := w.callsMatching(g, `\.evidenceStore\.Set\(evidence\.keyCommitted\(`)
			c.Check(len(sets) == 1, funcKey(g)+" :: writes the committed marker", w.pos(g.Pos()), "Set(keyCommitted(ev))", "no committed marker written")
			for _, s := range sets {
				// not conditional on being pending
				for _, a := range w.atomsAt(s) {
					if strings.Contains(a, "isPending") {
						c.Fail(funcKey(g)+" :: committed marker for every evidence in the block", w.ipos(s), "the committed marker is only written when "+a)
					}
				}
			}
			for _, r := range w.callsTo(g, "evidence#Pool.removePendingEvidence") {
				c.guards(g, r, funcKey(g)+" :: remove from pending", 0, guardRe("it is pending", `^true\(\w+\.isPending\(.*\)\)$`))
			}
		}
		// evidence built from consensus votes uses the validator set and time of the votes' own height
		if g := c.fn("evidence", "Pool.processConsensusBuffer"); g != nil {
			n := 0
			for _, call := range w.callsTo(g, "types#NewDuplicateVoteEvidence") {
				n++
				a := callArgs(call)
				t, vs := w.expr(a[2]), w.expr(a[3])
				key := fmt.Sprintf("%s :: evidence from votes #%d", funcKey(g), n)
				if strings.HasPrefix(vs, "state.") {
					c.Check(vs == "state.LastValidators" && t == "state.LastBlockTime", key+" (just-decided height) uses LastValidators and LastBlockTime", w.ipos(call), "validators and time of the decided height", "built with "+vs+" / "+t)
					c.guards(g, call, key, 0, guardCmp("votes are for the height just decided", `.*VoteA\.Height`, "==", `state\.LastBlockHeight`))
				} else {
					okOld := regexp.MustCompile(`\.LoadValidators\(.*VoteA\.Height\)#0$`).MatchString(vs) && regexp.MustCompile(`\.LoadBlockMeta\(.*VoteA\.Height\)\.Header\.Time$`).MatchString(t)
					c.Check(okOld, key+" (older height) uses the stored validators and block time of that height", w.ipos(call), "LoadValidators(h) / LoadBlockMeta(h).Header.Time", "built with "+vs+" / "+t)
					c.guards(g, call, key, 0, guardCmp("votes are for an earlier height", `.*VoteA\.Height`, "<", `state\.LastBlockHeight`))
				}
			}
			c.Check(n == 2, funcKey(g)+" :: both height cases build evidence", w.pos(g.Pos()), "two construction sites", fmt.Sprintf("%d construction sites", n))
		}
	})
}

func firstCall(w *World, f *ssa.Function, spec string) ssa.Instruction {
	for _, c := range w.callsTo(f, spec) {
		return c
	}
	return f.Blocks[0].Instrs[0]
}

// guardCallOn: the atom tests the result of a call to spec whose first argument is exactly the value v
// (value identity, robust against expression rendering depth).
func guardCallOn(name, kind, spec string, v ssa.Value) Guard {
	return Guard{Name: name, Key: fmt.Sprintf("callon:%s:%s:%p", kind, spec, v), Match: func(w *World, f *ssa.Function, a Atom) bool {
		if a.Kind != kind {
			return false
		}
		c := atomCall(a)
		if c == nil || !w.isCall(c, spec) {
			return false
		}
		args := callArgs(c)
		return len(args) > 0 && (sameValue(args[0], v) || w.expr(args[0]) == w.expr(v))
	}}
}

// ------------------------------------------------------------------ C11.R8
// Who is named byzantine by light-client-attack evidence: only validators whose slot in the conflicting
// commit is *for the block* (those are the signatures commit verification checked); in a same-round
// (equivocation) attack also only those whose slot in the trusted commit is for the block. The pool compares
// the evidence's list with this function's result, and the application punishes the validators on it.
func init() {
	register("C11", "R8", "K1", "light-client-attack evidence names a validator byzantine only on the strength of verified (for-block) signatures", 3, func(c *Ctx) {
		w := c.W
		f := c.fn("types", "LightClientAttackEvidence.GetByzantineValidators")
		if f == nil {
			return
		}
		fk := funcKey(f)
		conf := `l\.ConflictingBlock\.SignedHeader\.Commit\.Signatures\[` + fwdIdx + `\]`
		trus := `trusted\.Commit\.Signatures\[` + fwdIdx + `\]`
		n := 0
		for _, call := range w.callsTo(f, "builtin#append") {
			n++
			key := fmt.Sprintf("%s :: name a validator #%d", fk, n)
			c.guards(f, call, key, 0, guardRe("its slot in the conflicting commit is for the block", `^true\(`+conf+`\.ForBlock\(\)\)$`))
			sameRound := false
			for _, a := range w.necessaryAtoms(f, call) {
				if strings.Contains(a, "Commit.Round == ") {
					sameRound = true
				}
			}
			if sameRound {
				c.guards(f, call, key, 0, guardRe("its slot in the trusted commit is for the block", `^true\(`+trus+`\.ForBlock\(\)\)$`))
			} else {
				c.guards(f, call, key, 0, guardRe("it is a member of the common validator set", `^nonnil\(commonVals\.GetByAddress\(`+conf+`\.ValidatorAddress\)#1\)$`))
			}
		}
		c.Check(n == 2, fk+" :: lunatic and equivocation branches found", w.pos(f.Pos()), "2 appends", fmt.Sprintf("%d appends", n))
		// F41: "for the block" is a flag the evidence's author sets, and commit verification (which stops at the
		// threshold and verifies a slot with the key at its index) does not tie a slot to the address written
		// into it. A validator is named only behind a valid signature, under the named validator's own key, over
		// the sign bytes of that very slot of the conflicting commit for the *trusted* chain id; where the
		// validator is taken from the evidence's own (conflicting) set, whose addresses no hash covers, the
		// address must also be the key's own.
		commit := `l\.ConflictingBlock\.SignedHeader\.Commit`
		n = 0
		for _, call := range w.callsTo(f, "builtin#append") {
			n++
			key := fmt.Sprintf("%s :: name a validator #%d", fk, n)
			args := callArgs(call)
			var elems []ssa.Value
			if len(args) == 2 {
				elems = sliceElems(args[1])
			}
			if !c.Check(len(elems) == 1, key+" :: one validator appended", w.ipos(call), "append(validators, val)", w.callStr(call)) {
				continue
			}
			val := w.expr(elems[0])
			m := regexp.MustCompile(`^(commonVals|l\.ConflictingBlock\.ValidatorSet)\.GetByAddress\(` + commit + `\.Signatures\[(.*)\]\.ValidatorAddress\)#1$`).FindStringSubmatch(val)
			if !c.Check(m != nil, key+" :: the validator named is the one found under the slot's address", w.ipos(call), "<set>.GetByAddress(conflicting commit slot address)", "names "+val) {
				continue
			}
			idx := regexp.QuoteMeta(m[2])
			sigRe := `^true\(` + regexp.QuoteMeta(val) + `\.PubKey\.VerifySignature\(` + commit + `\.VoteSignBytes\(trusted\.Header\.ChainID, (?:int32\()?` + idx + `\)?\), ` + commit + `\.Signatures\[` + idx + `\]\.Signature\)\)$`
			c.guards(f, call, key, 2, guardRe("the slot carries a valid signature of the named validator's own key for the conflicting block on the trusted chain id", sigRe))
			if m[1] != "commonVals" {
				c.guards(f, call, key, 0, guardRe("the address is the address of the key (the evidence's own set: addresses are not covered by the validators hash)",
					`^true\(bytes\.Equal\(`+regexp.QuoteMeta(val)+`\.PubKey\.Address\(\), `+commit+`\.Signatures\[`+idx+`\]\.ValidatorAddress\)\)$`))
			}
		}
	})
}

func underMakeInterface(v ssa.Value) ssa.Value {
	for i := 0; i < 4; i++ {
		switch x := v.(type) {
		case *ssa.MakeInterface:
			v = x.X
		case *ssa.ChangeInterface:
			v = x.X
		case *ssa.ChangeType:
			v = x.X
		default:
			return v
		}
	}
	return v
}

// ------------------------------------------------------------------ C11.R9
// Round-4 seeds: (a) which attack a light-client-attack evidence claims is decided from the five header
// fields that are deterministic functions of the previous block — dropping one misclassifies evidence that
// differs only there (a lunatic attack is treated as equivocation and the guilty set is wrong);
// (b) on restart every pending item is reloaded (no byte cap: the cap is for what goes into one block);
// (c) [superseded by F50, see below] the next pruning point is when the *oldest remaining evidence* expires (its own height + max age),
// not max age from now — otherwise expired evidence stays pending, is proposed and is accepted in blocks.
func init() {
	register("C11", "R9", "K4+K5", "attack classification compares all five derived header fields; restart reloads all pending evidence; a non-empty pool is scanned for expired evidence after every block", 8, func(c *Ctx) {
		w := c.W
		if f := c.fn("types", "LightClientAttackEvidence.ConflictingHeaderIsInvalid"); f != nil {
			fk := funcKey(f)
			want := []string{"ValidatorsHash", "NextValidatorsHash", "ConsensusHash", "AppHash", "LastResultsHash"}
			got := map[string]bool{}
			for _, call := range w.callsTo(f, "bytes#Equal") {
				a, b := w.expr(call.Common().Args[0]), w.expr(call.Common().Args[1])
				for _, fld := range want {
					if strings.HasSuffix(a, "."+fld) && strings.HasSuffix(b, "."+fld) && a != b {
						got[fld] = true
					}
				}
			}
			for _, fld := range want {
				c.Check(got[fld], fk+" :: compares "+fld+" of the trusted and the conflicting header", w.pos(f.Pos()), "bytes.Equal(trusted."+fld+", conflicting."+fld+")", "the field "+fld+" is not compared: a forged header differing only there is classified as derived correctly")
			}
			// and a difference in any one of them answers true
			for _, g := range []string{"ValidatorsHash", "NextValidatorsHash", "ConsensusHash", "AppHash", "LastResultsHash"} {
				gd := guardRe(g+" equal", `^true\(bytes\.Equal\(.*\.`+g+`, .*\.`+g+`\)\)$`)
				dc := dummyCallOf(f)
				if dc == nil {
					c.Undecided(fk+" :: caller", w.pos(f.Pos()), "no caller of ConflictingHeaderIsInvalid found")
					break
				}
				c.Check(c.ge().predicateEnsures(dc, f, gd, false, 1), fk+" :: answers false only if "+g+" is equal", w.pos(f.Pos()), "false ⇒ equal", "can answer 'derived correctly' although "+g+" differs")
			}
		}
		if f := c.fn("evidence", "NewPool"); f != nil {
			n := 0
			for _, call := range w.callsTo(f, "evidence#Pool.listEvidence") {
				n++
				k, isC := constInt(callArgs(call)[1])
				c.Check(isC && k == -1, funcKey(f)+" :: all pending evidence is reloaded at start", w.ipos(call), "listEvidence(pending, -1)", "pending evidence is reloaded under a byte limit ("+w.expr(callArgs(call)[1])+"): what does not fit is neither counted nor gossiped nor proposed again")
			}
			c.Check(n == 1, funcKey(f)+" :: reload of pending evidence found", w.pos(f.Pos()), "1", fmt.Sprintf("%d", n))
		}
		// (c) F50: whether a pending item has expired depends on the new state's height, time and evidence
		// parameters. Update used to skip the scan unless the state was strictly beyond a cached point, which
		// was one block (and one second) late and blind to parameter changes: expired evidence was still
		// proposed and accepted. The scan for expired evidence runs after every block that leaves anything
		// pending: no other condition may stand between a non-empty pool and the scan. (The schedule the scan
		// returns is no longer consulted; nothing is demanded of it.)
		if f := c.fn("evidence", "Pool.Update"); f != nil {
			fk := funcKey(f)
			scans := w.deepCallsTo(f, 2, "evidence#Pool.removeExpiredPendingEvidence")
			c.Check(len(scans) == 1, fk+" :: scan for expired evidence found", w.pos(f.Pos()), "1", fmt.Sprintf("%d", len(scans)))
			// emptyEdges: edges of g on which the pool is known to be empty (no scan needed there)
			emptyEdges := func(g *ssa.Function) map[Edge]bool {
				empty := map[Edge]bool{}
				isSize := func(s string) bool { return regexp.MustCompile(`^\w+\.Size\(\)$`).MatchString(s) }
				for _, ea := range condEdges(g) {
					if ea.A.Kind != "cmp" {
						continue
					}
					x, y := w.expr(ea.A.X), w.expr(ea.A.Y)
					if (isSize(x) && y == "0" && (ea.A.Op == token.LEQ || ea.A.Op == token.EQL)) || (isSize(y) && x == "0" && (ea.A.Op == token.GEQ || ea.A.Op == token.EQL)) {
						empty[ea.E] = true
					}
				}
				return empty
			}
			// scansUnlessEmpty: every way through g (from its entry) either runs the scan, or calls a helper
			// of which the same holds, or crosses an edge on which the pool is empty
			var isScan func(in ssa.Instruction, d int) bool
			scansUnlessEmpty := func(g *ssa.Function, d int) bool {
				if g == nil || g.Blocks == nil || d > 2 {
					return false
				}
				em := emptyEdges(g)
				qq := &pathQ{blocked: func(e Edge) bool { return em[e] }, kill: func(in ssa.Instruction) bool { return isScan(in, d+1) }, target: isReturn}
				hit, _ := qq.reach(g.Blocks[0], 0)
				return hit == nil
			}
			isScan = func(in ssa.Instruction, d int) bool {
				call, ok := in.(ssa.CallInstruction)
				if !ok {
					return false
				}
				if w.isCall(call, "evidence#Pool.removeExpiredPendingEvidence") {
					return true
				}
				if h := staticCallee(call); h != nil && h != f && pkgPathOf(h) == pkgPathOf(f) && isNewFunc(h) {
					return scansUnlessEmpty(h, d)
				}
				return false
			}
			empty := emptyEdges(f)
			// start after the committed evidence was marked (the last step before pruning)
			for _, mark := range w.callsTo(f, "evidence#Pool.markEvidenceAsCommitted") {
				qq := &pathQ{blocked: func(e Edge) bool { return empty[e] }, kill: func(in ssa.Instruction) bool { return isScan(in, 0) }, target: isReturn}
				mi := 0
				for i, in := range mark.Block().Instrs {
					if in == ssa.Instruction(mark) {
						mi = i + 1
					}
				}
				hit, path := qq.reach(mark.Block(), mi)
				pos := w.ipos(mark)
				if hit != nil {
					pos = w.ipos(hit)
				}
				c.Check(hit == nil, fk+" :: a non-empty pool is scanned for expired evidence after every block", pos, "Size() > 0 ⇒ removeExpiredPendingEvidence()", "Update can return with evidence pending and without looking for expired items ("+pathStr(w, path)+"): an item that expired with this block stays pending, is proposed and is accepted in a block")
			}
		}
	})
}

// dummyCallOf: predicateEnsures wants a call for parameter substitution; with none at hand the parameters
// keep their own names.
func dummyCallOf(f *ssa.Function) ssa.CallInstruction {
	w := worldFor(f)
	if w == nil {
		return nil
	}
	for _, cs := range w.callersOf(f) {
		return cs
	}
	return nil
}

// ------------------------------------------------------------------ C11.R10
// F33: the validator index of a vote is not signed, but it is part of duplicate-vote evidence and of its
// hash. Evidence is "new" by hash: unless both votes must carry the index the validator really has, one
// pair of conflicting votes yields any number of distinct pieces of evidence, each admitted and committed
// (and punished) again.
func init() {
	register("C11", "R10", "K1", "duplicate-vote evidence verifies only if both votes carry the validator's own index in the set of that height", 2, func(c *Ctx) {
		w := c.W
		f := c.fn("evidence", "VerifyDuplicateVote")
		if f == nil {
			return
		}
		idx := `valSet\.GetByAddress\(e\.VoteA\.ValidatorAddress\)#0`
		for _, v := range []string{"VoteA", "VoteB"} {
			g := guardCmp(v+"'s validator index is the validator's index in the set", `e\.`+v+`\.ValidatorIndex`, "==", idx)
			c.Check(c.ge().ensures(f, g, 1), funcKey(f)+" ensures "+g.Name, w.pos(f.Pos()), "nil only behind it", "evidence verifies whatever index "+v+" carries: the same votes with another index hash differently and count as new evidence")
		}
	})
}

// ------------------------------------------------------------------ C11.R11
// F52: "not pending, not committed, valid → store, count and queue it" must be one step. AddEvidence runs
// in one routine per peer and for the RPC, CheckEvidence and Update in the consensus routine. Without a
// common exclusion the same evidence is counted and queued twice (the reported size is one too high for
// good), or an AddEvidence that passed its tests while the block carrying the evidence was committed makes
// committed evidence pending again (proposed and accepted in another block). Rule (K6): there is one mutex
// of the pool that all three entry points hold at every site where they test, add to, or mark the pending /
// committed sets.
func init() {
	register("C11", "R11", "K6", "AddEvidence, CheckEvidence and Update test and change the pending/committed sets under one common mutex", 8, func(c *Ctx) {
		w := c.W
		entry := []string{"Pool.AddEvidence", "Pool.CheckEvidence", "Pool.Update"}
		sites := []string{"evidence#Pool.isPending", "evidence#Pool.isCommitted", "evidence#Pool.addPendingEvidence", "evidence#Pool.markEvidenceAsCommitted", "evidence#Pool.removeExpiredPendingEvidence", "evidence#Pool.processConsensusBuffer"}
		var common map[string]bool
		type site struct {
			f    *ssa.Function
			call ssa.CallInstruction
			held []string
		}
		var all []site
		for _, name := range entry {
			f := c.fn("evidence", name)
			if f == nil {
				continue
			}
			n := 0
			// sites in the entry point itself or in helpers it calls (a predicate or a per-item helper
			// carved out of it): what counts is what is held where the entry point is left for the helper,
			// plus what the helper takes itself
			for _, dc := range w.deepCallsTo(f, 2, sites...) {
				n++
				held := w.computeLocks(f).heldAt(dc.site)
				if dc.call.Parent() != f {
					held = append(held, w.computeLocks(dc.call.Parent()).heldAt(dc.call)...)
				}
				all = append(all, site{f, dc.site, held})
				set := map[string]bool{}
				for _, h := range held {
					set[h] = true
				}
				if common == nil {
					common = set
				} else {
					for k := range common {
						if !set[k] {
							delete(common, k)
						}
					}
				}
			}
			c.Check(n >= 2, funcKey(f)+" :: admission steps found", w.pos(f.Pos()), ">= 2", fmt.Sprintf("%d", n))
		}
		ky := newKeyer()
		for _, s := range all {
			c.Check(len(common) >= 1, ky.key(s.f, "pending/committed set touched under the common admission mutex"), w.ipos(s.call), "a mutex held at every such site of the three entry points", fmt.Sprintf("held here: %v; no mutex is held at all of the sites: two routines can both find the evidence new and both add and count it, or add it after it was committed", s.held))
		}
	})
}
