package main

func init() {
	addWitness(Witness{Name: "initchain-when-state-height-zero", Prop: "C05", Rule: "C05.R1", Kind: "break", File: "consensus/replay.go",
		Old: "	if appBlockHeight == 0 {\n		validators := make(", New: "	if appBlockHeight == 0 || stateBlockHeight == 0 {\n		validators := make("})
	addWitness(Witness{Name: "endheight-write-failure-tolerated", Prop: "C05", Rule: "C05.R2", Kind: "break", File: "consensus/state.go",
		Old: "	if err := cs.wal.WriteSync(endMsg); err != nil { // NOTE: fsync\n		panic(fmt.Sprintf(", New: "	if err := cs.wal.WriteSync(endMsg); err != nil { // NOTE: fsync\n		logger.Error(fmt.Sprintf("})
	addWitness(Witness{Name: "abci-responses-saved-after-commit", Prop: "C05", Rule: "C05.R3", Kind: "break", File: "state/execution.go",
		Old:  "	// Save the results before we commit.\n	if err := blockExec.store.SaveABCIResponses(block.Height, abciResponses); err != nil {\n		return state, 0, err\n	}\n",
		New:  "",
		More: []Edit{{"state/execution.go", "	// Update evpool with the latest state.\n", "	if err := blockExec.store.SaveABCIResponses(block.Height, abciResponses); err != nil {\n		return state, 0, err\n	}\n	// Update evpool with the latest state.\n"}}})
	addWitness(Witness{Name: "flush-error-ignored-before-commit", Prop: "C05", Rule: "C05.R5", Kind: "break", File: "state/execution.go",
		Old: "		blockExec.logger.Error(\"client error during mempool.FlushAppConn\", \"err\", err)\n		return nil, 0, err\n", New: "		blockExec.logger.Error(\"client error during mempool.FlushAppConn\", \"err\", err)\n"})
	addWitness(Witness{Name: "v0-flush-async", Prop: "C05", Rule: "C05.R5", Kind: "break", File: "mempool/v0/clist_mempool.go",
		Old: "	return mem.proxyAppConn.FlushSync()", New: "	mem.proxyAppConn.FlushAsync()\n	return mem.proxyAppConn.Error()"})
	addWitness(Witness{Name: "v0-checktx-without-update-lock", Prop: "C05", Rule: "C05.R6", Kind: "break", File: "mempool/v0/clist_mempool.go",
		Old: "	mem.updateMtx.RLock()\n	// use defer to unlock mutex because application (*local client*) might panic\n	defer mem.updateMtx.RUnlock()\n\n	txSize := len(tx)",
		New: "	txSize := len(tx)"})
	addWitness(Witness{Name: "handshake-table-boundary", Prop: "C05", Rule: "C05.R7", Kind: "break", File: "consensus/replay.go",
		Old: "		case appBlockHeight < stateBlockHeight:", New: "		case appBlockHeight <= stateBlockHeight:"})
	addWitness(Witness{Name: "deliver-before-begin", Prop: "C05", Rule: "C05.R4", Kind: "break", File: "state/execution.go",
		Old: "	if err != nil {\n		logger.Error(\"error in proxyAppConn.BeginBlock\", \"err\", err)\n		return nil, err\n	}", New: "	if err != nil {\n		logger.Error(\"error in proxyAppConn.BeginBlock\", \"err\", err)\n	}"})
}
