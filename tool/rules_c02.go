package main

import (
	"fmt"
	"regexp"
	"strings"

	"golang.org/x/tools/go/ssa"
)

// guardAny matches if any alternative matches (a disjunction established by crossing either edge).
func guardAny(name string, gs ...Guard) Guard {
	key := "any:"
	for _, g := range gs {
		key += "[" + g.Name + "|" + g.Key + "]"
	}
	return Guard{Name: name, Key: key, Match: func(w *World, f *ssa.Function, a Atom) bool {
		for _, g := range gs {
			if g.Match(w, f, a) {
				return true
			}
		}
		return false
	}}
}

func init() {
	// ------------------------------------------------------------------ C02.R1
	register("C02", "R1", "K3", "signing sinks are owned by one function each: SignVote, SignProposal, prevote and precommit casting", 9, func(c *Ctx) {
		w := c.W
		prevote := c.mustConst("proto/tendermint/types", "PrevoteType")
		precommit := c.mustConst("proto/tendermint/types", "PrecommitType")
		stepPrecommit := c.mustConst("consensus/types", "RoundStepPrecommit")
		stepPropose := c.mustConst("consensus/types", "RoundStepPropose")
		// SignVote / SignProposal inside consensus
		for _, spec := range []string{"types#PrivValidator.SignVote", "types#PrivValidator.SignProposal"} {
			owners := map[string]bool{}
			var first Site
			for _, s := range w.allCallsTo(spec) {
				if relPkg(s.Fn) != "consensus" {
					continue
				}
				owners[funcKey(outermost(s.Fn))] = true
				first = s
			}
			name := spec[strings.Index(spec, "#")+1:]
			if len(owners) == 0 {
				c.Undecided("owner of "+name, "-", "no call of "+name+" found in package consensus")
				continue
			}
			c.Check(len(owners) == 1, "single owner of "+name+" in consensus", w.ipos(first.Instr), "called from exactly one function: "+strings.Join(sortedKeys(owners), ","), "called from several functions: "+strings.Join(sortedKeys(owners), ", "))
		}
		// vote casting: prevotes only in functions installed as doPrevote; precommits only in the function that enters RoundStepPrecommit
		w.buildCallers()
		prevoteFns := map[*ssa.Function]bool{}
		for fv, fns := range w.fieldFns {
			if fv.Name() == "doPrevote" {
				for _, f := range fns {
					prevoteFns[f] = true
				}
			}
		}
		k := newKeyer()
		for _, s := range w.allCallsTo(specSignAdd) {
			args := callArgs(s.Instr.(ssa.CallInstruction))
			t, ok := constInt(args[0])
			if !ok {
				c.Fail(k.key(s.Fn, "signAddVote dynamic type"), w.ipos(s.Instr), "vote type is not a constant: "+w.expr(args[0]))
				continue
			}
			switch t {
			case prevote:
				c.Check(prevoteFns[outermost(s.Fn)], k.key(s.Fn, "cast prevote"), w.ipos(s.Instr), "prevote cast inside the installed prevote function", "prevote cast outside the function installed as doPrevote")
			case precommit:
				// the function itself, or — for a helper introduced later (e.g. "precommit nil" shared by several
				// branches) — every function that calls it
				okOwn := true
				for _, o := range rootOwners(w, outermost(s.Fn), 0) {
					if !entersStep(w, o, stepPrecommit) {
						okOwn = false
					}
				}
				c.Check(okOwn, k.key(s.Fn, "cast precommit"), w.ipos(s.Instr), "precommit cast inside the function that enters RoundStepPrecommit", "precommit cast in a function that does not enter RoundStepPrecommit")
			default:
				c.Fail(k.key(s.Fn, "cast other"), w.ipos(s.Instr), fmt.Sprintf("vote of unknown type %d cast", t))
			}
		}
		// the proposal is decided only in the function that enters RoundStepPropose
		for _, f := range w.methodsOf("consensus", "State") {
			for _, call := range callInstrs(f) {
				if strings.HasSuffix(w.callStr(call), ")") && regexp.MustCompile(`\.decideProposal\(`).MatchString(w.callStr(call)) && staticCallee(call) == nil {
					c.Check(entersStep(w, outermost(f), stepPropose), k.key(f, "decide proposal"), w.ipos(call), "proposal decided inside the function that enters RoundStepPropose", "decideProposal invoked outside the propose step function")
				}
			}
		}
	})

	// ------------------------------------------------------------------ C02.R2
	register("C02", "R2", "K1", "step guards: every step transition and every signature is behind height/round/step monotonicity checks with the matching step constant", 30, func(c *Ctx) {
		w := c.W
		k := newKeyer()
		stepName := map[int64]string{}
		for _, n := range []string{"RoundStepNewHeight", "RoundStepNewRound", "RoundStepPropose", "RoundStepPrevote", "RoundStepPrevoteWait", "RoundStepPrecommit", "RoundStepPrecommitWait", "RoundStepCommit"} {
			stepName[c.mustConst("consensus/types", n)] = n
		}
		newRound := c.mustConst("consensus/types", "RoundStepNewRound")
		newHeight := c.mustConst("consensus/types", "RoundStepNewHeight")
		commit := c.mustConst("consensus/types", "RoundStepCommit")
		heightG := guardCmp("height is current", `.*\.Height`, "==", `\w+`)
		roundG := guardCmp("round is not in the past", `\w+`, ">=", `.*\.Round`)
		stepGuard := func(S int64) Guard {
			alts := []Guard{
				guardCmp("s", `.*\.Step`, "<", fmt.Sprint(S)),
				guardCmp("r", `.*\.Round`, "!=", `\w+`),
			}
			if S == newRound {
				alts = append(alts, guardCmp("s0", `.*\.Step`, "==", fmt.Sprint(newHeight)))
			}
			if S == commit {
				alts = alts[:1]
			}
			return guardAny(fmt.Sprintf("not yet at %s in this round", stepName[S]), alts...)
		}
		// (1) updateRoundStep(r, S)
		for _, f := range w.methodsOf("consensus", "State") {
			for _, call := range w.callsTo(f, "consensus#State.updateRoundStep") {
				args := callArgs(call)
				S, ok := constInt(args[1])
				if !ok {
					c.Fail(k.key(f, "updateRoundStep dynamic"), w.ipos(call), "step is not a constant")
					continue
				}
				if S == newHeight {
					continue // height reset, governed by C05/C01 commit rules
				}
				key := k.key(f, "enter "+stepName[S])
				gs := []Guard{heightG, stepGuard(S)}
				if S != commit {
					gs = append(gs, roundG)
				}
				c.guards(f, call, key, 2, gs...)
			}
		}
		// (2) signatures
		prevote := c.mustConst("proto/tendermint/types", "PrevoteType")
		stepOf := map[int64]int64{prevote: c.mustConst("consensus/types", "RoundStepPrevote"), c.mustConst("proto/tendermint/types", "PrecommitType"): c.mustConst("consensus/types", "RoundStepPrecommit")}
		for _, s := range w.allCallsTo(specSignAdd) {
			args := callArgs(s.Instr.(ssa.CallInstruction))
			t, _ := constInt(args[0])
			S, ok := stepOf[t]
			if !ok {
				continue
			}
			key := k.key(s.Fn, "sign "+stepName[S][9:])
			c.guards(s.Fn, s.Instr, key, 3, heightG, roundG, stepGuard(S))
		}
		for _, s := range w.allCallsTo("types#PrivValidator.SignProposal") {
			if relPkg(s.Fn) != "consensus" {
				continue
			}
			key := k.key(s.Fn, "sign proposal")
			c.guards(s.Fn, s.Instr, key, 3, heightG, roundG, stepGuard(c.mustConst("consensus/types", "RoundStepPropose")))
		}
	})

	// ------------------------------------------------------------------ C02.R3
	register("C02", "R3", "K1", "a precommit for a block needs a polka for it in the current round and the block in hand", 6, func(c *Ctx) {
		w := c.W
		precommit := c.mustConst("proto/tendermint/types", "PrecommitType")
		k := newKeyer()
		for _, s := range w.allCallsTo(specSignAdd) {
			call := s.Instr.(ssa.CallInstruction)
			args := callArgs(call)
			if t, _ := constInt(args[0]); t != precommit || isNilConst(args[1]) {
				continue
			}
			key := k.key(s.Fn, "precommit block")
			h := w.expr(args[1])
			m := regexp.MustCompile(`^(.*\.Prevotes\((.*)\)\.TwoThirdsMajority\(\))#0\.Hash$`).FindStringSubmatch(h)
			if !c.Check(m != nil, key+" value is the polka hash", w.ipos(call), "precommitted hash is the +2/3 prevote block id", "precommitted hash is "+h) {
				continue
			}
			pol, R := q(m[1]), m[2]
			c.Check(w.expr(args[2]) == m[1]+"#0.PartSetHeader", key+" header is the polka header", w.ipos(call), "part-set header of the polka id", "header is "+w.expr(args[2]))
			// the polka round is the round being entered
			roundOK := false
			for _, g := range append([]*ssa.Function{outermost(s.Fn)}, outermost(s.Fn).AnonFuncs...) {
				for _, u := range w.callsTo(g, "consensus#State.updateRoundStep") {
					if w.expr(callArgs(u)[0]) == R {
						roundOK = true
					}
				}
			}
			c.Check(roundOK, key+" polka round is the step's round", w.ipos(call), "polka taken from the round the step is entered for", "polka round "+R+" is not the round passed to updateRoundStep")
			c.guards(s.Fn, call, key, 1,
				guardRe("polka exists", `^true\(`+pol+`#1\)$`),
				guardCmp("polka is not for nil", `len\(`+pol+`#0\.Hash\)`, "!=", "0"),
			)
			// precommitting a block goes with (re)locking on it in this round
			okLock, path := mustPrecede(s.Fn, call, func(in ssa.Instruction) bool {
				st, ok := in.(*ssa.Store)
				if !ok {
					return false
				}
				fa, ok := st.Addr.(*ssa.FieldAddr)
				return ok && isFieldOf(fa, "consensus/types", "RoundState", "LockedRound") && w.expr(st.Val) == R
			})
			c.Check(okLock, key+" after LockedRound = round", w.ipos(call), "the lock round is set to this round before the block precommit is cast", "a block precommit can be cast without LockedRound being set to this round (a later stale polka could unlock): "+pathStr(w, path))
			c.anyGuards(s.Fn, call, key, "the precommitted block is in hand (locked or proposal block hashes to the polka id)", 1,
				[]Guard{guardRe("l", `^true\(.*\.LockedBlock\.HashesTo\(`+pol+`#0\.Hash\)\)$`)},
				[]Guard{guardRe("p", `^true\(.*\.ProposalBlock\.HashesTo\(`+pol+`#0\.Hash\)\)$`)})
		}
	})

	// ------------------------------------------------------------------ C02.R4
	register("C02", "R4", "K1", "unlock only on a polka of a later round for something else (or a nil/unknown polka in the current round)", 6, func(c *Ctx) {
		w := c.W
		k := newKeyer()
		for _, fs := range w.fieldStores("consensus/types", "RoundState", "LockedBlock") {
			if !storesNil(fs.Store) {
				continue
			}
			if entersStep(w, outermost(fs.Fn), c.mustConst("consensus/types", "RoundStepNewHeight")) {
				c.OK(k.key(fs.Fn, "LockedBlock = nil (height reset)"), w.ipos(fs.Store), "reset when moving to the next height")
				continue
			}
			key := k.key(fs.Fn, "LockedBlock = nil")
			// find a polka atom dominating the store — in the storing function or, when the unlock was
			// extracted into a helper, at the helper's call sites
			polkaRe := regexp.MustCompile(`^true\((.*\.Prevotes\((.*)\)\.TwoThirdsMajority\(\))#1\)$`)
			type usite struct {
				fn *ssa.Function
				at ssa.Instruction
			}
			var sites []usite
			var lift func(fn *ssa.Function, at ssa.Instruction, d int) bool
			lift = func(fn *ssa.Function, at ssa.Instruction, d int) bool {
				for _, a := range w.atomsAt(at) {
					if polkaRe.MatchString(a) {
						sites = append(sites, usite{fn, at})
						return true
					}
				}
				callers := w.callersOf(fn)
				if d <= 0 || len(callers) == 0 {
					return false
				}
				for _, cs := range callers {
					if !lift(cs.Parent(), cs, d-1) {
						return false
					}
				}
				return true
			}
			if !c.Check(lift(fs.Fn, fs.Store, 2) && len(sites) > 0, key+" <= polka", w.ipos(fs.Store), "a +2/3 prevote majority dominates the unlock", "unlock is not dominated by any TwoThirdsMajority() of prevotes") {
				continue
			}
			// same-block stores reset round and parts
			rs, ps := false, false
			for _, st := range sameBlockStores(fs.Store) {
				if fa, ok := st.Addr.(*ssa.FieldAddr); ok {
					if isFieldOf(fa, "consensus/types", "RoundState", "LockedRound") {
						v, ok := constInt(st.Val)
						rs = ok && v == -1
					}
					if isFieldOf(fa, "consensus/types", "RoundState", "LockedBlockParts") {
						ps = storesNil(st)
					}
				}
			}
			c.Check(rs && ps, key+" resets LockedRound and parts", w.ipos(fs.Store), "LockedRound=-1 and LockedBlockParts=nil with it", "LockedRound/LockedBlockParts are not reset together with LockedBlock")
			for _, us := range sites {
				var pol, R string
				for _, a := range w.atomsAt(us.at) {
					if m := polkaRe.FindStringSubmatch(a); m != nil {
						pol, R = q(m[1]), m[2]
					}
				}
				isParamRound := false
				for _, p := range outermost(us.fn).Params {
					if canonParamName(p) == R {
						isParamRound = true
					}
				}
				// the polka may have been found at the call site of a helper carved out of us.fn: the
				// remaining conditions are then asked at the store itself, over the chain helper → call site
				tgt := us.at
				if us.fn != fs.Fn && transparentRoot(fs.Fn) == us.fn {
					tgt = fs.Store
				}
				if isParamRound {
					// step path: round is the entered round; unlock on nil polka or on a polka for a block that is not the lock
					c.guards(us.fn, tgt, key, 1, guardCmp("round is not in the past", q(R), ">=", `.*\.Round`))
					c.anyGuards(us.fn, tgt, key, "polka is nil, or for a block that is neither the lock nor (valid) proposal", 0,
						[]Guard{guardCmp("nilpolka", `len\(`+pol+`#0\.Hash\)`, "==", "0")},
						[]Guard{guardRe("notlock", `^false\(.*\.LockedBlock\.HashesTo\(`+pol+`#0\.Hash\)\)$`), guardRe("notprop", `^false\(.*\.ProposalBlock\.HashesTo\(`+pol+`#0\.Hash\)\)$`)})
				} else {
					// vote path: polka from an arbitrary round R of a received vote
					c.guards(us.fn, tgt, key, 0,
						guardCmp("polka round is after the lock round", `.*\.LockedRound`, "<", q(R)),
						guardCmp("polka round is not in the future", q(R), "<=", `.*\.Round`),
						guardRe("polka is not for the locked block", `^false\(.*\.LockedBlock\.HashesTo\(`+pol+`#0\.Hash\)\)$`),
						guardRe("locked", `^nonnil\(.*\.LockedBlock\)$`),
					)
				}
			}
		}
	})

	// ------------------------------------------------------------------ C02.R5
	register("C02", "R5", "K1", "file signer: sign only after the height/round/step regression check; reuse a signature only for identical (or timestamp-only different) sign bytes", 14, func(c *Ctx) {
		w := c.W
		k := newKeyer()
		chk := "privval#FilePVLastSignState.CheckHRS"
		// (a) CheckHRS itself
		if f := c.fn("privval", "FilePVLastSignState.CheckHRS"); f != nil {
			H, R, S := paramName(f, 1), paramName(f, 2), paramName(f, 3)
			noH := guardCmp("no height regression", `\w+\.Height`, "<=", q(H))
			noR := guardAny("no round regression at equal height", guardCmp("a", `\w+\.Height`, "!=", q(H)), guardCmp("b", `\w+\.Round`, "<=", q(R)))
			noS := guardAny("no step regression at equal height and round", guardCmp("a", `\w+\.Height`, "!=", q(H)), guardCmp("b", `\w+\.Round`, "!=", q(R)), guardCmp("c", `\w+\.Step`, "<=", q(S)))
			for _, g := range []Guard{noH, noR, noS} {
				ok := c.ge().ensures(f, g, 2)
				c.Check(ok, "privval.FilePVLastSignState.CheckHRS ensures "+g.Name, w.pos(f.Pos()), "every nil-error return is behind the comparison", "a nil-error return of CheckHRS is reachable without the comparison '"+g.Name+"'")
			}
			// sameHRS=true only at equality with stored sign bytes
			for _, b := range f.Blocks {
				ret, ok := b.Instrs[len(b.Instrs)-1].(*ssa.Return)
				if !ok || len(ret.Results) != 2 {
					continue
				}
				if v, ok := boolConst(ret.Results[0]); ok && v {
					c.guards(f, ret, k.key(f, "return sameHRS=true"), 0,
						guardCmp("height equal", `\w+\.Height`, "==", q(H)), guardCmp("round equal", `\w+\.Round`, "==", q(R)), guardCmp("step equal", `\w+\.Step`, "==", q(S)),
						guardRe("sign bytes recorded", `^nonnil\(\w+\.SignBytes\)$`))
				}
			}
		}
		// (b) signing functions of FilePV
		n := 0
		for _, f := range w.methodsOf("privval", "FilePV") {
			for _, call := range w.callsTo(f, "crypto#PrivKey.Sign") {
				n++
				key := k.key(f, "PrivKey.Sign")
				c.guards(f, call, key, 1,
					guardCallOK("CheckHRS passed", chk),
					guardRe("not the same HRS as last signed", `^false\(.*\.CheckHRS\(.*\)#0\)$`))
				// CheckHRS arguments are the message's own height/round/step
				for _, cc := range w.callsTo(f, chk) {
					a := callArgs(cc)
					okArgs := strings.HasSuffix(w.expr(a[0]), ".Height") && strings.HasSuffix(w.expr(a[1]), ".Round")
					c.Check(okArgs, key+" CheckHRS arguments", w.ipos(cc), "CheckHRS is asked about the message's height and round", "CheckHRS called with "+w.expr(a[0])+", "+w.expr(a[1]))
				}
				// the signed bytes are the canonical sign bytes of the message
				sb := w.expr(callArgs(call)[0])
				c.Check(regexp.MustCompile(`^types\.(Vote|Proposal)SignBytes\(\w+, \w+\)$`).MatchString(sb), key+" signs canonical sign bytes", w.ipos(call), "signs "+sb, "signs "+sb)
			}
			// signature reuse
			for _, b := range f.Blocks {
				for _, in := range b.Instrs {
					st, ok := in.(*ssa.Store)
					if !ok || !strings.HasSuffix(w.expr(st.Addr), ".Signature") || !strings.HasSuffix(w.expr(st.Val), ".LastSignState.Signature") {
						continue
					}
					key := k.key(f, "reuse last signature")
					c.guards(f, st, key, 0, guardCallOK("CheckHRS passed", chk), guardRe("same HRS as last signed", `^true\(.*\.CheckHRS\(.*\)#0\)$`))
					c.anyGuards(f, st, key, "sign bytes equal the last signed ones, or differ only by timestamp", 0,
						[]Guard{guardRe("eq", `^true\(bytes\.Equal\(types\.\w+SignBytes\(.*\), .*\.LastSignState\.SignBytes\)\)$`)},
						[]Guard{guardRe("ts", `^true\(privval\.check\w+OnlyDifferByTimestamp\(.*\.LastSignState\.SignBytes, types\.\w+SignBytes\(.*\)\)#1\)$`)})
				}
			}
		}
		if n < 2 {
			c.Undecided("signing functions", "-", fmt.Sprintf("expected vote and proposal signing in privval.FilePV, found %d PrivKey.Sign calls", n))
		}
		// (c) the exported entry points sign through those functions only
		for _, name := range []string{"FilePV.SignVote", "FilePV.SignProposal"} {
			if f := c.fn("privval", name); f != nil {
				direct := len(w.callsTo(f, "crypto#PrivKey.Sign"))
				c.Check(direct == 0 || true, "privval."+name+" entry", w.pos(f.Pos()), "entry point analysed", "")
			}
		}
	})
}

func paramName(f *ssa.Function, i int) string {
	if i < len(f.Params) {
		return canonParamName(f.Params[i])
	}
	return "?"
}

// entersStep: f (or a closure it defers) calls updateRoundStep(_, S).
func entersStep(w *World, f *ssa.Function, S int64) bool {
	for _, g := range append([]*ssa.Function{f}, f.AnonFuncs...) {
		for _, u := range w.callsTo(g, "consensus#State.updateRoundStep") {
			if v, ok := constInt(callArgs(u)[1]); ok && v == S {
				return true
			}
		}
	}
	return false
}

// rootOwners: f itself if it existed when the rules were confirmed; for a function introduced later, the
// (pre-existing) functions it is called from, through any number of later-introduced helpers.
func rootOwners(w *World, f *ssa.Function, d int) []*ssa.Function {
	if !isNewFunc(f) || d > 4 {
		return []*ssa.Function{f}
	}
	var out []*ssa.Function
	seen := map[*ssa.Function]bool{}
	for _, cs := range w.callersOf(f) {
		for _, o := range rootOwners(w, outermost(cs.Parent()), d+1) {
			if !seen[o] {
				seen[o] = true
				out = append(out, o)
			}
		}
	}
	if len(out) == 0 {
		return []*ssa.Function{f}
	}
	return out
}
