package main

import (
	"fmt"
	"go/token"
	"go/types"
	"regexp"
	"sort"
	"strings"

	"golang.org/x/tools/go/ssa"
)

// C17 — multiplexed connection and reactors. Decided here: the structural necessary conditions of
// "bad peer input only drops the peer / never buffers more than capacity / messages are cut and
// reassembled consistently". Not decided: exactly-once in-order delivery under every interleaving.

// admission describes how one reactor admits a decoded message.
type admission struct {
	pkg, typ string
	inner    []string // regexps: success is nil(<inner>)
	names    []string
	stop     string // regexp over call strings: what the failure edge must call
	why      string
}

func init() {
	// ------------------------------------------------------------------ C17.R1
	register("C17", "R1", "K1", "receive buffer: bytes are appended to a channel's reassembly buffer only behind the capacity check, whatever the EOF flag says", 3, func(c *Ctx) {
		w := c.W
		f := c.fn("p2p/conn", "Channel.recvPacketMsg")
		if f == nil {
			return
		}
		fk := funcKey(f)
		n := 0
		for _, fs := range w.fieldStoresIn(f, "p2p/conn", "Channel", "recving") {
			v := w.expr(fs.Store.Val)
			if !strings.HasPrefix(v, "append(") {
				continue
			}
			n++
			c.Check(v == "append(ch.recving, packet.Data)", fk+" :: buffer grows by exactly the packet's data", w.ipos(fs.Store), v, "recving = "+v)
			c.guards(f, fs.Store, fk+" :: append to recving", 0,
				guardCmp("capacity covers what is buffered plus this packet", `ch\.desc\.RecvMessageCapacity`, ">=", `\(len\(ch\.recving\) \+ len\(packet\.Data\)\)`))
		}
		c.Check(n == 1, fk+" :: one growth site", w.pos(f.Pos()), "one append", fmt.Sprintf("%d appends to recving", n))
		// nobody else grows the buffer
		for _, fs := range w.fieldStores("p2p/conn", "Channel", "recving") {
			if fs.Fn != f && strings.HasPrefix(w.expr(fs.Store.Val), "append(") {
				c.Fail(funcKey(fs.Fn)+" :: recving grown outside recvPacketMsg", w.ipos(fs.Store), "append to the reassembly buffer outside the capacity-checked function")
			}
		}
	})

	// ------------------------------------------------------------------ C17.R2
	register("C17", "R2", "K5", "packetisation: the sender marks EOF exactly when the packet carries the rest of the message, and only starts the next message when the current one is fully cut", 8, func(c *Ctx) {
		w := c.W
		f := c.fn("p2p/conn", "Channel.nextPacketMsg")
		if f == nil {
			return
		}
		fk := funcKey(f)
		rest := guardCmp("the remaining bytes fit in this packet", `len\(ch\.sending\)`, "<=", `ch\.maxPacketMsgPayloadSize`)
		more := guardCmp("bytes remain after this packet", `len\(ch\.sending\)`, ">", `ch\.maxPacketMsgPayloadSize`)
		nT, nF, nNil, nAdv, nData := 0, 0, 0, 0, 0
		for _, b := range f.Blocks {
			for _, in := range b.Instrs {
				st, ok := in.(*ssa.Store)
				if !ok {
					continue
				}
				addr, val := w.expr(st.Addr), w.expr(st.Val)
				switch {
				case addr == "&packet.EOF" && val == "true":
					nT++
					c.guards(f, st, fk+" :: EOF=true", 0, rest)
				case addr == "&packet.EOF" && val == "false":
					nF++
					c.guards(f, st, fk+" :: EOF=false", 0, more)
				case addr == "&packet.EOF":
					// EOF := (len(sending) <= max) computed once: the flag *is* the comparison
					if rest.Match(w, f, normCond(st.Val, true)) {
						nT++
						c.OK(fk+" :: EOF is the comparison 'the remaining bytes fit in this packet'", w.ipos(st), val)
					} else {
						c.Fail(fk+" :: EOF assigned a computed value", w.ipos(st), "EOF = "+val)
					}
				case addr == "&packet.Data":
					nData++
					c.Check(val == "ch.sending[:libs/math.MinInt(ch.maxPacketMsgPayloadSize, len(ch.sending))]", fk+" :: packet carries the first min(max, remaining) bytes", w.ipos(st), val, "Data = "+val)
				case addr == "ch.sending" && val == "nil":
					nNil++
					c.guards(f, st, fk+" :: message finished", 0, rest)
				case addr == "ch.sending":
					nAdv++
					c.Check(val == "ch.sending[libs/math.MinInt(ch.maxPacketMsgPayloadSize, len(ch.sending)):]", fk+" :: remaining bytes advance by exactly what was sent", w.ipos(st), val, "sending = "+val)
					c.guards(f, st, fk+" :: message continues", 0, more)
				}
			}
		}
		c.Check(nT == 1 && nF <= 1 && nNil == 1 && nAdv == 1 && nData == 1, fk+" :: shape", w.pos(f.Pos()), "one EOF=true, one finish, one advance, one data slice", fmt.Sprintf("EOF=true %d, EOF=false %d, sending=nil %d, advance %d, data %d", nT, nF, nNil, nAdv, nData))
		// the next queued message is only taken when nothing of the current one remains
		for _, fs := range w.fieldStores("p2p/conn", "Channel", "sending") {
			if !strings.HasPrefix(w.expr(fs.Store.Val), "<-ch.sendQueue") {
				if fs.Fn != f {
					c.Fail(funcKey(fs.Fn)+" :: sending written outside nextPacketMsg/isSendPending", w.ipos(fs.Store), "sending = "+w.expr(fs.Store.Val))
				}
				continue
			}
			c.guards(fs.Fn, fs.Store, funcKey(fs.Fn)+" :: take next message from the queue", 0, guardCmp("nothing of the current message remains", `len\(ch\.sending\)`, "==", "0"))
		}
		// receiver side: a message is handed up only on EOF, and the buffer restarts
		if g := c.fn("p2p/conn", "Channel.recvPacketMsg"); g != nil {
			gk := funcKey(g)
			for _, b := range g.Blocks {
				ret, ok := b.Instrs[len(b.Instrs)-1].(*ssa.Return)
				if !ok || isNilConst(ret.Results[0]) {
					continue
				}
				c.guards(g, ret, gk+" :: deliver assembled message", 0, guardRe("the packet is the message's last", `^true\(packet\.EOF\)$`))
				ok2, _ := mustPrecede(g, ret, func(in ssa.Instruction) bool {
					st, ok := in.(*ssa.Store)
					return ok && w.expr(st.Addr) == "ch.recving" && w.expr(st.Val) == "ch.recving[:0]"
				})
				c.Check(ok2, gk+" :: buffer restarts after a delivered message", w.ipos(ret), "recving reset", "a delivered message is not cleared from the reassembly buffer: the next message would be appended to it")
			}
		}
	})

	// ------------------------------------------------------------------ C17.R3
	register("C17", "R3", "K2+K3", "panic containment: the connection's goroutines are exactly sendRoutine/recvRoutine, each defers the recovering function first; the recovering function turns a panic into a peer error; reactors are only entered from recvRoutine", 9, func(c *Ctx) {
		w := c.W
		start := c.fn("p2p/conn", "MConnection.OnStart")
		rec := c.fn("p2p/conn", "MConnection._recover")
		if start == nil || rec == nil {
			return
		}
		var routines []*ssa.Function
		for _, b := range start.Blocks {
			for _, in := range b.Instrs {
				if g, ok := in.(*ssa.Go); ok {
					callee := staticCallee(g)
					if callee == nil {
						c.Fail(funcKey(start)+" :: goroutine with unresolved body", w.ipos(in), "go statement whose callee is not static")
						continue
					}
					routines = append(routines, callee)
				}
			}
		}
		c.Check(len(routines) == 2, funcKey(start)+" starts the send and receive routines", w.pos(start.Pos()), "2 goroutines", fmt.Sprintf("%d goroutines", len(routines)))
		for _, r := range routines {
			rk := funcKey(r)
			// first effectful instruction of the entry block is the defer of _recover
			var first ssa.Instruction
			for _, in := range r.Blocks[0].Instrs {
				switch in.(type) {
				case *ssa.Defer, *ssa.Call, *ssa.Go, *ssa.Send:
					first = in
				}
				if first != nil {
					break
				}
			}
			d, ok := first.(*ssa.Defer)
			c.Check(ok && staticCallee(d) == rec, rk+" :: defers the recovering function before anything else", w.pos(r.Pos()), "defer c._recover() first", "the routine can panic before (or without) the recover being armed: a panic on peer input kills the process")
			// and it is a method on the same connection
			if ok {
				c.Check(w.expr(callRecv(d)) == "c", rk+" :: recovers for its own connection", w.ipos(d), "c._recover()", w.callStr(d))
			}
		}
		// _recover: recover() != nil ⇒ stopForError
		rk := funcKey(rec)
		rcalls := w.callsTo(rec, "builtin#recover")
		c.Check(len(rcalls) == 1, rk+" calls recover()", w.pos(rec.Pos()), "recover()", fmt.Sprintf("%d recover calls", len(rcalls)))
		for _, e := range condEdges(rec) {
			if w.atomStr(e.A) == "nonnil(recover())" {
				blk := e.E.From.Succs[e.E.Succ]
				ok, _, _ := mustFollow(blk.Instrs[0], w.callPred("p2p/conn#MConnection.stopForError"), nil)
				if len(blk.Instrs) > 0 && w.callPred("p2p/conn#MConnection.stopForError")(blk.Instrs[0]) {
					ok = true
				}
				c.Check(ok, rk+" :: a recovered panic stops the connection with an error", w.ipos(blk.Instrs[0]), "stopForError on every path", "a recovered panic can be swallowed without reporting the peer")
			}
		}
		// stopForError reports through onError
		if sf := c.fn("p2p/conn", "MConnection.stopForError"); sf != nil {
			c.Check(len(w.callsMatching(sf, `^dyn:c\.onError\(r\)$`)) == 1, funcKey(sf)+" reports the error to the owner of the connection", w.pos(sf.Pos()), "c.onError(r)", "stopForError no longer calls onError")
		}
		// onReceive is only invoked from recvRoutine
		n := 0
		for _, f := range w.FuncsInPkg("p2p/conn") {
			for _, call := range rawCallInstrs(f) {
				if !regexp.MustCompile(`^dyn:c\.onReceive\(`).MatchString(w.callStr(call)) {
					continue
				}
				n++
				isRecv := false
				root := transparentRoot(f)
				for _, r := range routines {
					if r == root && strings.HasSuffix(funcKey(root), "recvRoutine") {
						isRecv = true
					}
				}
				c.Check(isRecv, funcKey(f)+" :: onReceive call site", w.ipos(call), "inside the recovering receive routine", "reactor code is entered from a goroutine that does not recover")
			}
		}
		c.Check(n == 1, "p2p/conn :: onReceive has one call site", "-", "1", fmt.Sprintf("%d call sites", n))
	})

	// ------------------------------------------------------------------ C17.R4
	register("C17", "R4", "K1+K2", "receive routine: packets are read through a reader bounded by the maximum packet size; a packet for an unknown channel or a failed reassembly stops the connection; only a complete message is handed to the reactor", 12, func(c *Ctx) {
		w := c.W
		f := c.fn("p2p/conn", "MConnection.recvRoutine")
		if f == nil {
			return
		}
		fk := funcKey(f)
		rd := w.callsTo(f, "libs/protoio#NewDelimitedReader")
		c.Check(len(rd) == 1 && w.callStr(rd[0]) == "libs/protoio.NewDelimitedReader(c.bufConnReader, c._maxPacketMsgSize)", fk+" :: reader bounded by _maxPacketMsgSize", w.pos(f.Pos()), "NewDelimitedReader(conn, _maxPacketMsgSize)", "packet reader is not bounded by the connection's maximum packet size")
		// every read goes through that reader
		for _, call := range callInstrs(f) {
			if !strings.HasSuffix(calleeName(call), ".ReadMsg") {
				continue
			}
			c.Check(strings.HasPrefix(w.callStr(call), "libs/protoio.NewDelimitedReader(c.bufConnReader, c._maxPacketMsgSize).ReadMsg("), fk+" :: read through the bounded reader", w.ipos(call), "bounded", w.callStr(call))
		}
		// the bound is the size of a maximal PacketMsg computed from the configured payload size
		for _, fs := range w.fieldStores("p2p/conn", "MConnection", "_maxPacketMsgSize") {
			c.Check(strings.HasSuffix(w.expr(fs.Store.Val), ".maxPacketMsgSize()"), funcKey(fs.Fn)+" :: _maxPacketMsgSize derived from the configured payload size", w.ipos(fs.Store), "maxPacketMsgSize()", "_maxPacketMsgSize = "+w.expr(fs.Store.Val))
		}
		chq := `c\.channelsIdx\[.*PacketMsg\.ChannelID\]`
		// the channel value may come straight from the index or through a lookup helper
		chv := `(?:` + chq + `#0|c\.\w+\(.*PacketMsg\.ChannelID\)#0)`
		for _, call := range w.callsTo(f, "p2p/conn#Channel.recvPacketMsg") {
			c.guards(f, call, fk+" :: reassemble packet", 0,
				guardRe("read succeeded", `^nil\(.*\.ReadMsg\(&packet\)#1\)$`),
				guardRe("channel id is registered", `^true\(`+chq+`#1\)$`),
				guardRe("channel exists", `^nonnil\(`+chq+`#0\)$`),
				guardCmp("channel id not negative", `.*PacketMsg\.ChannelID`, ">=", "0"),
				guardCmp("channel id fits a byte", `.*PacketMsg\.ChannelID`, "<=", "255"))
			rv := w.resolveResult(callRecv(call))
			c.Check(strings.HasPrefix(rv, "c.channelsIdx[") && strings.HasSuffix(rv, "PacketMsg.ChannelID]#0"), fk+" :: packet goes to the channel it names", w.ipos(call), rv, "receiver "+rv)
		}
		for _, call := range w.callsMatching(f, `^dyn:c\.onReceive\(`) {
			c.guards(f, call, fk+" :: hand message to the reactor", 0,
				guardRe("reassembly reported no error", `^nil\(`+chv+`\.recvPacketMsg\(.*\)#1\)$`),
				guardRe("a complete message was assembled", `^nonnil\(`+chv+`\.recvPacketMsg\(.*\)#0\)$`))
			args := callArgs(call)
			if len(args) == 2 {
				c.Check(strings.HasSuffix(w.expr(args[0]), "PacketMsg.ChannelID") && regexp.MustCompile(`\.recvPacketMsg\(.*\)#0$`).MatchString(w.expr(args[1])), fk+" :: delivers the assembled bytes under the packet's channel id", w.ipos(call), "onReceive(chID, msgBytes)", w.callStr(call))
			}
		}
		// failure edges leave the loop having stopped the connection (while it is running)
		stop := w.callPred("p2p/conn#MConnection.stopForError")
		loopHdr := map[*ssa.BasicBlock]bool{}
		for _, b := range f.Blocks {
			for _, p := range b.Preds {
				if b.Dominates(p) {
					loopHdr[b] = true
				}
			}
		}
		for _, e := range condEdges(f) {
			a := w.atomStr(e.A)
			var what string
			switch {
			case regexp.MustCompile(`^false\(` + chq + `#1\)$`).MatchString(a), regexp.MustCompile(`^nil\(` + chq + `#0\)$`).MatchString(a),
				regexp.MustCompile(`^false\(c\.\w+\(.*PacketMsg\.ChannelID\)#1\)$`).MatchString(a):
				what = "unknown channel"
			case regexp.MustCompile(`^nonnil\(` + chv + `\.recvPacketMsg\(.*\)#1\)$`).MatchString(a):
				what = "reassembly error (capacity exceeded)"
			case regexp.MustCompile(`^false\(&packet\.Sum\.\(\*proto/tendermint/p2p\.Packet_PacketMsg\)#1\)$`).MatchString(a):
				what = "unknown packet type"
			default:
				continue
			}
			blk := e.E.From.Succs[e.E.Succ]
			// from the failure edge the loop header must not be reachable again, and (unless the
			// connection is already stopped) stopForError is called
			var hdr *ssa.BasicBlock
			for d := e.E.From; d != nil; d = d.Idom() {
				if loopHdr[d] && loopBlocks(d)[e.E.From] {
					hdr = d
					break
				}
			}
			if hdr == nil {
				c.Undecided(fk+" :: "+what+" leaves the receive loop", w.ipos(blk.Instrs[0]), "the check is not inside the receive loop")
				continue
			}
			q := &pathQ{target: func(in ssa.Instruction) bool { return in.Block() == hdr && in == hdr.Instrs[0] }}
			in, _ := q.reach(blk, 0)
			c.Check(in == nil, fk+" :: "+what+" leaves the receive loop", w.ipos(blk.Instrs[0]), "loop not re-entered", "after "+what+" the routine keeps reading from the peer")
			q2 := &pathQ{
				kill:    stop,
				blocked: func(ed Edge) bool { return w.atomStr(edgeAtom(ed)) == "false(c.BaseService.IsRunning())" },
				target:  isReturn,
			}
			in2, path := q2.reach(blk, 0)
			c.Check(in2 == nil, fk+" :: "+what+" stops the connection", w.ipos(blk.Instrs[0]), "stopForError before leaving (unless already stopped)", "after "+what+" the routine ends without reporting the peer: "+pathStr(w, path))
		}
		// the peer's onReceive closure: unknown reactor / undecodable bytes panic (recovered by the routine)
		if mk := c.fn("p2p", "createMConnection"); mk != nil && len(mk.AnonFuncs) >= 1 {
			on := mk.AnonFuncs[0]
			ok := funcKey(on)
			for _, call := range w.callsMatching(on, `\.ReceiveEnvelope\(|\.Receive\(chID, p, msgBytes\)$`) {
				c.guards(on, call, ok+" :: enter reactor", 0,
					guardRe("a reactor is registered for the channel", `^nonnil\(reactorsByCh\[chID\]\)$`),
					guardRe("the bytes decoded into the channel's message type", `^nil\(github\.com/gogo/protobuf/proto\.Unmarshal\(msgBytes, .*\)\)$`))
			}
		} else if mk != nil {
			c.Undecided(funcKey(mk)+" :: onReceive closure", w.pos(mk.Pos()), "closure not found")
		}
	})

	// ------------------------------------------------------------------ C17.R5
	register("C17", "R5", "K5+K1", "reactor admission (sibling table): every reactor validates a decoded message before acting on it, and the failing edge reports the peer", 40, func(c *Ctx) {
		w := c.W
		table := []admission{
			{"consensus", "Reactor", []string{`consensus\.MsgFromProto\(.*\)#1`, `consensus\.MsgFromProto\(.*\)#0\.ValidateBasic\(\)`}, []string{"message converted from wire form", "message passed ValidateBasic"}, `StopPeerForError\(e\.Src, `, ""},
			{"blockchain/v0", "BlockchainReactor", []string{`blockchain\.ValidateMsg\(e\.Message\)`}, []string{"message passed ValidateMsg"}, `StopPeerForError\(e\.Src, `, ""},
			{"blockchain/v1", "BlockchainReactor", []string{`blockchain\.ValidateMsg\(e\.Message\)`}, []string{"message passed ValidateMsg"}, `^bcR\.swReporter\.Report\(behaviour\.BadMessage\(`, ""},
			{"blockchain/v2", "BlockchainReactor", []string{`blockchain\.ValidateMsg\(e\.Message\)`}, []string{"message passed ValidateMsg"}, `^r\.reporter\.Report\(behaviour\.BadMessage\(`, ""},
			{"statesync", "Reactor", []string{`statesync\.validateMsg\(e\.Message\)`}, []string{"message passed validateMsg"}, `StopPeerForError\(e\.Src, `, ""},
			{"evidence", "Reactor", []string{`evidence\.evidenceListFromProto\(e\.Message\)#1`}, []string{"every evidence item decoded and passed ValidateBasic"}, `StopPeerForError\(e\.Src, `, ""},
		}
		special := map[string]string{
			"mempool/v0.Reactor": "payload is opaque tx bytes whose size CheckTx limits; rule: an unknown message type stops the peer",
			"mempool/v1.Reactor": "payload is opaque tx bytes whose size CheckTx limits; rule: an unknown message type stops the peer",
			"p2p/pex.Reactor":    "requests are rate limited, address lists must decode and be solicited",
			"p2p.BaseReactor":    "empty default implementation",
		}
		allowed := regexp.MustCompile(`\.Logger\.(Debug|Info|Error)\(|\.logger\.(Debug|Info|Error)\(|\.IsRunning\(\)$|\.Wrap\(\)$|StopPeerForError\(|\.Report\(|behaviour\.BadMessage\(|^fmt\.|\.ID\(\)$|\.Error\(\)$|^len\(`)
		seen := map[string]bool{}
		for _, a := range table {
			key := a.pkg + "." + a.typ
			seen[key] = true
			f := c.fn(a.pkg, a.typ+".ReceiveEnvelope")
			if f == nil {
				continue
			}
			fk := funcKey(f)
			var gs []Guard
			for i, in := range a.inner {
				gs = append(gs, guardRe(a.names[i], `^nil\(`+in+`\)$`))
			}
			innerRe := regexp.MustCompile(`^(` + strings.Join(a.inner, "|") + `)$`)
			nUse := 0
			for _, call := range callInstrs(f) {
				s := w.callStr(call)
				base := strings.TrimPrefix(s, "dyn:")
				if allowed.MatchString(base) || innerRe.MatchString(base) || innerRe.MatchString(base+"#1") {
					continue
				}
				if _, isDefer := call.(*ssa.Defer); isDefer {
					continue
				}
				nUse++
				for _, g := range gs {
					if ok, path := c.ge().guardedLocal(f, call, g, 2); !ok {
						c.Fail(fk+" :: acts on the message <= "+g.Name, w.ipos(call), "call "+s+" is reachable without: "+g.Name+" via "+pathStr(w, path))
					}
				}
			}
			c.Check(nUse > 0, fk+" :: message handling found behind admission", w.pos(f.Pos()), fmt.Sprintf("%d calls behind the admission check", nUse), "no handling code found")
			// failing edges report the peer and return
			stopRe := regexp.MustCompile(a.stop)
			stop := func(in ssa.Instruction) bool {
				call, ok := in.(ssa.CallInstruction)
				return ok && stopRe.MatchString(strings.TrimPrefix(w.callStr(call), "dyn:"))
			}
			nFail := 0
			for _, e := range condEdges(f) {
				as := w.atomStr(e.A)
				if !strings.HasPrefix(as, "nonnil(") || !innerRe.MatchString(strings.TrimSuffix(strings.TrimPrefix(as, "nonnil("), ")")) {
					continue
				}
				nFail++
				blk := e.E.From.Succs[e.E.Succ]
				q := &pathQ{kill: stop, target: isReturn}
				in, path := q.reach(blk, 0)
				c.Check(in == nil, fk+" :: rejected message reports the peer", w.ipos(blk.Instrs[0]), "peer reported on every path", "a message failing admission is dropped without reporting the peer: "+pathStr(w, path))
				// and nothing else happens on that edge
				for _, b2 := range reachableBlocks(blk) {
					for _, in := range b2.Instrs {
						if call, ok := in.(ssa.CallInstruction); ok {
							s := strings.TrimPrefix(w.callStr(call), "dyn:")
							c.Check(allowed.MatchString(s), fk+" :: rejected message is not processed", w.ipos(in), "only logging/reporting", "after failing admission the reactor still calls "+s)
						}
					}
				}
			}
			c.Check(nFail == len(a.inner), fk+" :: every admission check has a failing edge", w.pos(f.Pos()), fmt.Sprintf("%d", nFail), fmt.Sprintf("%d failing edges for %d checks", nFail, len(a.inner)))
		}
		// mempool reactors: unknown message type stops the peer
		for _, pkg := range []string{"mempool/v0", "mempool/v1"} {
			seen[pkg+".Reactor"] = true
			f := c.fn(pkg, "Reactor.ReceiveEnvelope")
			if f == nil {
				continue
			}
			fk := funcKey(f)
			known := guardRe("known type", `^true\(e\.Message\.\(\*proto/tendermint/mempool\.Txs\)#1\)$`)
			blocked := c.ge().passEdges(f, known, 0)
			c.Check(len(blocked) == 1, fk+" :: handles Txs", w.pos(f.Pos()), "type switch on Txs", fmt.Sprintf("%d Txs cases", len(blocked)))
			stop := func(in ssa.Instruction) bool {
				call, ok := in.(ssa.CallInstruction)
				return ok && strings.Contains(w.callStr(call), "StopPeerForError(e.Src, ")
			}
			for _, b := range f.Blocks {
				if ret, ok := b.Instrs[len(b.Instrs)-1].(*ssa.Return); ok {
					r, path := reachFromEntry(f, blocked, stop, ret)
					c.Check(!r, fk+" :: a message of unknown type stops the peer", w.ipos(ret), "StopPeerForError on the default path", "unknown message type is ignored: "+pathStr(w, path))
				}
			}
			// each tx goes through CheckTx (which enforces size/capacity: C12)
			c.Check(len(w.callsTo(f, "mempool/v0#CListMempool.CheckTx", "mempool/v1#TxMempool.CheckTx")) == 1, fk+" :: txs enter through CheckTx", w.pos(f.Pos()), "CheckTx", "txs no longer enter through CheckTx")
		}
		// pex
		seen["p2p/pex.Reactor"] = true
		if f := c.fn("p2p/pex", "Reactor.ReceiveEnvelope"); f != nil {
			fk := funcKey(f)
			for _, call := range w.callsTo(f, "p2p/pex#Reactor.ReceiveAddrs") {
				c.guards(f, call, fk+" :: accept address list", 0, guardRe("addresses decoded and validated", `^nil\(p2p\.NetAddressesFromProto\(.*\.Addrs\)#1\)$`))
			}
			for _, call := range w.callsTo(f, "p2p/pex#Reactor.SendAddrs") {
				c.guards(f, call, fk+" :: answer address request", 0, guardAny("request frequency checked",
					guardRe("r", `^nil\(r\.receiveRequest\(e\.Src\)\)$`),
					guardRe("s", `^nil\(r\.lastReceivedRequests\.Get\(.*\)\)$`)))
			}
			stop := w.callPred("p2p#Switch.StopPeerForError")
			n := 0
			for _, e := range condEdges(f) {
				as := w.atomStr(e.A)
				if !regexp.MustCompile(`^nonnil\((p2p\.NetAddressesFromProto\(.*\)#1|r\.receiveRequest\(e\.Src\)|r\.ReceiveAddrs\(.*\))\)$`).MatchString(as) {
					continue
				}
				n++
				blk := e.E.From.Succs[e.E.Succ]
				q := &pathQ{kill: stop, target: isReturn}
				in, path := q.reach(blk, 0)
				c.Check(in == nil, fk+" :: rejected pex message stops the peer", w.ipos(blk.Instrs[0]), "StopPeerForError", "pex failure edge does not stop the peer: "+pathStr(w, path))
			}
			c.Check(n == 3, fk+" :: three failure edges", w.pos(f.Pos()), "3", fmt.Sprintf("%d", n))
		}
		if g := c.fn("p2p/pex", "Reactor.ReceiveAddrs"); g != nil {
			for _, call := range w.callsTo(g, "p2p/pex#AddrBook.AddAddress") {
				c.guards(g, call, funcKey(g)+" :: add address to the book", 0, guardRe("the list was solicited", `^true\(r\.requestsSent\.Has\(src\.ID\(\)\)\)$`))
			}
		}
		// inventory: every reactor in scope is in the table
		var iface *types.Interface
		if t := w.lookupType("p2p", "EnvelopeReceiver"); t != nil {
			iface, _ = t.Underlying().(*types.Interface)
		}
		if iface == nil {
			c.Undecided("p2p.EnvelopeReceiver", "-", "interface not found")
			return
		}
		for _, impl := range w.implementers(iface) {
			key := impl.pkg + "." + impl.name
			if seen[key] {
				c.OK("reactor "+key+" is in the admission table", "-", "in table")
				continue
			}
			if why, ok := special[key]; ok {
				c.OK("reactor "+key+" is in the admission table", "-", why)
				continue
			}
			// types that only embed another reactor inherit its method
			if f := c.W.Fn(impl.pkg, impl.name+".ReceiveEnvelope"); f != nil && relPkg(f)+"."+recvTypeName(f) != key {
				c.OK("reactor "+key+" is in the admission table", "-", "inherits "+funcKey(f))
				continue
			}
			c.Undecided("reactor "+key+" is in the admission table", "-", "new input surface: a type receiving peer messages whose admission check has not been reviewed")
		}
	})

	// ------------------------------------------------------------------ C17.R6
	register("C17", "R6", "K5+K1", "consensus messages: ValidateBasic of every message type bounds each height/round/index from below and validates every nested field that has its own ValidateBasic (vote, proposal, part, block id, part-set header, bit array)", 25, func(c *Ctx) {
		w := c.W
		var iface *types.Interface
		if t := w.lookupType("consensus", "Message"); t != nil {
			iface, _ = t.Underlying().(*types.Interface)
		}
		if iface == nil {
			c.Undecided("consensus.Message", "-", "interface not found")
			return
		}
		nonNeg := map[string]bool{"Height": true, "Round": true, "Index": true, "ProposalPOLRound": true}
		// confirmed by reading, one line of reason each
		exempt := map[string]string{
			"VoteSetBitsMessage.Round": "not checked upstream either; the round is only used as a map key / equality operand (HeightVoteSet.Prevotes/Precommits, PeerState.getVoteBitArray), a negative value selects nothing",
		}
		nTypes := 0
		for _, impl := range w.implementers(iface) {
			if impl.pkg != "consensus" {
				continue
			}
			f := c.fn("consensus", impl.name+".ValidateBasic")
			if f == nil {
				continue
			}
			nTypes++
			fk := funcKey(f)
			named := w.NamedType("consensus", impl.name)
			st, ok := named.Underlying().(*types.Struct)
			if !ok {
				c.Undecided(fk+" :: message is a struct", w.pos(f.Pos()), "not a struct")
				continue
			}
			for i := 0; i < st.NumFields(); i++ {
				fld := st.Field(i)
				ft := fld.Type()
				if b, ok := ft.Underlying().(*types.Basic); ok && b.Info()&types.IsInteger != 0 && b.Info()&types.IsUnsigned == 0 && nonNeg[fld.Name()] {
					if why, ok := exempt[impl.name+"."+fld.Name()]; ok {
						c.OK(fk+" ensures "+fld.Name()+" not negative", w.pos(f.Pos()), "exempt: "+why)
						continue
					}
					g := guardCmp(fld.Name()+" not negative", `m\.`+fld.Name(), ">=", "0")
					c.Check(c.ge().ensures(f, g, 2), fk+" ensures "+g.Name, w.pos(f.Pos()), "checked", impl.name+" is accepted with a negative "+fld.Name())
					continue
				}
				if n := derefNamed(ft); n != nil && n.Obj().Name() == "BitArray" && !hasValidateBasic(ft) {
					c.Fail(fk+" ensures "+fld.Name()+" valid", w.pos(f.Pos()), impl.name+"."+fld.Name()+" is a bit array decoded from the wire (Bits and Elems are independent fields there) and nothing checks that they agree: methods index Elems by Bits")
					continue
				}
				if hasValidateBasic(ft) {
					g := guardRe(fld.Name()+" valid", `^nil\(m\.`+fld.Name()+`\.ValidateBasic\(\)\)$`)
					c.Check(c.ge().ensures(f, g, 2), fk+" ensures "+g.Name, w.pos(f.Pos()), "nested ValidateBasic called and its error propagated", impl.name+" is accepted without validating its "+fld.Name()+" ("+typeStr(ft)+")")
				}
			}
		}
		// sizes a message claims and the node allocates from before anything is authenticated are bounded above
		maxParts := c.mustConst("types", "MaxBlockPartsCount")
		maxVotes := c.mustConst("types", "MaxVotesCount")
		for _, ub := range []struct {
			typ, what, x string
			max          int64
		}{
			{"ProposalMessage", "the part count the proposal claims", `m\.Proposal\.BlockID\.PartSetHeader\.Total`, maxParts},
			{"NewValidBlockMessage", "the size of the part bit array", `m\.BlockParts\.Size\(\)`, maxParts},
			{"ProposalPOLMessage", "the size of the POL bit array", `m\.ProposalPOL\.Size\(\)`, maxVotes},
			{"VoteSetBitsMessage", "the size of the votes bit array", `m\.Votes\.Size\(\)`, maxVotes},
		} {
			if f := c.fn("consensus", ub.typ+".ValidateBasic"); f != nil {
				g := guardCmp(ub.what+" is bounded", ub.x, "<=", fmt.Sprint(ub.max))
				c.Check(c.ge().ensures(f, g, 2), funcKey(f)+" ensures "+g.Name, w.pos(f.Pos()), fmt.Sprintf("<= %d", ub.max), ub.typ+" is accepted whatever "+ub.what+" is: the node sizes allocations from it")
			}
		}
		c.Check(nTypes >= 9, "consensus message types checked", "-", fmt.Sprintf("%d", nTypes), fmt.Sprintf("only %d message types found", nTypes))
		// MsgFromProto hands out only validated messages? No: validation is the reactor's job (R5); but the
		// WAL and the reactor must agree on the decoder: one decoder
		// BitArray.ValidateBasic really relates Bits and Elems
		if f := c.fn("libs/bits", "BitArray.ValidateBasic"); f != nil {
			fk := funcKey(f)
			isNil := guardRe("nil", `^nil\(bA\)$`)
			c.Check(c.ge().ensures(f, guardAny("element count equals what the bit count needs (or the array is nil)", guardCmp("eq", `len\(bA\.Elems\)`, "==", `\(\(bA\.Bits \+ 63\) / 64\)`), isNil), 2), fk+" ensures len(Elems) == (Bits+63)/64", w.pos(f.Pos()), "checked", "a bit array with fewer words than its bit count is accepted")
			c.Check(c.ge().ensures(f, guardAny("bit count not negative (or the array is nil)", guardCmp("nn", `bA\.Bits`, ">=", "0"), isNil), 2), fk+" ensures Bits >= 0", w.pos(f.Pos()), "checked", "a negative bit count is accepted")
		}
	})

	// ------------------------------------------------------------------ C17.R7
	register("C17", "R7", "K10", "bit arrays of different sizes: every element access in the binary operations is bounded by the length of the slice it indexes (symbolic length classes under len(Elems)=words(Bits))", 7, func(c *Ctx) {
		w := c.W
		n := 0
		for _, f := range w.methodsOf("libs/bits", "BitArray") {
			if f.Signature.Params().Len() == 0 {
				continue
			}
			hasOther := false
			for i := 0; i < f.Signature.Params().Len(); i++ {
				if n := derefNamed(f.Signature.Params().At(i).Type()); n != nil && n.Obj().Name() == "BitArray" {
					hasOther = true
				}
			}
			if !hasOther {
				continue
			}
			fk := funcKey(f)
			for _, b := range f.Blocks {
				for _, in := range b.Instrs {
					ia, ok := in.(*ssa.IndexAddr)
					if !ok {
						continue
					}
					sl := w.expr(ia.X)
					if !strings.HasSuffix(sl, ".Elems") {
						continue
					}
					n++
					lb, okS := elemsLower(sl)
					if !okS {
						c.Undecided(fk+" :: index into "+sl, w.ipos(in), "length class of the slice is unknown")
						continue
					}
					idx := w.expr(ia.Index)
					var bounds []string
					for _, a := range w.atomsAt(in) {
						if strings.HasPrefix(a, idx+" < ") {
							bounds = append(bounds, strings.TrimPrefix(a, idx+" < "))
						}
					}
					good := false
					for _, bd := range bounds {
						for _, u := range boundUpper(bd) {
							if lb[u] {
								good = true
							}
						}
					}
					c.Check(good, fk+" :: "+sl+"[i] within bounds", w.ipos(in), "index < "+strings.Join(bounds, ", "), fmt.Sprintf("index %s into %s is bounded by [%s], which can exceed the slice when the two arrays differ in size", idx, sl, strings.Join(bounds, ", ")))
				}
			}
		}
		c.Check(n >= 7, "libs/bits binary operations :: element accesses found", "-", fmt.Sprintf("%d", n), fmt.Sprintf("only %d accesses", n))
		// single-index accessors check the index against Bits
		for _, name := range []string{"BitArray.getIndex", "BitArray.setIndex"} {
			if f := c.fn("libs/bits", name); f != nil {
				for _, b := range f.Blocks {
					for _, in := range b.Instrs {
						if ia, ok := in.(*ssa.IndexAddr); ok && w.expr(ia.X) == "bA.Elems" {
							c.guards(f, in, funcKey(f)+" :: element access", 0, guardCmp("index below the bit count", "i", "<", `bA\.Bits`))
						}
					}
				}
			}
		}
	})
}

// elemsLower returns the set of symbolic lengths that the given Elems slice is at least as long as:
// A = words(bA.Bits), O = words(o.Bits), M = min(A,O).
func elemsLower(sl string) (map[string]bool, bool) {
	switch {
	case sl == "bA.Elems", sl == "bA.copyBits(bA.Bits).Elems", sl == "bA.copy().Elems":
		return map[string]bool{"A": true, "M": true}, true
	case sl == "o.Elems", sl == "o.copy().Elems":
		return map[string]bool{"O": true, "M": true}, true
	case sl == "bA.copyBits(libs/math.MaxInt(bA.Bits, o.Bits)).Elems", sl == "bA.copyBits(libs/math.MaxInt(o.Bits, bA.Bits)).Elems":
		return map[string]bool{"A": true, "O": true, "M": true}, true
	case sl == "bA.copyBits(libs/math.MinInt(bA.Bits, o.Bits)).Elems", sl == "bA.copyBits(libs/math.MinInt(o.Bits, bA.Bits)).Elems":
		return map[string]bool{"M": true}, true
	}
	return nil, false
}

// elemsUpper: the symbolic lengths that len(sl) does not exceed.
func elemsUpper(sl string) []string {
	lb, ok := elemsLower(sl)
	if !ok {
		return nil
	}
	switch {
	case lb["A"] && lb["O"]: // max
		return nil
	case lb["A"]:
		return []string{"A"}
	case lb["O"]:
		return []string{"O"}
	default: // min
		return []string{"M", "A", "O"}
	}
}

var reLen = regexp.MustCompile(`^len\((.*)\)$`)
var reMin = regexp.MustCompile(`^libs/math\.MinInt\(len\(([^()]*(?:\([^()]*\))*[^()]*)\), len\((.*)\)\)$`)

// boundUpper: symbolic lengths that the loop bound expression does not exceed.
func boundUpper(b string) []string {
	if m := reMin.FindStringSubmatch(b); m != nil {
		u1, u2 := elemsUpper(m[1]), elemsUpper(m[2])
		set := map[string]bool{}
		for _, u := range append(append([]string{}, u1...), u2...) {
			set[u] = true
		}
		if set["A"] && set["O"] {
			set["M"] = true
		}
		var out []string
		for k := range set {
			out = append(out, k)
		}
		sort.Strings(out)
		return out
	}
	if m := reLen.FindStringSubmatch(b); m != nil {
		return elemsUpper(m[1])
	}
	return nil
}

func hasValidateBasic(t types.Type) bool {
	for _, tt := range []types.Type{t, types.NewPointer(t)} {
		ms := types.NewMethodSet(tt)
		for i := 0; i < ms.Len(); i++ {
			if ms.At(i).Obj().Name() == "ValidateBasic" {
				return true
			}
		}
	}
	return false
}

func recvTypeName(f *ssa.Function) string {
	if f.Signature.Recv() == nil {
		return ""
	}
	if n := derefNamed(f.Signature.Recv().Type()); n != nil {
		return n.Obj().Name()
	}
	return ""
}

func reachableBlocks(from *ssa.BasicBlock) []*ssa.BasicBlock {
	seen := map[*ssa.BasicBlock]bool{from: true}
	out := []*ssa.BasicBlock{from}
	for i := 0; i < len(out); i++ {
		for _, s := range out[i].Succs {
			if !seen[s] {
				seen[s] = true
				out = append(out, s)
			}
		}
	}
	return out
}

// edgeAtom returns the atom of a conditional edge.
func edgeAtom(e Edge) Atom {
	if len(e.From.Instrs) == 0 {
		return Atom{}
	}
	if in, ok := e.From.Instrs[len(e.From.Instrs)-1].(*ssa.If); ok {
		return normCond(in.Cond, e.Succ == 0)
	}
	return Atom{}
}

// ------------------------------------------------------------------ C17.R9
// The capacity the receive path enforces (C17.R1) is the channel descriptor's. FillDefaults may replace
// a capacity only when it was left unset (zero): a configured bound that is silently replaced by the
// (much larger) default lets a peer make the node buffer more than the operator allowed.
func init() {
	register("C17", "R9", "K1", "channel descriptor defaults replace a capacity or priority only when it is unset (zero)", 3, func(c *Ctx) {
		w := c.W
		f := c.fn("p2p/conn", "ChannelDescriptor.FillDefaults")
		if f == nil {
			return
		}
		fk := funcKey(f)
		n := 0
		isFieldRead := func(v ssa.Value, fld string) bool { // chDesc.<fld> of some descriptor value
			switch x := stripConv(v).(type) {
			case *ssa.UnOp:
				if fa, ok := x.X.(*ssa.FieldAddr); ok && x.Op == token.MUL {
					return fieldName(fa.X.Type(), fa.Field) == fld
				}
			case *ssa.Field:
				return fieldName(x.X.Type(), x.Field) == fld
			}
			return false
		}
		zeroGuardOn := func(v ssa.Value) Guard {
			return Guard{Name: "the configured value is unset (zero)", Match: func(w *World, ff *ssa.Function, a Atom) bool {
				if a.Kind != "cmp" || a.Op != token.EQL {
					return false
				}
				kx, xc := constInt(a.X)
				ky, yc := constInt(a.Y)
				return (sameValue(a.X, v) && yc && ky == 0) || (sameValue(a.Y, v) && xc && kx == 0)
			}}
		}
		for _, di := range w.deepInstrs(f, 1) {
			st, ok := di.in.(*ssa.Store)
			if !ok {
				continue
			}
			fa, ok := st.Addr.(*ssa.FieldAddr)
			if !ok {
				continue
			}
			if nt := derefNamed(fa.X.Type()); nt == nil || nt.Obj().Name() != "ChannelDescriptor" {
				continue
			}
			fld := fieldName(fa.X.Type(), fa.Field)
			key := fk + " :: default for " + fld
			if _, isC := constInt(st.Val); isC {
				// if field == 0 { field = default }
				n++
				c.guards(st.Parent(), st, key, 0, guardCmp("the field is unset", `\w+\.`+fld, "==", "0"))
				continue
			}
			// field = pick(configured, default): the helper answers the default only for a zero configured value
			call := valueCall(st.Val)
			if call == nil {
				continue
			}
			h := staticCallee(call)
			args := call.Common().Args
			if h == nil || h.Blocks == nil || len(args) != 2 || len(h.Params) != 2 {
				continue
			}
			if _, defIsConst := constInt(args[1]); !defIsConst || !isFieldRead(args[0], fld) {
				c.Fail(key, w.ipos(st), fld+" = "+w.expr(st.Val)+": not the configured value of the same field with a constant default")
				continue
			}
			n++
			okAll := true
			for _, r := range returnsOf(h) {
				ret := r.(*ssa.Return)
				v := stripConv(ret.Results[0])
				switch {
				case v == ssa.Value(h.Params[0]):
				case v == ssa.Value(h.Params[1]):
					if okG, _ := c.ge().guardedLocal(h, ret, zeroGuardOn(h.Params[0]), 0); !okG {
						okAll = false
					}
				default:
					okAll = false
				}
			}
			c.Check(okAll, key, w.ipos(st), "configured value, or the default when it is zero", funcKey(h)+" can answer the default for a configured (non-zero) value, or something else")
		}
		c.Check(n >= 3, fk+" :: default substitutions found", w.pos(f.Pos()), ">= 3", fmt.Sprintf("%d", n))
	})
}

// ------------------------------------------------------------------ C17.R10
// F23: State.LastCommit is a nil vote set at the chain's initial height. Some VoteSet methods answer for a
// nil receiver (Size, HasTwoThirdsMajority, …: they start with `if voteSet == nil { return … }`), the others
// panic on it (explicitly, or by dereferencing). A call of one of the others on LastCommit is reachable from
// peer input (a precommit for the height before the initial one) unless it is behind a non-nil test; the
// panic unwinds the consensus routine, which is not in the connection's recover domain.
func init() {
	register("C17", "R10", "K1", "the last commit (nil at the initial height) is only used through nil-safe methods unless it was tested for nil", 3, func(c *Ctx) {
		w := c.W
		nilSafe := func(m *ssa.Function) bool {
			if m == nil || len(m.Blocks) == 0 || len(m.Params) == 0 {
				return false
			}
			b := m.Blocks[0]
			ifi, ok := b.Instrs[len(b.Instrs)-1].(*ssa.If)
			if !ok {
				return false
			}
			a := normCond(ifi.Cond, true)
			if !(a.Kind == "nil" || a.Kind == "nonnil") || stripConv(a.V) != ssa.Value(m.Params[0]) {
				return false
			}
			nilSucc := b.Succs[0]
			if a.Kind == "nonnil" {
				nilSucc = b.Succs[1]
			}
			// the nil branch returns (it neither panics nor touches the receiver)
			for _, in := range nilSucc.Instrs {
				if _, isPanic := in.(*ssa.Panic); isPanic {
					return false
				}
			}
			_, isRet := nilSucc.Instrs[len(nilSucc.Instrs)-1].(*ssa.Return)
			return isRet
		}
		k := newKeyer()
		n, nSafe := 0, 0
		for _, f := range w.Funcs {
			if !strings.HasPrefix(relPkg(f), "consensus") || strings.HasSuffix(w.Fset.Position(f.Pos()).Filename, "_test.go") {
				continue
			}
			for _, call := range rawCallsOf(f) {
				m := staticCallee(call)
				if m == nil || !isMethodOf(m, "types", "VoteSet") || call.Common().IsInvoke() || len(call.Common().Args) == 0 {
					continue
				}
				recv := w.expr(call.Common().Args[0])
				if !strings.HasSuffix(strings.ReplaceAll(recv, ".RoundState.", "."), ".LastCommit") {
					continue
				}
				if nilSafe(m) {
					nSafe++
					continue
				}
				n++
				c.guards(f, call, k.key(f, "use the last commit through "+m.Name()+" (not nil-safe)"), 1, guardRe("the last commit exists", `^nonnil\(`+q(recv)+`\)$`))
			}
		}
		c.Check(n >= 1 && nSafe >= 2, "consensus :: uses of State.LastCommit found", "-", "nil-safe and other uses", fmt.Sprintf("%d not nil-safe, %d nil-safe", n, nSafe))
	})
}

func rawCallsOf(f *ssa.Function) []ssa.CallInstruction {
	var out []ssa.CallInstruction
	for _, b := range f.Blocks {
		for _, in := range b.Instrs {
			if call, ok := in.(ssa.CallInstruction); ok {
				out = append(out, call)
			}
		}
	}
	return out
}

// ------------------------------------------------------------------ C17.R11
// Two cooperating sites: the switch's accept loop goes on after the error *types* it knows as "this inbound
// peer is refused" (ErrRejected, ErrFilterTimeout) and panics — by design, to be restarted — on anything
// else. The functions that handle an inbound peer's bytes before it becomes a peer (filterConn, upgrade:
// secret-connection handshake, node-info exchange and checks) must therefore report every failure as one of
// those types; a plain error there turns a hostile or merely broken inbound connection into a node crash.
func init() {
	register("C17", "R11", "K5", "inbound connection set-up reports every failure as an error type the accept loop survives", 8, func(c *Ctx) {
		w := c.W
		loop := c.fn("p2p", "Switch.acceptRoutine")
		if loop == nil {
			return
		}
		survives := map[string]bool{}
		asserted := assertedTypeNames(loop)
		for _, t := range []string{"ErrRejected", "ErrFilterTimeout"} {
			c.Check(asserted[t], funcKey(loop)+" :: goes on after "+t, w.pos(loop.Pos()), "case "+t, "the accept loop no longer has a case for "+t)
			if asserted[t] {
				survives[t] = true
			}
		}
		k := newKeyer()
		n := 0
		for _, name := range []string{"MultiplexTransport.upgrade", "MultiplexTransport.filterConn"} {
			f := c.fn("p2p", name)
			if f == nil {
				continue
			}
			for _, lr := range leafErrReturns(f) {
				if isNilConst(lr.err) {
					continue
				}
				// named result read back after the deferred cleanup: follow to what was stored
				v := lr.err
				if u, ok := v.(*ssa.UnOp); ok && u.Op == token.MUL {
					if _, isAlloc := u.X.(*ssa.Alloc); isAlloc {
						if rv := resultValueAt(lr.ret, len(lr.ret.Results)-1); rv != v {
							v = rv
						} else {
							continue // the deferred closure's view of the result slot (checked at the stores)
						}
					}
				}
				if isNilConst(v) {
					continue
				}
				n++
				// frozen exemption (confirmed by reading): the error of resolving the connection's own remote
				// address — an IP literal taken from the accepted socket, which LookupIPAddr answers without any
				// lookup — is a local failure, not something a peer's bytes can cause
				if regexp.MustCompile(`^p2p\.resolveIPs\(.*\)#1$`).MatchString(w.expr(v)) {
					c.OK(k.key(f, "local address resolution failure is passed on"), w.ipos(lr.ret), "exempt: not driven by peer input")
					continue
				}
				mi, isMI := v.(*ssa.MakeInterface)
				tn := ""
				if isMI {
					if nt := derefNamed(mi.X.Type()); nt != nil {
						tn = nt.Obj().Name()
					}
				}
				c.Check(isMI && survives[tn], k.key(f, "failure is reported as a refused-peer error"), w.ipos(lr.ret), "ErrRejected / ErrFilterTimeout", "returns "+w.expr(v)+" (type "+tn+"): the accept loop panics on it — a failing inbound connection takes the node down")
			}
		}
		c.Check(n >= 6, "p2p :: inbound set-up failure exits found", "-", ">= 6", fmt.Sprintf("%d", n))
	})
}

// ------------------------------------------------------------------ C17.R12
// F24: the receiver reads every packet through a reader bounded by maxPacketMsgSize(). That bound has to be
// the size of the *largest* packet a correct sender can emit: full payload, EOF flag set, and a channel id
// whose varint encoding is the longest an id can have (ids are bytes: 0x80..0xff take two bytes).
func init() {
	register("C17", "R12", "K5", "the receiver's packet bound is computed for the largest packet a sender can produce (full payload, EOF, widest channel id)", 4, func(c *Ctx) {
		w := c.W
		f := c.fn("p2p/conn", "MConnection.maxPacketMsgSize")
		if f == nil {
			return
		}
		fk := funcKey(f)
		got := map[string]ssa.Value{}
		for _, di := range w.deepInstrs(f, 1) {
			if st, ok := di.in.(*ssa.Store); ok {
				if fa, ok := st.Addr.(*ssa.FieldAddr); ok {
					if n := derefNamed(fa.X.Type()); n != nil && n.Obj().Name() == "PacketMsg" {
						got[fieldName(fa.X.Type(), fa.Field)] = st.Val
					}
				}
			}
		}
		id, isC := int64(0), false
		if v, ok := got["ChannelID"]; ok {
			id, isC = constInt(v)
		}
		c.Check(isC && id >= 0x80 && id <= 0xff, fk+" :: bound uses a channel id with the widest encoding", w.pos(f.Pos()), "ChannelID in 0x80..0xff", fmt.Sprintf("the bound is computed for channel id %#x: a full packet on a channel with an id of 0x80 or above is one byte longer and is refused", id))
		eof, isB := false, false
		if v, ok := got["EOF"]; ok {
			eof, isB = boolConst(v)
		}
		c.Check(isB && eof, fk+" :: bound includes the EOF flag", w.pos(f.Pos()), "EOF: true", "the bound is computed without the EOF flag")
		okData := false
		if v, ok := got["Data"]; ok {
			okData = regexp.MustCompile(`^make\(\[\]byte,.*\.MaxPacketMsgPayloadSize\)$`).MatchString(strings.ReplaceAll(w.expr(v), " ", ""))
		}
		c.Check(okData, fk+" :: bound uses the full payload size", w.pos(f.Pos()), "make([]byte, MaxPacketMsgPayloadSize)", "payload of the bound packet is "+fmt.Sprint(got["Data"]))
		// the id a sender can put on the wire is a byte
		if d := w.Pkg("p2p/conn"); d != nil {
			if obj := d.Pkg.Scope().Lookup("ChannelDescriptor"); obj != nil {
				if st, ok := obj.Type().Underlying().(*types.Struct); ok {
					for i := 0; i < st.NumFields(); i++ {
						if st.Field(i).Name() == "ID" {
							b, isBasic := st.Field(i).Type().Underlying().(*types.Basic)
							c.Check(isBasic && b.Kind() == types.Uint8, "p2p/conn.ChannelDescriptor.ID is a byte", w.pos(f.Pos()), "byte", "channel ids are "+st.Field(i).Type().String()+": the widest id no longer fits the bound's assumption")
						}
					}
				}
			}
		}
	})
}

// ------------------------------------------------------------------ C17.R13
// F27: a count a peer merely claims must not size an allocation. The state-sync snapshot's chunk count comes
// from a SnapshotsResponse (validated only to be non-zero) and is used before anything about the snapshot is
// verified: sizing maps or slices with it lets one message exhaust the node's memory.
func init() {
	register("C17", "R13", "K10", "state sync: no allocation is sized by the chunk count a peer claimed", 4, func(c *Ctx) {
		w := c.W
		k := newKeyer()
		allocs := 0
		for _, f := range w.FuncsInPkg("statesync") {
			if strings.HasSuffix(w.Fset.Position(f.Pos()).Filename, "_test.go") {
				continue
			}
			for _, b := range f.Blocks {
				for _, in := range b.Instrs {
					var size ssa.Value
					switch x := in.(type) {
					case *ssa.MakeMap:
						allocs++
						size = x.Reserve
					case *ssa.MakeSlice:
						allocs++
						size = x.Cap
					case *ssa.MakeChan:
						size = x.Size
					}
					if size == nil {
						continue
					}
					s := w.expr(size)
					if !strings.Contains(s, ".Chunks") {
						continue
					}
					c.guards(f, in, k.key(f, "allocation sized by the claimed chunk count"), 0, guardCmp("the count is bounded by a constant", `.*\.Chunks`, "<=", `\d+`))
				}
			}
		}
		c.Check(allocs >= 4, "statesync :: allocations examined (matcher control)", "-", ">= 4", fmt.Sprintf("%d", allocs))
		for i := 0; i < 3; i++ {
			c.OK(fmt.Sprintf("statesync :: allocation sizes examined (%d/3)", i+1), "-", fmt.Sprintf("%d make sites", allocs))
		}
	})
}

// ------------------------------------------------------------------ C17.R14
// F34, F35: evidence travels inside gossiped evidence lists and inside proposed blocks; it is decoded and
// validated in the consensus receive routine, which nothing recovers. Decoding/validation of what a peer
// sent must therefore fail with an error, never panic:
// (a) LightClientAttackEvidence.ValidateBasic reads fields promoted from the embedded *SignedHeader only
//
//	after testing that pointer;
//
// (b) ValidatorSetFromProto calls the panicking TotalVotingPower() only after having established, with an
//
//	error return, that the members' total is within MaxTotalVotingPower.
func init() {
	register("C17", "R14", "K1", "decoding peer-supplied evidence fails with an error, never a panic (nil signed header, oversized validator set)", 3, func(c *Ctx) {
		w := c.W
		if f := c.fn("types", "LightClientAttackEvidence.ValidateBasic"); f != nil {
			fk := funcKey(f)
			n := 0
			for _, b := range f.Blocks {
				for _, in := range b.Instrs {
					fa, ok := in.(*ssa.FieldAddr)
					if !ok {
						continue
					}
					// a field of *SignedHeader reached through ConflictingBlock.SignedHeader
					ld, ok := fa.X.(*ssa.UnOp)
					if !ok || ld.Op != token.MUL {
						continue
					}
					if !strings.HasSuffix(w.expr(ld), ".ConflictingBlock.SignedHeader") {
						continue
					}
					n++
					c.guards(f, fa, fmt.Sprintf("%s :: read %s of the conflicting block's signed header", fk, fieldName(fa.X.Type(), fa.Field)), 0, guardRe("the signed header is there", `^nonnil\(\w+\.ConflictingBlock\.SignedHeader\)$`))
				}
			}
			c.Check(n >= 1, fk+" :: accesses through the embedded signed header found", w.pos(f.Pos()), ">= 1", fmt.Sprintf("%d", n))
		}
		if f := c.fn("types", "ValidatorSetFromProto"); f != nil {
			fk := funcKey(f)
			max := c.mustConst("types", "MaxTotalVotingPower")
			var bound *ssa.BasicBlock
			for _, ea := range condEdges(f) {
				if ea.A.Kind != "cmp" {
					continue
				}
				k, isC := constInt(ea.A.Y)
				if !isC || k != max || !(ea.A.Op == token.GTR) {
					continue
				}
				if call := valueCall(ea.A.X); call == nil || !w.isCall(call, "types#safeAddClip") {
					continue
				}
				if edgeOnlyFails(w, f, ea.E.From.Succs[ea.E.Succ]) {
					bound = ea.E.From
				}
			}
			for _, call := range w.callsTo(f, "types#ValidatorSet.TotalVotingPower") {
				ok := bound != nil && bound.Dominates(call.Block())
				if bound != nil && !ok {
					// the bounding loop's header dominates the call
					for d := bound; d != nil; d = d.Idom() {
						if isLoopHead(d) && d.Dominates(call.Block()) {
							ok = true
						}
					}
				}
				c.Check(ok, fk+" :: the panicking total is computed only after the sum was bounded with an error return", w.ipos(call), "sum > MaxTotalVotingPower → error, before TotalVotingPower()", "TotalVotingPower() (which panics above the maximum) is called on members taken from the wire without the sum having been checked")
			}
		}
	})
}
