package main

import (
	"fmt"
	"go/constant"
	"go/token"
	"go/types"
	"regexp"
	"sort"
	"strings"

	"golang.org/x/tools/go/ssa"
)

const resRe = `c\.next\.\w+\(.*?\)#0`

// rx lets the rule tables say `res` for "the answer of the wrapped node" (c.next.X(...)#0).
func rx(s string) string { return strings.ReplaceAll(s, `res\.`, resRe+`\.`) }

func init() {
	guardRe := func(name, re string) Guard { return guardRe(name, rx(re)) }
	guardCmp := func(name, x, ops, y string) Guard { return guardCmp(name, rx(x), ops, rx(y)) }
	upd := func(h string) Guard {
		return guardRe("light client verified the height the answer is about", `^nil\(c\.updateLightClientIfNeededTo\(ctx, `+h+`\)#1\)$`)
	}
	lb := func(h string) string { return `c\.updateLightClientIfNeededTo\(ctx, ` + h + `\)#0` }

	// ------------------------------------------------------------------ C20.R1
	register("C20", "R1", "K1", "each verifying method relays the node's answer only after the light client verified the relevant height and the answer matched the verified header", 30, func(c *Ctx) {
		w := c.W
		type method struct {
			name string
			gs   []Guard
		}
		blockGs := func() []Guard {
			h := `res\.Block\.Header\.Height`
			return []Guard{
				guardRe("block id well formed", `^nil\(res\.BlockID\.ValidateBasic\(\)\)$`),
				guardRe("whole block internally consistent (content hashes match the header)", `^nil\(res\.Block\.ValidateBasic\(\)\)$`),
				guardRe("block id hash equals the block's hash", `^true\(bytes\.Equal\(res\.BlockID\.Hash, res\.Block\.Hash\(\)\)\)$`),
				upd(h),
				guardRe("block hash equals the verified header's hash", `^true\(bytes\.Equal\(res\.Block\.Hash\(\), `+lb(h)+`\.SignedHeader\.Header\.Hash\(\)\)\)$`),
			}
		}
		// the height asked of the node (a local, or the result of a helper that picks it) + 1
		resultsH := `\((?:&?\w+|c\.\w+\(ctx, height\)#0) \+ 1\)`
		// the proof runtime takes a merkle key path (url/hex-encoded segments under the store path), never a
		// raw key: value and absence proofs alike are verified against the path built from the request path and
		// the key the answer names (F44: the absence branch passed the raw key, which the runtime refuses or
		// splits differently, so no honest absence proof was ever accepted)
		kpath := `(?:dyn:)?c\.keyPathFn\(path, res\.Response\.Key\)#0\.String\(\)`
		methods := []method{
			{"Client.Block", blockGs()},
			{"Client.BlockByHash", blockGs()},
			{"Client.ConsensusParams", []Guard{
				guardRe("params valid", `^nil\(types\.ValidateConsensusParams\(res\.ConsensusParams\)\)$`),
				upd(`res\.BlockHeight`),
				guardRe("params hash equals the verified header's ConsensusHash", `^true\(bytes\.Equal\(types\.HashConsensusParams\(res\.ConsensusParams\), `+lb(`res\.BlockHeight`)+`\.SignedHeader\.Header\.ConsensusHash\)\)$`),
			}},
			{"Client.BlockResults", []Guard{
				upd(resultsH),
				guardRe("results hash (as the state machine computes it) equals LastResultsHash of the next verified header", `^true\(bytes\.Equal\(types\.NewResults\((?:res|c\.next\.BlockResults\(ctx, .*?\)#0)\.TxsResults\)\.Hash\(\), `+lb(resultsH)+`\.SignedHeader\.Header\.LastResultsHash\)\)$`),
			}},
			{"Client.ABCIQueryWithOptions", []Guard{
				upd(`\(res\.Response\.Height \+ 1\)`),
				guardCmp("response height positive", `res\.Response\.Height`, ">", "0"),
				guardAny("value (or absence) proof verifies against the app hash of the verified header at response height + 1",
					guardRe("v", `^nil\(c\.prt\.VerifyValue\(res\.Response\.ProofOps, `+lb(`\(res\.Response\.Height \+ 1\)`)+`\.SignedHeader\.Header\.AppHash, `+kpath+`, res\.Response\.Value\)\)$`),
					guardRe("a", `^nil\(c\.prt\.VerifyAbsence\(res\.Response\.ProofOps, `+lb(`\(res\.Response\.Height \+ 1\)`)+`\.SignedHeader\.Header\.AppHash, `+kpath+`\)\)$`)),
				guardCmp("proof present", `len\(res\.Response\.ProofOps\.Ops\)`, "!=", "0"),
			}},
			{"Client.BlockchainInfo", nil},
			{"Client.Tx", nil},
		}
		for _, m := range methods {
			f := c.fn("light/rpc", m.name)
			if f == nil {
				continue
			}
			for _, g := range m.gs {
				c.Check(c.ge().ensures(f, g, 2), "light/rpc."+m.name+" ensures "+g.Name, w.pos(f.Pos()), "the answer is relayed only behind this check", "light/rpc."+m.name+" can relay an answer without: "+g.Name)
			}
		}
		// Tx: returned with a proof only when it validates; the relayed fields are the proven ones
		if f := c.fn("light/rpc", "Client.Tx"); f != nil {
			fk := funcKey(f)
			h := `res\.Height`
			np := guardRe("np", `^false\(prove\)$`)
			for _, g := range []Guard{
				upd(h),
				guardRe("inclusion proof validates against the verified data hash", `^nil\(res\.Proof\.Validate\(`+lb(h)+`\.SignedHeader\.Header\.DataHash\)\)$`),
				guardRe("relayed tx bytes are the proven leaf", `^true\(bytes\.Equal\(res\.Tx, res\.Proof\.Data\)\)$`),
				guardRe("relayed hash is the hash of the proven tx", `^true\(bytes\.Equal\(res\.Hash, res\.Tx\.Hash\(\)\)\)$`),
				guardCmp("relayed index is the proven position", `res\.Index`, "==", `res\.Proof\.Proof\.Index`),
				guardCmp("height positive", h, ">", "0"),
			} {
				// every success return is behind the check, except the documented no-proof relay
				c.Check(c.ge().ensures(f, guardAny(g.Name, g, np), 2), fk+" :: relay a proven tx <= "+g.Name, w.pos(f.Pos()), "a tx requested with proof is relayed only behind this check", "light/rpc.Client.Tx can relay a tx requested with proof without: "+g.Name)
			}
		}
		// BlockchainInfo: each relayed meta equals a header verified for its own height
		if f := c.fn("light/rpc", "Client.BlockchainInfo"); f != nil {
			fk := funcKey(f)
			n := 0
			for _, call := range w.callsTo(f, "bytes#Equal") {
				s := w.callStr(call)
				if !strings.Contains(s, "Header.Hash()") {
					continue
				}
				n++
				ok := regexp.MustCompile(`^bytes\.Equal\((.*)\.Header\.Hash\(\), c\.updateLightClientIfNeededTo\(ctx, (.*)\)#0\.SignedHeader\.Header\.Hash\(\)\)$`).FindStringSubmatch(s)
				good := ok != nil && strings.HasSuffix(ok[2], ".Header.Height") && strings.Contains(ok[2], "BlockMetas[")
				c.Check(good, fk+" :: each meta is compared with the light block verified for that meta's height", w.ipos(call), s, "meta compared as "+s)
			}
			c.Check(n == 1, fk+" :: header comparison present", w.pos(f.Pos()), "one", fmt.Sprintf("%d comparisons", n))
			// the verification loop (the one that consults the light client) only continues behind the comparison
			for _, u := range w.callsTo(f, "light/rpc#Client.updateLightClientIfNeededTo") {
				hdr := loopOf(u)
				if hdr == nil {
					c.Fail(fk+" :: verification loop", w.ipos(u), "light client is not consulted inside a loop over the metas")
					continue
				}
				for _, p := range hdr.Preds {
					if hdr.Dominates(p) {
						at := p.Instrs[len(p.Instrs)-1]
						for _, g := range []Guard{guardRe("this meta's hash equals the verified header's", `^true\(bytes\.Equal\(.*\.Header\.Hash\(\), .*\.Hash\(\)\)\)$`), guardRe("light client verified this meta's height", `^nil\(c\.updateLightClientIfNeededTo\(ctx, .*BlockMetas\[.*\]\.Header\.Height\)#1\)$`)} {
							ok, path := c.ge().guardedEdge(f, p, hdr, g, 2)
							c.Check(ok, fk+" :: next meta <= "+g.Name, w.ipos(at), "the loop only continues behind the check", "the loop continues to the next meta without: "+g.Name+" via "+pathStr(w, path))
						}
					}
				}
			}
		}
		// the relayed block's LastCommit: the header binds only its signature list (Commit.Hash), so its
		// Height, Round and BlockID need their own tie to verified data — a signature check against the previous
		// height's verified validator set (or, for height and block id, equality with the header's LastBlockID)
		for _, name := range []string{"Client.Block", "Client.BlockByHash"} {
			if f := c.fn("light/rpc", name); f != nil {
				g := guardAny("LastCommit verified against the previous height's validator set",
					guardRe("v", `^nil\(.*\.VerifyCommit(Light)?\(.*res\.Block\.LastCommit\)\)$`))
				c.Check(c.ge().ensures(f, g, 2), "light/rpc."+name+" ensures the block's LastCommit fields are bound to verified data", w.pos(f.Pos()), "LastCommit verified", "light/rpc."+name+" relays Block.LastCommit with Height, Round and BlockID that nothing ties to the verified header (LastCommitHash covers the signatures only)")
			}
		}
		// Commit and Validators are built from the light client's own data
		for _, name := range []string{"Client.Commit", "Client.Validators"} {
			if f := c.fn("light/rpc", name); f != nil {
				usesNext := len(w.callsMatching(f, `^c\.next\.`))
				c.Check(usesNext == 0 && len(w.callsTo(f, "light/rpc#Client.updateLightClientIfNeededTo")) == 1, "light/rpc."+name+" answers from the verified light block only", w.pos(f.Pos()), "no call to the node", fmt.Sprintf("%d calls to the node", usesNext))
			}
		}
		// the update helper really asks the light client
		if f := c.fn("light/rpc", "Client.updateLightClientIfNeededTo"); f != nil {
			ok := c.ge().ensures(f, guardAny("light client verified/updated", guardCallOK("v", "light#Client.VerifyLightBlockAtHeight"), guardCallOK("u", "light#Client.Update"), guardRe("phi", `^nil\(phi\(.*VerifyLightBlockAtHeight.*\)\)$`)), 2)
			c.Check(ok, funcKey(f)+" :: returns a block only after the light client verified it", w.pos(f.Pos()), "guarded", "the helper can return a block without light-client verification")
			for _, v := range w.callsTo(f, "light#Client.VerifyLightBlockAtHeight") {
				c.Check(w.expr(callArgs(v)[1]) == "height", funcKey(f)+" :: verifies the requested height", w.ipos(v), "VerifyLightBlockAtHeight(ctx, *height, now)", w.callStr(v))
			}
		}
		// proofs are always requested for ABCI queries
		if f := c.fn("light/rpc", "Client.ABCIQueryWithOptions"); f != nil {
			okP := false
			for _, b := range f.Blocks {
				for _, in := range b.Instrs {
					if st, ok := in.(*ssa.Store); ok && strings.HasSuffix(w.expr(st.Addr), ".Prove") {
						v, isC := boolConst(st.Val)
						okP = isC && v
					}
				}
			}
			c.Check(okP, funcKey(f)+" :: always asks the node for a proof", w.pos(f.Pos()), "opts.Prove = true", "the query can be sent without requesting a proof")
		}
	})

	// ------------------------------------------------------------------ C20.R2
	register("C20", "R2", "K5", "the results hash the client recomputes is built exactly like the one the state machine stores in the header", 2, func(c *Ctx) {
		w := c.W
		norm := func(s string) string {
			return regexp.MustCompile(`^types\.NewResults\(.*\)\.Hash\(\)$`).ReplaceAllString(s, "types.NewResults(X).Hash()")
		}
		var stateCtor, clientCtor string
		if f := c.fn("state", "ABCIResponsesResultsHash"); f != nil {
			if rv := returnValues(f, 0); len(rv) == 1 {
				stateCtor = norm(w.expr(rv[0]))
			}
		}
		if f := c.fn("light/rpc", "Client.BlockResults"); f != nil {
			for _, call := range w.callsTo(f, "bytes#Equal") {
				if strings.Contains(w.callStr(call), "LastResultsHash") {
					// bytes.Equal is symmetric: the recomputed side is the operand that is not the header field
					for _, a := range call.Common().Args {
						if !strings.HasSuffix(w.expr(a), ".LastResultsHash") {
							clientCtor = norm(w.expr(a))
						}
					}
				}
			}
		}
		c.Check(stateCtor != "" && stateCtor == clientCtor, "light/rpc.Client.BlockResults recomputes LastResultsHash with the state machine's constructor", "light/rpc/client.go", "both are "+stateCtor, "state machine: "+stateCtor+" ; client: "+clientCtor)
		// and the state machine stores exactly that in the next header (C06.R5 checks updateState)
		if f := c.fn("state", "updateState"); f != nil {
			got := storedFields(w, f, "State")["LastResultsHash"]
			c.Check(got == "state.ABCIResponsesResultsHash(abciResponses)", "state.updateState stores ABCIResponsesResultsHash as LastResultsHash", w.pos(f.Pos()), got, "LastResultsHash = "+got)
		}
	})

	// ------------------------------------------------------------------ C20.R4
	register("C20", "R4", "K3", "inventory: only the documented set of methods passes the node's answer through unverified", 20, func(c *Ctx) {
		w := c.W
		passThrough := map[string]string{
			"Status": "node status is not part of the chain", "ABCIInfo": "app info is not committed", "BroadcastTxCommit": "submission", "BroadcastTxAsync": "submission", "BroadcastTxSync": "submission",
			"UnconfirmedTxs": "mempool content is not committed", "NumUnconfirmedTxs": "mempool content is not committed", "CheckTx": "not committed", "NetInfo": "peer info", "DumpConsensusState": "local consensus state",
			"ConsensusState": "local consensus state", "Health": "liveness", "Genesis": "documented: genesis is not verified", "GenesisChunked": "documented: genesis is not verified",
			"BroadcastEvidence": "submission",
			"Subscribe":         "event stream", "Unsubscribe": "event stream", "UnsubscribeAll": "event stream", "ABCIQuery": "delegates to ABCIQueryWithOptions", "OnStart": "lifecycle", "OnStop": "lifecycle",
			"SubscribeWS": "event stream", "UnsubscribeWS": "event stream", "UnsubscribeAllWS": "event stream",
		}
		var names []string
		byName := map[string]*ssa.Function{}
		for _, f := range w.methodsOf("light/rpc", "Client") {
			if f.Parent() != nil {
				continue
			}
			names = append(names, f.Name())
			byName[f.Name()] = f
		}
		sort.Strings(names)
		for _, n := range names {
			f := byName[n]
			usesNext := len(w.deepCallsMatching(f, 2, `^c\.next\.`)) > 0
			if !usesNext {
				continue
			}
			// a helper introduced later (unexported, not part of the client's interface) is judged through
			// the methods that call it
			if isNewFunc(f) && !f.Object().Exported() {
				continue
			}
			verifies := len(w.deepCallsTo(f, 2, "light/rpc#Client.updateLightClientIfNeededTo")) > 0
			if why, ok := passThrough[n]; ok {
				c.OK("light/rpc.Client."+n+" passes through", w.pos(f.Pos()), "documented unverified: "+why)
				continue
			}
			c.Check(verifies, "light/rpc.Client."+n+" verifies what it relays", w.pos(f.Pos()), "consults the light client", "method "+n+" forwards the node's answer without consulting the light client and is not in the documented pass-through set")
		}
		// Tx without proof is the one partial pass-through: only on the !prove edge
		if f := c.fn("light/rpc", "Client.Tx"); f != nil {
			for _, b := range f.Blocks {
				ret, ok := b.Instrs[len(b.Instrs)-1].(*ssa.Return)
				if !ok || !regexp.MustCompile(`^c\.next\.Tx\([^#]*\)#[01]$`).MatchString(w.expr(ret.Results[1])) {
					continue
				}
				c.guards(f, ret, funcKey(f)+" :: unverified relay", 0, guardAny("only when no proof was requested (or the node reported an error)", guardRe("np", `^false\(prove\)$`), guardRe("err", `^nonnil\(c\.next\.Tx\([^#]*\)#1\)$`)))
			}
		}
	})

	// ------------------------------------------------------------------ C20.R5
	register("C20", "R5", "K5", "full node: a tx proof is built from the block at the tx's own indexed height and position", 4, func(c *Ctx) {
		w := c.W
		for _, name := range []string{"Tx", "TxSearch"} {
			f := c.fn("rpc/core", name)
			if f == nil {
				continue
			}
			// the Proof call in the handler, or in a helper carved out of it (rendered in the handler's terms)
			proofs := w.deepCallsTo(f, 2, "types#Txs.Proof")
			c.Check(len(proofs) == 1, "rpc/core."+name+" builds the proof in one place", w.pos(f.Pos()), "one Proof call", fmt.Sprintf("%d Proof calls", len(proofs)))
			for _, dc := range proofs {
				recv, arg := w.exprWith(callRecv(dc.call), dc.sub), dc.arg(0)
				s := recv + ".Proof(" + arg + ")"
				var m []string
				if strings.HasPrefix(recv, "rpc/core.env.BlockStore.LoadBlock(") && strings.HasSuffix(recv, ".Height).Data.Txs") && strings.HasSuffix(arg, ".Index") {
					r1 := strings.TrimSuffix(strings.TrimPrefix(recv, "rpc/core.env.BlockStore.LoadBlock("), ".Height).Data.Txs")
					r2 := strings.TrimSuffix(arg, ".Index")
					// rendering depth can abbreviate the longer one: compare the common prefix up to the first ellipsis
					cut := func(x string) string {
						if i := strings.Index(x, "…"); i >= 0 {
							return x[:i]
						}
						return x
					}
					a, b := cut(r1), cut(r2)
					if len(a) > len(b) {
						a = a[:len(b)]
					} else {
						b = b[:len(a)]
					}
					if a == b {
						m = []string{s, r1, r1}
					}
				}
				c.Check(m != nil && m[1] == m[2], "rpc/core."+name+" proves index r.Index in the block loaded at r.Height for the same result r", w.ipos(dc.site), s, "proof built as "+s+" (the block must be loaded for this very result's height)")
				c.guards(f, dc.site, "rpc/core."+name+" :: build proof", 0, guardRe("proof was requested", `^true\(prove\)$`))
			}
		}
		// the proof root is the data hash constructor (C10.R4 checks the leaves)
		if f := c.fn("types", "Data.Hash"); f != nil {
			c.Check(len(w.callsMatching(f, `\.Txs\.Hash\(\)$`)) == 1, "types.Data.Hash is the merkle root of the txs", w.pos(f.Pos()), "Txs.Hash()", "Data.Hash no longer uses Txs.Hash")
		}
	})
}

// ------------------------------------------------------------------ C20.R6
// The key path of a proven query travels as a string: KeyPath.String (writer, used to build the path the
// proof is checked against) and KeyPathToKeys (reader, inside ProofOperators.Verify) must be inverse
// codecs. If the reader decodes with another scheme (e.g. query-unescape, which turns '+' into a space),
// an honest proof for key "a+b" is refused and a proof for key "a b" is accepted as the answer for "a+b".
func init() {
	register("C20", "R6", "K5", "merkle key paths: the reader decodes each segment with the inverse of the writer's encoding, under the same prefix", 4, func(c *Ctx) {
		w := c.W
		wr := c.fn("crypto/merkle", "KeyPath.String")
		rd := c.fn("crypto/merkle", "KeyPathToKeys")
		if wr == nil || rd == nil {
			return
		}
		inverse := map[string]string{"net/url.PathEscape": "net/url.PathUnescape", "net/url.QueryEscape": "net/url.QueryUnescape", "encoding/hex.EncodeToString": "encoding/hex.DecodeString"}
		codecs := func(f *ssa.Function) map[string]ssa.Instruction {
			out := map[string]ssa.Instruction{}
			for _, di := range w.deepInstrs(f, 2) {
				call, ok := di.in.(ssa.CallInstruction)
				if !ok {
					continue
				}
				d, ok := describeCallee(call)
				if !ok {
					continue
				}
				full := d.Pkg + "." + d.Name
				if d.Pkg == "net/url" || d.Pkg == "encoding/hex" {
					out[full] = call
				}
				// fmt.Sprintf("%X", bytes) is the hex writer
				if d.Pkg == "fmt" && d.Name == "Sprintf" && len(call.Common().Args) > 0 {
					if cst, isC := call.Common().Args[0].(*ssa.Const); isC && cst.Value != nil && (constant.StringVal(cst.Value) == "%X" || constant.StringVal(cst.Value) == "%x") {
						out["encoding/hex.EncodeToString"] = call
					}
				}
			}
			return out
		}
		enc, dec := codecs(wr), codecs(rd)
		c.Check(len(enc) == 2, funcKey(wr)+" :: writer codecs found (url, hex)", w.pos(wr.Pos()), "2", fmt.Sprintf("%d: %v", len(enc), sortedKeys(keysOf(enc))))
		for e, at := range enc {
			want, known := inverse[e]
			if !c.Check(known, funcKey(wr)+" :: segment encoding "+e+" has a known inverse", w.ipos(at), "listed", "encoding "+e+" is not in the codec table") {
				continue
			}
			_, has := dec[want]
			c.Check(has, funcKey(rd)+" :: decodes "+e+" segments with "+want, w.pos(rd.Pos()), want, "the reader does not use "+want+" (it uses "+strings.Join(sortedKeys(keysOf(dec)), ", ")+"): keys containing characters the two schemes treat differently are proven under another key")
		}
		// F66: the reader tells the two encodings apart by the marker "x:" at the start of an element. The
		// writer therefore emits a URL-encoded element only where the encoded text does not start with that
		// marker (otherwise the element is read back as hex: another key, or none).
		marker := ""
		for _, call := range w.callsTo(rd, "strings#HasPrefix") {
			if k, isK := stripConv(callArgs(call)[1]).(*ssa.Const); isK && k.Value != nil && k.Value.Kind() == constant.String {
				marker = constant.StringVal(k.Value)
			}
		}
		if c.Check(marker != "", funcKey(rd)+" :: hex marker found", w.pos(rd.Pos()), "HasPrefix(part, marker)", "the reader no longer recognises hex elements by a prefix") {
			n := 0
			for _, b := range wr.Blocks {
				for _, in := range b.Instrs {
					bo, ok := in.(*ssa.BinOp)
					if !ok || bo.Op != token.ADD {
						continue
					}
					// "/" + <url-escaped element>
					k, isK := stripConv(bo.X).(*ssa.Const)
					if !isK || k.Value == nil || k.Value.Kind() != constant.String || constant.StringVal(k.Value) != "/" {
						continue
					}
					esc := w.expr(bo.Y)
					if !strings.HasPrefix(esc, "net/url.") {
						continue
					}
					n++
					c.guards(wr, bo, funcKey(wr)+" :: emit a URL-encoded element", 0, guardRe("the encoded element does not start with the hex marker", `^false\(strings\.HasPrefix\(`+regexp.QuoteMeta(esc)+`, `+regexp.QuoteMeta(fmt.Sprintf("%q", marker))+`\)\)$`))
				}
			}
			c.Check(n == 1, funcKey(wr)+" :: URL-encoded element emission found", w.pos(wr.Pos()), "1", fmt.Sprintf("%d", n))
		}
		for d, at := range dec {
			found := false
			for e := range enc {
				if inverse[e] == d {
					found = true
				}
			}
			c.Check(found, funcKey(rd)+" :: every decoding has its encoding in the writer", w.ipos(at), "paired", d+" has no matching encoder in KeyPath.String")
		}
		// the hex marker: the writer emits "/x:" and the reader recognises "x:" and skips exactly its length
		wrHas, rdPrefix := false, ""
		for _, b := range wr.Blocks {
			for _, in := range b.Instrs {
				for _, op := range in.Operands(nil) {
					if cst, ok := (*op).(*ssa.Const); ok && cst.Value != nil && cst.Value.Kind() == constant.String && constant.StringVal(cst.Value) == "/x:" {
						wrHas = true
					}
				}
			}
		}
		for _, call := range callInstrs(rd) {
			if d, ok := describeCallee(call); ok && d.Pkg == "strings" && d.Name == "HasPrefix" {
				if cst, ok := call.Common().Args[1].(*ssa.Const); ok && cst.Value != nil {
					rdPrefix = constant.StringVal(cst.Value)
				}
			}
		}
		c.Check(wrHas && rdPrefix == "x:", "crypto/merkle key path :: hex marker agrees (writer \"/x:\", reader \"x:\")", w.pos(rd.Pos()), "x:", "writer marker present="+fmt.Sprint(wrHas)+", reader prefix="+rdPrefix)
	})
}

func keysOf(m map[string]ssa.Instruction) map[string]bool {
	out := map[string]bool{}
	for k := range m {
		out[k] = true
	}
	return out
}

// ------------------------------------------------------------------ C20.R9
// F30: "returned whenever an honest full node answers". The light client's Update answers (nil, nil) when
// there is nothing newer than the latest trusted block; code that takes its first result for a block without
// testing it dereferences nil on the honest path (Commit(nil), Validators(nil) right after a previous call).
func init() {
	register("C20", "R9", "K1", "the light client's Update result (nil when nothing is newer) is tested before it is used as a block", 1, func(c *Ctx) {
		w := c.W
		k := newKeyer()
		n := 0
		for _, s := range w.allCallsTo("light/rpc#LightClient.Update", "light#Client.Update") {
			if !strings.HasPrefix(relPkg(s.Fn), "light/rpc") && relPkg(s.Fn) != "light/proxy" {
				continue
			}
			call, ok := s.Instr.(*ssa.Call)
			if !ok {
				continue
			}
			var blk, errv ssa.Value
			for _, r := range *call.Referrers() {
				if ex, ok := r.(*ssa.Extract); ok {
					if ex.Index == 0 {
						blk = ex
					} else {
						errv = ex
					}
				}
			}
			if blk == nil || len(*blk.Referrers()) == 0 {
				continue // result not used as a block
			}
			n++
			f := s.Fn
			blocked := map[Edge]bool{}
			for _, ea := range condEdges(f) {
				if (ea.A.Kind == "nil" || ea.A.Kind == "nonnil") && ea.A.V != nil && sameValue(ea.A.V, blk) {
					blocked[ea.E] = true
				}
				if ea.A.Kind == "nonnil" && errv != nil && ea.A.V != nil && sameValue(ea.A.V, errv) {
					blocked[ea.E] = true
				}
			}
			q := &pathQ{blocked: func(e Edge) bool { return blocked[e] }, target: func(in ssa.Instruction) bool { return isReturn(in) && in.Block().Comment != "recover" }}
			hit, path := q.reach(call.Block(), instrIndex(call)+1)
			c.Check(hit == nil, k.key(f, "Update's block is tested for nil before the function goes on with it"), w.ipos(call), "nil test (or the error path) on every way on", "the block returned by Update is passed on untested: when nothing is newer it is nil and the caller dereferences it: "+pathStr(w, path))
		}
		c.Check(n >= 1, "light/rpc :: uses of Update's result found", "-", ">= 1", fmt.Sprintf("%d", n))
	})
}

// ------------------------------------------------------------------ C20.R10
// F31: an answer that is consistent with *a* verified header is not yet the answer to the question asked.
// Every verifying method that takes a height or a hash compares it with the answer's own, and the block id
// is compared in full (the verified commit signs the part-set header as well).
func init() {
	register("C20", "R10", "K1", "each verified answer is bound to the request (height / hash asked for) and to the full verified block id", 7, func(c *Ctx) {
		w := c.W
		type ob struct {
			fn string
			g  Guard
		}
		res := func(m string) string { return `c\.next\.` + m + `\(ctx, [^#]*\)#0` }
		obs := []ob{
			{"Client.Block", guardAny("the block is for the requested height (when one was given)", guardRe("n", `^nil\(height\)$`), guardCmp("h", res("Block")+`\.Block\.Header\.Height`, "==", "height"))},
			{"Client.BlockByHash", guardRe("the block is the one with the requested hash", `^true\(bytes\.Equal\(`+res("BlockByHash")+`\.BlockID\.Hash, hash\)\)$`)},
			{"Client.Block", guardRe("part-set header equals the verified commit's", `^true\(`+res("Block")+`\.BlockID\.PartSetHeader\.Equals\(c\.updateLightClientIfNeededTo\(.*\)#0\.SignedHeader\.Commit\.BlockID\.PartSetHeader\)\)$`)},
			{"Client.BlockByHash", guardRe("part-set header equals the verified commit's", `^true\(`+res("BlockByHash")+`\.BlockID\.PartSetHeader\.Equals\(c\.updateLightClientIfNeededTo\(.*\)#0\.SignedHeader\.Commit\.BlockID\.PartSetHeader\)\)$`)},
			{"Client.BlockResults", guardCmp("the results are for the height asked of the node", `c\.next\.BlockResults\(ctx, .*\)#0\.Height`, "==", `&?\w+|c\.\w+\(ctx, height\)#0`)},
		}
		// ConsensusParams: bound to the height asked of the node — the caller's, or (F73) the latest verified
		// height the method resolved a missing one to
		if f := c.fn("light/rpc", "Client.ConsensusParams"); f != nil {
			asked := "height"
			for _, call := range w.callsMatching(f, `^c\.next\.ConsensusParams\(`) {
				if a := callArgs(call); len(a) == 2 {
					asked = w.expr(a[1])
				}
			}
			obs = append(obs, ob{"Client.ConsensusParams", guardAny("the parameters are for the height asked of the node (when one was given)", guardRe("n", `^nil\(`+q(asked)+`\)$`), guardCmp("h", `c\.next\.ConsensusParams\(.*?\)#0\.BlockHeight`, "==", q(asked)))})
		}
		for _, o := range obs {
			f := c.fn("light/rpc", o.fn)
			if f == nil {
				continue
			}
			c.Check(c.ge().ensures(f, o.g, 2), "light/rpc."+o.fn+" ensures "+o.g.Name, w.pos(f.Pos()), "success only behind it", o.fn+" can relay an answer without: "+o.g.Name)
		}
		// Tx: only the proving branch verifies anything; there the proven hash must be the requested one
		if f := c.fn("light/rpc", "Client.Tx"); f != nil {
			g := guardAny("the proven transaction is the requested one (when a proof was requested)",
				guardRe("h", `^true\(bytes\.Equal\(`+res("Tx")+`\.Hash, hash\)\)$`),
				guardRe("np", `^false\(prove\)$`),
				guardRe("err", `^nonnil\(c\.next\.Tx\([^#]*\)#1\)$`))
			ok := true
			for _, r := range returnsOf(f) {
				ret := r.(*ssa.Return)
				if !isNilConst(ret.Results[1]) && !strings.Contains(w.expr(ret.Results[1]), "c.next.Tx(") {
					continue
				}
				if isNilConst(ret.Results[0]) {
					continue
				}
				if okr, _ := c.ge().guardedLocal(f, ret, g, 0); !okr {
					ok = false
				}
			}
			c.Check(ok, "light/rpc.Client.Tx ensures "+g.Name, w.pos(f.Pos()), "success only behind it", "Tx can relay a proven transaction other than the one asked for")
		}
	})
}

// ------------------------------------------------------------------ C20.R11
// The JSON-RPC server hands request parameters to a handler through the argument names a route was
// registered with (rpc/jsonrpc/server: one name per handler parameter after the context). A route whose
// name list and handler signature disagree can never answer — "too few input arguments", an index out of
// range in the cache test, or a parameter unmarshalled into the wrong type (F42: net_info, genesis_chunked
// and block_search of the light proxy). "Returned whenever an honest full node answers" needs, per route:
// as many names as handler parameters; cache keys that are argument names; and, for the verifying proxy,
// the same name list as the full node's route of that name (clients send the same request to either).
type rpcRoute struct {
	name    string
	args    []string
	nParams int // handler parameters after the context; -1 unknown
	call    ssa.CallInstruction
	fn      *ssa.Function
	cacheBy []string
}

func rpcRoutesOf(w *World, f *ssa.Function) []rpcRoute {
	var out []rpcRoute
	strOf := func(v ssa.Value) (string, bool) {
		k, ok := stripConv(v).(*ssa.Const)
		if !ok || k.Value == nil || k.Value.Kind() != constant.String {
			return "", false
		}
		return constant.StringVal(k.Value), true
	}
	for _, b := range f.Blocks {
		for _, in := range b.Instrs {
			mu, ok := in.(*ssa.MapUpdate)
			if !ok {
				continue
			}
			name, ok := strOf(mu.Key)
			if !ok {
				continue
			}
			call, ok := mu.Value.(*ssa.Call)
			if !ok || !(w.isCall(call, "rpc/jsonrpc/server#NewRPCFunc") || w.isCall(call, "rpc/jsonrpc/server#NewWSRPCFunc")) {
				continue
			}
			args := callArgs(call)
			r := rpcRoute{name: name, nParams: -1, call: call, fn: f}
			if s, ok := strOf(args[1]); ok {
				if s != "" {
					r.args = strings.Split(s, ",")
				}
			} else {
				r.args = []string{"?non-constant"}
			}
			if sig, ok := underMakeInterface(args[0]).Type().Underlying().(*types.Signature); ok {
				r.nParams = sig.Params().Len() - 1
			}
			// options: Cacheable("a", "b") → names
			if len(args) > 2 {
				for _, o := range sliceElems(args[2]) {
					if oc, ok := o.(*ssa.Call); ok && w.isCall(oc, "rpc/jsonrpc/server#Cacheable") {
						for _, a := range sliceElems(callArgs(oc)[0]) {
							if s, ok := strOf(a); ok {
								r.cacheBy = append(r.cacheBy, s)
							}
						}
					}
				}
			}
			out = append(out, r)
		}
	}
	return out
}

func init() {
	register("C20", "R11", "K5", "every RPC route is registered with exactly one argument name per handler parameter; the verifying proxy's routes take the arguments the full node's routes take", 60, func(c *Ctx) {
		w := c.W
		var core, proxy []rpcRoute
		for _, f := range w.FuncsInPkg("rpc/core") {
			core = append(core, rpcRoutesOf(w, f)...)
		}
		for _, f := range w.FuncsInPkg("light/proxy") {
			proxy = append(proxy, rpcRoutesOf(w, f)...)
		}
		coreArgs := map[string]string{}
		for _, r := range core {
			coreArgs[r.name] = strings.Join(r.args, ",")
		}
		for _, set := range []struct {
			pkg    string
			routes []rpcRoute
		}{{"rpc/core", core}, {"light/proxy", proxy}} {
			for _, r := range set.routes {
				key := set.pkg + " route " + r.name
				c.Check(r.nParams >= 0 && r.nParams == len(r.args), key+" :: one argument name per handler parameter", w.ipos(r.call),
					fmt.Sprintf("%d names", r.nParams), fmt.Sprintf("registered with %d argument name(s) %v for a handler taking %d parameter(s) after the context: the route cannot be called", len(r.args), r.args, r.nParams))
				for _, k := range r.cacheBy {
					found := false
					for _, a := range r.args {
						if a == k {
							found = true
						}
					}
					c.Check(found, key+" :: cache key "+k+" is an argument", w.ipos(r.call), "one of "+strings.Join(r.args, ","), "not an argument name")
				}
				if set.pkg == "light/proxy" {
					if want, ok := coreArgs[r.name]; ok {
						got := strings.Join(r.args, ",")
						c.Check(got == want, key+" :: takes the arguments the full node's route takes", w.ipos(r.call), want, "proxy registers ("+got+"), the full node ("+want+")")
					}
				}
			}
		}
		c.Check(len(core) >= 30 && len(proxy) >= 25, "route tables found", "-", ">= 30 core, >= 25 proxy", fmt.Sprintf("%d core, %d proxy", len(core), len(proxy)))
	})
}

// ------------------------------------------------------------------ C20.R12
// A lying server chooses every byte of an answer, including JSON nulls inside lists. A null member the
// client dereferences (directly or in the hashing code it calls) is a panic of the caller, not a refusal of
// the answer (F45: a null in txs_results reached types.NewResults; a null in a block's evidence list reached
// Block.ValidateBasic). The sibling BlockchainInfo tests its metas one by one; the same is demanded wherever
// the client hands a list of pointers from an answer to code that dereferences the members.
func allElemsNonNilBefore(w *World, f *ssa.Function, slice string, at ssa.Instruction) (bool, string) {
	for _, ea := range condEdges(f) {
		if ea.A.Kind != "nil" || ea.A.V == nil {
			continue
		}
		s := w.expr(ea.A.V)
		if !strings.HasPrefix(s, slice+"[") {
			continue
		}
		iff := ea.E.From.Instrs[len(ea.E.From.Instrs)-1]
		if !edgeOnlyFails(w, f, ea.E.From.Succs[ea.E.Succ]) {
			return false, "the nil member does not lead to an error return"
		}
		h := loopOf(iff)
		if h == nil {
			return false, "the nil test is not in a loop"
		}
		trips, ok := unitLoopTripsX(w, iff, func(b *ssa.BasicBlock) bool { return edgeOnlyFails(w, f, b) })
		if !ok || trips != "len("+slice+")" {
			return false, "the loop with the nil test does not visit every member (trip count " + trips + ")"
		}
		if loopBlocks(h)[at.Block()] || !h.Dominates(at.Block()) {
			return false, "the members are not tested before the use"
		}
		return true, ""
	}
	return false, "no member of " + slice + " is tested for nil"
}

func init() {
	register("C20", "R12", "K1+K9", "lists of pointers taken from an answer are tested member by member for null before code that dereferences the members sees them", 2, func(c *Ctx) {
		w := c.W
		if f := c.fn("light/rpc", "Client.BlockResults"); f != nil {
			fk := funcKey(f)
			n := 0
			for _, call := range w.callsTo(f, "types#NewResults") {
				n++
				arg := w.expr(callArgs(call)[0])
				ok, why := allElemsNonNilBefore(w, f, arg, call)
				c.Check(ok, fk+" :: every tx result is tested for null before the results are hashed", w.ipos(call), "for each member: nil → error, before NewResults", why+": a null in txs_results is dereferenced by the hashing code")
			}
			c.Check(n == 1, fk+" :: results hashed once", w.pos(f.Pos()), "1", fmt.Sprintf("%d", n))
		}
		if f := c.fn("types", "Block.ValidateBasic"); f != nil {
			fk := funcKey(f)
			n := 0
			// in ValidateBasic itself or in a helper carved out of it: a method invoked on a value of the
			// Evidence interface type
			for _, g := range append([]*ssa.Function{f}, transparentBodies(f)...) {
				for _, b := range g.Blocks {
					for _, in := range b.Instrs {
						call, ok := in.(*ssa.Call)
						if !ok || !call.Call.IsInvoke() || call.Call.Method.Name() != "ValidateBasic" {
							continue
						}
						nt, isNamed := call.Call.Value.Type().(*types.Named)
						if !isNamed || nt.Obj().Name() != "Evidence" {
							continue
						}
						n++
						c.guards(g, call, fk+" :: validate a piece of evidence of the block", 0, guardNonNil("the list member is not nil", call.Call.Value))
					}
				}
			}
			c.Check(n == 1, fk+" :: evidence members validated", w.pos(f.Pos()), "1", fmt.Sprintf("%d", n))
		}
	})
}

// ------------------------------------------------------------------ C20.R14, R15, R16
// F72: the search methods are the plural siblings of Tx and Block and relayed the node's answer untouched.
// F74: BlockchainInfo compared header hashes only. F73: ConsensusParams without a height asked the node for a
// height no header exists for yet, so no honest answer was ever accepted.
func init() {
	item := func(method, list string) string {
		return `c\.next\.` + method + `\(.*?\)#0\.` + list + `\[` + fwdIdx + `\]`
	}
	upd := func(h string) string { return `c\.updateLightClientIfNeededTo\(ctx, ` + h + `\)` }
	// loopGuards: every back edge of the loop that holds `in` is behind each guard; the loop visits every
	// element of `list` unless the method fails; success returns that relay the answer lie behind the loop
	// (or on an edge `skip` allows)
	searchLoop := func(c *Ctx, f *ssa.Function, fk string, in ssa.Instruction, wantTrips *regexp.Regexp, skip *Guard, gs []Guard) {
		w := c.W
		hdr := loopOf(in)
		if hdr == nil {
			c.Fail(fk+" :: verification loop", w.ipos(in), "the items are not verified inside a loop over the answer's list")
			return
		}
		// counted on the first instruction of the loop's body (the verifying call itself may sit behind the
		// success of an earlier step of the same iteration)
		var first ssa.Instruction = in
		for _, sc := range hdr.Succs {
			if loopBlocks(hdr)[sc] && len(sc.Instrs) > 0 {
				first = sc.Instrs[0]
			}
		}
		trips, okT := unitLoopTripsX(w, first, func(b *ssa.BasicBlock) bool { return edgeOnlyFails(w, f, b) })
		c.Check(okT && wantTrips.MatchString(trips), fk+" :: every item of the answer is visited", w.ipos(in), "one iteration per item, left early only by failing", "the loop runs "+trips+" times or can be left early with success")
		for _, p := range hdr.Preds {
			if !hdr.Dominates(p) {
				continue
			}
			at := p.Instrs[len(p.Instrs)-1]
			for _, g := range gs {
				ok, path := c.ge().guardedEdge(f, p, hdr, g, 3)
				c.Check(ok, fk+" :: next item <= "+g.Name, w.ipos(at), "the loop only continues behind the check", "the loop continues to the next item without: "+g.Name+" via "+pathStr(w, path))
			}
		}
		n := 0
		for _, r := range returnsOf(f) {
			ret := r.(*ssa.Return)
			if len(ret.Results) != 2 || isNilConst(ret.Results[0]) {
				continue
			}
			n++
			if hdr.Dominates(ret.Block()) && !loopBlocks(hdr)[ret.Block()] {
				c.OK(fk+" :: relay behind the verification loop", w.ipos(ret), "after the loop")
				continue
			}
			if skip != nil {
				c.guards(f, ret, fk+" :: relay without verification", 0, *skip)
			} else {
				c.Fail(fk+" :: relay behind the verification loop", w.ipos(ret), "the answer is relayed on a path that does not pass the verification loop")
			}
		}
		c.Check(n >= 1, fk+" :: relaying return found", w.pos(f.Pos()), ">= 1", fmt.Sprintf("%d", n))
	}
	register("C20", "R14", "K1", "tx_search (with proofs) and block_search verify every item like Tx and Block do, and visit every item", 20, func(c *Ctx) {
		w := c.W
		if f := c.fn("light/rpc", "Client.TxSearch"); f != nil {
			fk := funcKey(f)
			R := item("TxSearch", "Txs")
			h := R + `\.Height`
			lb := upd(h) + `#0`
			np := guardAny("no proof was requested (or the node reported an error)", guardRe("np", `^false\(prove\)$`), guardRe("err", `^nonnil\(c\.next\.TxSearch\(.*?\)#1\)$`))
			gs := []Guard{
				guardRe("the item is present", `^nonnil\(`+R+`\)$`),
				guardCmp("height positive", h, ">", "0"),
				guardRe("light client verified the item's height", `^nil\(`+upd(h)+`#1\)$`),
				guardRe("inclusion proof validates against the verified data hash", `^nil\(`+R+`\.Proof\.Validate\(`+lb+`\.SignedHeader\.Header\.DataHash\)\)$`),
				guardRe("relayed tx bytes are the proven leaf", `^true\(bytes\.Equal\(`+R+`\.Tx, `+R+`\.Proof\.Data\)\)$`),
				guardRe("relayed hash is the hash of the proven tx", `^true\(bytes\.Equal\(`+R+`\.Hash, `+R+`\.Tx\.Hash\(\)\)\)$`),
				guardCmp("relayed index is the proven position", R+`\.Index`, "==", R+`\.Proof\.Proof\.Index`),
			}
			var in ssa.Instruction
			for _, dc := range w.deepCallsTo(f, 2, "light/rpc#Client.updateLightClientIfNeededTo") {
				in = dc.site
			}
			if in == nil {
				c.Fail(fk+" :: verification loop", w.pos(f.Pos()), "TxSearch relays transactions with proofs without consulting the light client")
			} else {
				searchLoop(c, f, fk, in, regexp.MustCompile(`^len\(c\.next\.TxSearch\(.*\)#0\.Txs\)$`), &np, gs)
			}
		}
		if f := c.fn("light/rpc", "Client.BlockSearch"); f != nil {
			fk := funcKey(f)
			R := item("BlockSearch", "Blocks")
			h := R + `\.Block\.Header\.Height`
			lb := upd(h) + `#0`
			gs := []Guard{
				guardRe("the item is present", `^nonnil\(`+R+`\)$`),
				guardRe("block id well formed", `^nil\(`+R+`\.BlockID\.ValidateBasic\(\)\)$`),
				guardRe("whole block internally consistent (content hashes match the header)", `^nil\(`+R+`\.Block\.ValidateBasic\(\)\)$`),
				guardRe("block id hash equals the block's hash", `^true\(bytes\.Equal\(`+R+`\.BlockID\.Hash, `+R+`\.Block\.Hash\(\)\)\)$`),
				guardRe("light client verified the item's height", `^nil\(`+upd(h)+`#1\)$`),
				guardRe("block hash equals the verified header's hash", `^true\(bytes\.Equal\(`+R+`\.Block\.Hash\(\), `+lb+`\.SignedHeader\.Header\.Hash\(\)\)\)$`),
				guardRe("part-set header equals the verified commit's", `^true\(`+R+`\.BlockID\.PartSetHeader\.Equals\(`+lb+`\.SignedHeader\.Commit\.BlockID\.PartSetHeader\)\)$`),
			}
			var in ssa.Instruction
			for _, dc := range w.deepCallsTo(f, 2, "light/rpc#Client.updateLightClientIfNeededTo") {
				in = dc.site
			}
			if in == nil {
				c.Fail(fk+" :: verification loop", w.pos(f.Pos()), "BlockSearch relays blocks without consulting the light client")
			} else {
				searchLoop(c, f, fk, in, regexp.MustCompile(`^len\(c\.next\.BlockSearch\(.*\)#0\.Blocks\)$`), nil, gs)
			}
		}
	})
	register("C20", "R15", "K1", "BlockchainInfo relays a meta only with the verified part-set header and within the heights asked for", 4, func(c *Ctx) {
		w := c.W
		f := c.fn("light/rpc", "Client.BlockchainInfo")
		if f == nil {
			return
		}
		fk := funcKey(f)
		R := item("BlockchainInfo", "BlockMetas")
		h := R + `\.Header\.Height`
		gs := []Guard{
			guardRe("part-set header equals the verified commit's", `^true\(`+R+`\.BlockID\.PartSetHeader\.Equals\(`+upd(h)+`#0\.SignedHeader\.Commit\.BlockID\.PartSetHeader\)\)$`),
			guardCmp("not below the lowest height asked for", h, ">=", "minHeight"),
			guardAny("not above the highest height asked for (when one was given)", guardCmp("none", "maxHeight", "<=", "0"), guardCmp("le", h, "<=", "maxHeight")),
		}
		n := 0
		for _, u := range w.callsTo(f, "light/rpc#Client.updateLightClientIfNeededTo") {
			hdr := loopOf(u)
			if hdr == nil {
				continue
			}
			for _, p := range hdr.Preds {
				if !hdr.Dominates(p) {
					continue
				}
				n++
				at := p.Instrs[len(p.Instrs)-1]
				for _, g := range gs {
					ok, path := c.ge().guardedEdge(f, p, hdr, g, 2)
					c.Check(ok, fk+" :: next meta <= "+g.Name, w.ipos(at), "the loop only continues behind the check", "the loop continues to the next meta without: "+g.Name+" via "+pathStr(w, path))
				}
			}
		}
		c.Check(n >= 1, fk+" :: verification loop found", w.pos(f.Pos()), ">= 1 back edge", fmt.Sprintf("%d", n))
	})
	register("C20", "R16", "K1", "ConsensusParams asks the node for a definite height (a missing one is resolved to the latest verified height first)", 2, func(c *Ctx) {
		w := c.W
		f := c.fn("light/rpc", "Client.ConsensusParams")
		if f == nil {
			return
		}
		fk := funcKey(f)
		n := 0
		for _, call := range w.callsMatching(f, `^c\.next\.ConsensusParams\(`) {
			a := callArgs(call)
			if len(a) != 2 {
				continue
			}
			n++
			// the height handed to the node is non-nil on every way to the call: an address, or the caller's
			// pointer where it was tested
			var bad []string
			var resolved []ssa.Value // addresses a missing height was resolved to
			var visit func(v ssa.Value, pred, blk *ssa.BasicBlock, at *ssa.BasicBlock, d int)
			visit = func(v ssa.Value, pred, blk *ssa.BasicBlock, at *ssa.BasicBlock, d int) {
				switch x := v.(type) {
				case *ssa.Phi:
					if d < 3 {
						for i, e := range x.Edges {
							visit(e, x.Block().Preds[i], x.Block(), at, d+1)
						}
						return
					}
				case *ssa.FieldAddr:
					resolved = append(resolved, x.X)
					return
				case *ssa.Alloc, *ssa.IndexAddr:
					return
				case *ssa.Extract:
					// the height comes out of a helper of this package that answers (height, error): on its
					// success returns the height is non-nil in the helper's own terms, and this function uses
					// it only behind the helper's nil error
					if hc, isCall := x.Tuple.(*ssa.Call); isCall && d < 3 {
						if h := staticCallee(hc); h != nil && h.Blocks != nil && pkgPathOf(h) == pkgPathOf(f) && hasSuccessIndicator(h) {
							okErr := false
							for _, a := range dominatingAtoms(at) {
								if a.Kind == "nil" && a.V != nil {
									if ex2, isEx := a.V.(*ssa.Extract); isEx && ex2.Tuple == x.Tuple && ex2.Index == h.Signature.Results().Len()-1 {
										okErr = true
									}
								}
							}
							if okErr {
								for _, r := range returnsOf(h) {
									ret := r.(*ssa.Return)
									if len(ret.Results) <= x.Index || !isNilConst(ret.Results[len(ret.Results)-1]) {
										continue
									}
									visit(ret.Results[x.Index], nil, nil, ret.Block(), d+1)
								}
								return
							}
						}
					}
				}
				if pred != nil && edgeNilness(pred, blk, v) == 1 {
					return
				}
				if pred == nil {
					for _, a := range dominatingAtoms(at) {
						if a.Kind == "nonnil" && a.V != nil && sameValue(a.V, v) {
							return
						}
					}
				}
				bad = append(bad, w.expr(v))
			}
			visit(a[1], nil, nil, call.Block(), 0)
			c.Check(len(bad) == 0, fk+" :: ask the node for the parameters of a definite height", w.ipos(call), "non-nil height", "the node is asked without a height (it answers for the height it is about to decide, for which no header can be verified): "+strings.Join(bad, ", "))
			// and the height it is resolved to is one the light client verified
			for _, base := range resolved {
				s := w.expr(base)
				c.Check(regexp.MustCompile(`^c\.updateLightClientIfNeededTo\(ctx, nil\)#0(\.SignedHeader(\.Header)?)?$`).MatchString(s), fk+" :: a missing height is resolved to the latest verified one", w.ipos(call), "height of updateLightClientIfNeededTo(ctx, nil)", "resolved to "+s)
			}
			c.Check(len(resolved) >= 1, fk+" :: a missing height is resolved", w.ipos(call), ">= 1 resolution", "no path resolves a missing height")
		}
		c.Check(n == 1, fk+" :: request to the node found", w.pos(f.Pos()), "1", fmt.Sprintf("%d", n))
	})
}
