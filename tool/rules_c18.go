package main

import (
	"fmt"
	"regexp"
	"sort"
	"strings"

	"golang.org/x/tools/go/ssa"
)

var blockKeyFamilies = []string{"calcBlockPartKey", "calcBlockMetaKey", "calcBlockHashKey", "calcBlockCommitKey", "calcSeenCommitKey"}

// keyFamiliesIn lists the key-constructor families used by calls matching callRe in f (and closures / one level of callees).
func keyFamiliesIn(w *World, f *ssa.Function, callRe string) map[string]bool {
	out := map[string]bool{}
	var visit func(g *ssa.Function, d int)
	visit = func(g *ssa.Function, d int) {
		// writes of g itself or of helpers introduced later, rendered in g's terms
		for _, dc := range w.deepCallsMatching(g, 2, callRe) {
			s := dc.str()
			for _, fam := range blockKeyFamilies {
				if strings.Contains(s, "store."+fam+"(") {
					out[fam] = true
				}
			}
		}
		if d > 0 {
			for _, call := range callInstrs(g) {
				if h := staticCallee(call); h != nil && h.Blocks != nil && relPkg(h) == "store" && !isNewFunc(h) {
					visit(h, d-1)
				}
			}
		}
	}
	visit(f, 1)
	return out
}

func init() {
	// ------------------------------------------------------------------ C18.R1
	register("C18", "R1", "K2", "SaveBlock: parts, then meta, hash index, commit, seen commit, then the in-memory range, and the synced range descriptor last; every write must succeed", 14, func(c *Ctx) {
		w := c.W
		f := c.fn("store", "BlockStore.SaveBlock")
		if f == nil {
			return
		}
		fk := funcKey(f)
		inner := map[ssa.CallInstruction]ssa.CallInstruction{} // site in f -> the matched write (in f or in a later-introduced helper)
		find := func(re string) ssa.CallInstruction {
			cs := w.deepCallsMatching(f, 2, re)
			if len(cs) != 1 {
				c.Fail(fk+" :: single step "+re, w.pos(f.Pos()), fmt.Sprintf("%d call sites match %s", len(cs), re))
				return nil
			}
			inner[cs[0].site] = cs[0].call
			return cs[0].site
		}
		steps := []struct {
			name, re string
		}{
			{"parts", `^bs\.saveBlockPart\(block\.Header\.Height, |^bs\.db\.Set\(store\.calcBlockPartKey\(block\.Header\.Height, `}, // through the part helper, or written in the loop itself
			{"meta", `^bs\.db\.Set\(store\.calcBlockMetaKey\(block\.Header\.Height\), `},
			{"hash index", `^bs\.db\.Set\(store\.calcBlockHashKey\(block\.Hash\(\)\), `},
			{"commit of the previous height", `^bs\.db\.Set\(store\.calcBlockCommitKey\(\(block\.Header\.Height - 1\)\), `},
			{"seen commit", `^bs\.db\.Set\(store\.calcSeenCommitKey\(block\.Header\.Height\), `},
			{"range descriptor", `^bs\.saveState\(\)$`},
		}
		var calls []ssa.CallInstruction
		for _, s := range steps {
			calls = append(calls, find(s.re))
		}
		if calls[0] != nil && calls[1] != nil {
			// all parts (the whole loop) come before the meta record
			c.guards(f, calls[1], fk+" :: meta after all parts", 0, guardCmp("part loop ran to the part count", `phi\(\(phi:i \+ 1\)\|0\)`, ">=", `blockParts\.Total\(\)`))
		}
		for i := 1; i+1 < len(calls); i++ {
			if calls[i] == nil || calls[i+1] == nil {
				continue
			}
			a := calls[i]
			ok, _ := mustPrecede(f, calls[i+1], func(in ssa.Instruction) bool { return in == ssa.Instruction(a) })
			c.Check(ok, fk+" :: "+steps[i].name+" before "+steps[i+1].name, w.ipos(calls[i+1]), "ordered", steps[i+1].name+" can be written before "+steps[i].name)
		}
		// nothing is written after the descriptor
		if last := calls[len(calls)-1]; last != nil {
			qq := &pathQ{target: func(in ssa.Instruction) bool {
				cc, ok := in.(ssa.CallInstruction)
				if ok && regexp.MustCompile(`\.db\.(Set|SetSync|Delete)\(|\.saveBlockPart\(|\.SaveSeenCommit\(`).MatchString(w.callStr(cc)) {
					return true
				}
				// a later-introduced helper that writes
				if ok {
					if h := staticCallee(cc); h != nil && isNewFunc(h) && len(w.deepCallsMatching(h, 1, `\.db\.(Set|SetSync|Delete)\(`)) > 0 {
						return true
					}
				}
				return false
			}}
			hit, _ := qq.reach(last.Block(), instrIndex(last)+1)
			c.Check(hit == nil, fk+" :: the range descriptor is the last write", w.ipos(last), "no store write after saveState", "a write happens after the range descriptor was persisted: a crash in between leaves the advertised tip incomplete ("+describeHit(w, hit)+")")
			// in-memory height is updated before it is persisted
			okMem, _ := mustPrecede(f, last, func(in ssa.Instruction) bool {
				st, ok := in.(*ssa.Store)
				return ok && w.expr(st.Addr) == "bs.height" && w.expr(st.Val) == "block.Header.Height"
			})
			c.Check(okMem, fk+" :: height advanced before the descriptor is saved", w.ipos(last), "bs.height = block.Height first", "descriptor saved without the new height")
		}
		// each Set must succeed (panic otherwise): the next step is behind its nil edge
		for i := 1; i+1 < len(calls); i++ {
			if calls[i] == nil || calls[i+1] == nil {
				continue
			}
			prev := calls[i]
			if in := inner[prev]; in != nil && in != prev {
				// the write sits in a helper: the helper returns only behind the write's nil error (it panics otherwise)
				h := in.Parent()
				okH := true
				for _, r := range returnsOf(h) {
					if ok, _ := c.ge().guardedLocal(h, r, Guard{Name: "written", Match: func(w *World, f *ssa.Function, a Atom) bool { return a.Kind == "nil" && atomCall(a) == in }}, 1); !ok {
						okH = false
					}
				}
				c.Check(okH, fk+" :: "+steps[i+1].name+" <= "+steps[i].name+" was written", w.ipos(calls[i+1]), "the write helper returns only on success", "the write helper can return although the write failed")
				continue
			}
			c.guards(f, calls[i+1], fk+" :: "+steps[i+1].name, 0, Guard{Name: steps[i].name + " was written", Match: func(w *World, f *ssa.Function, a Atom) bool {
				return a.Kind == "nil" && atomCall(a) == prev
			}})
		}
		// contiguity and completeness preconditions
		if calls[0] != nil {
			c.guards(f, calls[0], fk+" :: first write", 0,
				guardRe("part set complete", `^true\(blockParts\.IsComplete\(\)\)$`),
				guardAny("block is the next height (or the store is empty)", guardCmp("a", `block\.Header\.Height`, "==", `\(bs\.Height\(\) \+ 1\)`), guardCmp("b", `bs\.Base\(\)`, "<=", "0")))
		}
		// every part index 0..Total-1 is stored under its own index
		if calls[0] != nil {
			got := w.callStr(calls[0])
			idx := `phi((phi:i + 1)|0)`
			okIdx := got == "bs.saveBlockPart(block.Header.Height, "+idx+", blockParts.GetPart("+idx+"))"
			if !okIdx {
				// the part helper written out in the loop: key of index i, value encoded from GetPart(i)
				okIdx = strings.HasPrefix(got, "bs.db.Set(store.calcBlockPartKey(block.Header.Height, "+idx+"), ") && strings.Contains(got, "blockParts.GetPart("+idx+").ToProto()")
			}
			c.Check(okIdx, fk+" :: part i stored under index i", w.ipos(calls[0]), "saveBlockPart(h, i, GetPart(i))", got)
			c.guards(f, calls[0], fk+" :: part loop", 0, guardCmp("i below the part count", `phi\(\(phi:i \+ 1\)\|0\)`, "<", `blockParts\.Total\(\)`))
		}
		if g := c.fn("store", "SaveBlockStoreState"); g != nil {
			c.Check(len(w.callsMatching(g, `\.SetSync\(`)) == 1 && len(w.callsMatching(g, `\.Set\(`)) == 0, funcKey(g)+" :: descriptor is written with SetSync", w.pos(g.Pos()), "SetSync", "the range descriptor is not written synchronously")
		}
	})

	// ------------------------------------------------------------------ C18.R2
	register("C18", "R2", "K2+K11", "pruning: the base is moved and persisted before a batch is written; the published base is above every height in the batch; the final flush always happens; deletes only through the batch", 9, func(c *Ctx) {
		w := c.W
		f := c.fn("store", "BlockStore.PruneBlocks")
		if f == nil {
			return
		}
		fk := funcKey(f)
		var flush *ssa.Function
		for _, a := range f.AnonFuncs {
			if len(w.callsMatching(a, `\.WriteSync\(\)$`)) > 0 {
				flush = a
			}
		}
		if flush == nil {
			// the flush step as a named function of the store instead of a closure
			for _, call := range callInstrs(f) {
				if h := staticCallee(call); h != nil && h.Blocks != nil && relPkg(h) == "store" && len(h.Params) > 0 && len(w.callsMatching(h, `\.WriteSync\(\)$`)) > 0 {
					flush = h
				}
			}
		}
		if !c.Check(flush != nil, fk+" :: flush step found", w.pos(f.Pos()), "closure writing the batch", "no closure that writes the batch found") {
			return
		}
		for _, ws := range w.callsMatching(flush, `\.WriteSync\(\)$`) {
			ok1, _ := mustPrecede(flush, ws, func(in ssa.Instruction) bool {
				st, ok := in.(*ssa.Store)
				return ok && strings.HasSuffix(w.expr(st.Addr), ".base") && st.Val == ssa.Value(flush.Params[len(flush.Params)-1])
			})
			ok2, _ := mustPrecede(flush, ws, w.callPred("store#BlockStore.saveState"))
			c.Check(ok1 && ok2, fk+" :: base moved and persisted before the batch is written", w.ipos(ws), "bs.base = base; saveState(); batch.WriteSync()", "the batch can be written before the new base is persisted")
		}
		c.Check(c.ge().ensures(flush, guardRe("batch written", `^nil\(\w+\.WriteSync\(\)\)$`), 2), fk+" :: flush reports batch write errors", w.pos(flush.Pos()), "nil only if WriteSync succeeded", "flush can succeed although the batch write failed")
		// arguments of the flush calls
		n := 0
		for _, call := range callInstrs(f) {
			if staticCallee(call) != flush {
				continue
			}
			n++
			arg := w.expr(call.Common().Args[len(call.Common().Args)-1])
			inLoop := false
			for b := call.Block(); b != nil; b = b.Idom() {
				if b.Comment == "for.body" {
					inLoop = true
				}
			}
			if inLoop {
				c.Check(regexp.MustCompile(`^\(phi\(\(phi:h \+ 1\)\|bs\.base\) \+ 1\)$`).MatchString(arg), fk+" :: intermediate flush publishes the first height NOT in the batch (h+1)", w.ipos(call), arg, "intermediate flush publishes base "+arg+": a height whose keys are deleted by that same batch")
			} else {
				c.Check(arg == "height", fk+" :: final flush publishes the retain height", w.ipos(call), "height", "final flush publishes "+arg)
			}
		}
		c.Check(n == 2, fk+" :: intermediate and final flush", w.pos(f.Pos()), "two flush sites", fmt.Sprintf("%d flush sites", n))
		// success only after the final flush
		c.Check(c.ge().ensures(f, Guard{Name: "final flush done", Match: func(w *World, ff *ssa.Function, a Atom) bool {
			cl := atomCall(a)
			return a.Kind == "nil" && cl != nil && staticCallee(cl) == flush && w.expr(cl.Common().Args[len(cl.Common().Args)-1]) == "height"
		}}, 0), fk+" :: success only after the final flush to the retain height", w.pos(f.Pos()), "every nil return is behind flush(batch, height) = nil", "PruneBlocks can return success without the final flush: base would stay below the retain height or on a deleted block")
		// deletes only through the batch; retain height within range
		direct := len(w.callsMatching(f, `^bs\.db\.Delete\(`))
		c.Check(direct == 0, fk+" :: deletes only through the batch", w.pos(f.Pos()), "no direct db.Delete", fmt.Sprintf("%d direct deletes", direct))
		for _, d := range w.callsMatching(f, `\.Delete\(store\.calcBlockMetaKey\(`) {
			c.guards(f, d, fk+" :: delete a height", 0,
				guardCmp("height below the retain height", `phi\(\(phi:h \+ 1\)\|bs\.base\)`, "<", "height"),
				guardCmp("retain height not above the store height", "height", "<=", `bs\.height`),
				guardCmp("retain height not below the base", "height", ">=", `bs\.base`))
		}
	})

	// ------------------------------------------------------------------ C18.R3
	register("C18", "R3", "K5+K3", "the key families SaveBlock writes are exactly those PruneBlocks deletes; only the block store builds these keys", 7, func(c *Ctx) {
		w := c.W
		sv, pr := c.fn("store", "BlockStore.SaveBlock"), c.fn("store", "BlockStore.PruneBlocks")
		if sv == nil || pr == nil {
			return
		}
		wr := keyFamiliesIn(w, sv, `\.db\.Set\(`)
		del := keyFamiliesIn(w, pr, `\.Delete\(`)
		for _, fam := range blockKeyFamilies {
			c.Check(wr[fam], "store.BlockStore.SaveBlock writes "+fam, w.pos(sv.Pos()), "written", "key family "+fam+" is not written by SaveBlock")
			c.Check(del[fam], "store.BlockStore.PruneBlocks deletes "+fam, w.pos(pr.Pos()), "deleted", "key family "+fam+" is written by SaveBlock but never pruned")
		}
		// part keys are deleted for every part index of the block
		okParts := false
		for _, ea := range condEdgesDeep(pr) {
			if guardCmp("p", `phi\(\(phi:\w+ \+ 1\)\|0\)`, "<", `.*\.BlockID\.PartSetHeader\.Total`).Match(w, pr, ea.A) {
				okParts = true
			}
		}
		c.Check(okParts, "store.BlockStore.PruneBlocks deletes every part of a pruned block", w.pos(pr.Pos()), "p from 0 to PartSetHeader.Total-1", "part deletion loop bound changed")
		var foreign []string
		for _, f := range w.Funcs {
			if relPkg(f) == "store" {
				continue
			}
			for _, call := range callInstrs(f) {
				s := w.callStr(call)
				for _, fam := range blockKeyFamilies {
					if strings.Contains(s, "store."+fam+"(") {
						foreign = append(foreign, funcKey(f))
					}
				}
			}
		}
		sort.Strings(foreign)
		c.Check(len(foreign) == 0, "block-store keys are only built inside package store", "store/store.go", "no foreign key construction", "block-store keys built in: "+strings.Join(foreign, ", "))
	})

	// ------------------------------------------------------------------ C18.R5
	register("C18", "R5", "K1", "state store: records are written under the right heights; pruning keeps the last-changed and checkpoint records the retained heights depend on", 10, func(c *Ctx) {
		w := c.W
		if f := c.fn("state", "dbStore.save"); f != nil {
			fk := funcKey(f)
			var cp []string
			for _, call := range w.callsTo(f, "state#dbStore.saveConsensusParamsInfo") {
				cp = append(cp, w.callStr(call))
			}
			ok := len(cp) == 1 && cp[0] == "store.saveConsensusParamsInfo(phi((state.LastBlockHeight + 1)|state.InitialHeight), state.LastHeightConsensusParamsChanged, state.ConsensusParams)"
			c.Check(ok, fk+" :: consensus params stored under the next height (initial height for the first block)", w.pos(f.Pos()), "saveConsensusParamsInfo(nextHeight, lastChanged, params) after the initial-height adjustment", strings.Join(cp, " ; "))
			// descriptor (state bytes) last, synced
			for _, ss := range w.callsMatching(f, `\.SetSync\(`) {
				ok1, _ := mustPrecede(f, ss, w.callPred("state#dbStore.saveValidatorsInfo"))
				ok2, _ := mustPrecede(f, ss, w.callPred("state#dbStore.saveConsensusParamsInfo"))
				c.Check(ok1 && ok2, fk+" :: state record written (synced) after validator and param records", w.ipos(ss), "ordered", "the state record can be written before the records it refers to")
				c.guards(f, ss, fk+" :: state record", 0, guardCallOK("validator record written", "state#dbStore.saveValidatorsInfo"), guardCallOK("params record written", "state#dbStore.saveConsensusParamsInfo"))
			}
		}
		if f := c.fn("state", "dbStore.PruneStates"); f != nil {
			fk := funcKey(f)
			keep := `make\(map\[int64\]bool\)\[phi\(\(phi:h - 1\)\|\(to - 1\)\)\]`
			for _, d := range w.callsMatching(f, `\.Delete\(state\.calcValidatorsKey\(`) {
				c.guards(f, d, fk+" :: delete a validators record", 0, guardRe("height not in the keep set", `^false\(`+keep+`\)$`), guardCmp("height within [from, to)", `phi\(\(phi:h - 1\)\|\(to - 1\)\)`, ">=", "from"))
			}
			for _, d := range w.callsMatching(f, `\.Delete\(state\.calcConsensusParamsKey\(`) {
				c.guards(f, d, fk+" :: delete a params record", 0, guardRe("height not in the keep set", `^false\(`+keep+`\)$`))
			}
			// the keep sets contain the last-changed / last-stored heights of the retain height
			var kv, kp []string
			for _, b := range f.Blocks {
				for _, in := range b.Instrs {
					if mu, ok := in.(*ssa.MapUpdate); ok {
						if v, isC := boolConst(mu.Value); isC && v {
							k := w.expr(mu.Key)
							if strings.Contains(k, "loadValidatorsInfo") || strings.Contains(k, "lastStoredHeightFor") {
								kv = append(kv, k)
							}
							if strings.Contains(k, "loadConsensusParamsInfo") {
								kp = append(kp, k)
							}
						}
					}
				}
			}
			okV := false
			okCk := false
			for _, k := range kv {
				if k == "state.loadValidatorsInfo(store.db, to)#0.LastHeightChanged" {
					okV = true
				}
				if k == "state.lastStoredHeightFor(to, state.loadValidatorsInfo(store.db, to)#0.LastHeightChanged)" {
					okCk = true
				}
			}
			c.Check(okV, fk+" :: keeps the record where the retained validators last changed", w.pos(f.Pos()), "keep[valInfo(to).LastHeightChanged]", "the last-changed validator record of the retain height is not kept")
			c.Check(okCk, fk+" :: keeps the checkpoint record the retain height is reconstructed from", w.pos(f.Pos()), "keep[lastStoredHeightFor(to, lastChanged)]", "the checkpoint record needed for the retain height is not kept")
			okP := false
			for _, k := range kp {
				if k == "store.loadConsensusParamsInfo(to)#0.LastHeightChanged" {
					okP = true
				}
			}
			c.Check(okP, fk+" :: keeps the record where the retained params last changed", w.pos(f.Pos()), "keep[paramsInfo(to).LastHeightChanged]", "the last-changed params record of the retain height is not kept")
			// a kept pointer record is materialised before older records go away
			c.Check(len(w.callsMatching(f, `\.Set\(state\.calcValidatorsKey\(`)) == 1 && len(w.callsMatching(f, `\.Set\(state\.calcConsensusParamsKey\(`)) == 1, fk+" :: kept pointer records are rewritten as full records", w.pos(f.Pos()), "Set(validators) and Set(params) for kept heights", "kept records are no longer materialised")
			c.Check(c.ge().ensures(f, guardRe("final batch written", `^nil\(.*\.WriteSync\(\)\)$`), 2), fk+" :: success only after the final batch is written", w.pos(f.Pos()), "guarded", "PruneStates can succeed without writing the final batch")
		}
	})
}

// ------------------------------------------------------------------ C18.R6
// What a prune removes and in which order across the two stores: every per-height key PruneBlocks deletes
// is keyed by the height being pruned (the loop height, the one whose meta was loaded) — never by the
// retain height, which must survive; and consensus prunes the block store first and the state store only
// after that succeeded (the state store keeps what the block store still needs).
func init() {
	register("C18", "R6", "K1+K2", "a prune deletes only entries of the heights below the retain height, block store first, state store after it succeeded", 7, func(c *Ctx) {
		w := c.W
		if f := c.fn("store", "BlockStore.PruneBlocks"); f != nil {
			fk := funcKey(f)
			loopH := ""
			for _, call := range w.deepCallsTo(f, 1, "store#BlockStore.LoadBlockMeta") {
				loopH = call.arg(0)
			}
			c.Check(loopH != "" && loopH != "height", fk+" :: loads the meta of the height being pruned", w.pos(f.Pos()), loopH, "cannot identify the loop height")
			n := 0
			for _, d := range w.deepCallsTo(f, 1, "github.com/tendermint/tm-db#Batch.Delete") {
				key := d.arg(0)
				m := regexp.MustCompile(`^store\.(calcBlockMetaKey|calcBlockCommitKey|calcSeenCommitKey|calcBlockPartKey)\((.*)\)$`).FindStringSubmatch(key)
				if m == nil {
					continue
				}
				n++
				arg := m[2]
				if m[1] == "calcBlockPartKey" {
					if i := strings.LastIndex(arg, ", "); i > 0 {
						arg = arg[:i]
					}
				}
				c.Check(arg == loopH, fmt.Sprintf("%s :: delete %s of the height being pruned", fk, m[1]), w.ipos(d.site), key, "deletes "+key+": not the entry of the loop height ("+loopH+") — an entry of a height that is kept is removed, or one of a pruned height is left")
			}
			c.Check(n == 4, fk+" :: four per-height key families deleted", w.pos(f.Pos()), "4", fmt.Sprintf("%d", n))
		}
		if f := c.fn("consensus", "State.pruneBlocks"); f != nil {
			fk := funcKey(f)
			ps := w.callsMatching(f, `\.PruneStates\(`)
			c.Check(len(ps) == 1, fk+" :: prunes the state store", w.pos(f.Pos()), "1 call", fmt.Sprintf("%d PruneStates calls", len(ps)))
			for _, call := range ps {
				c.guards(f, call, fk+" :: prune the state store", 0, guardRe("the block store was pruned first and that succeeded", `^nil\(cs\.blockStore\.PruneBlocks\(retainHeight\)#1\)$`))
				a := callArgs(call)
				c.Check(len(a) == 2 && strings.HasSuffix(w.expr(a[0]), ".Base()") && w.expr(a[1]) == "retainHeight", fk+" :: state store pruned from the block store's base up to the retain height", w.ipos(call), w.callStr(call), w.callStr(call))
			}
		}
	})
}

// ------------------------------------------------------------------ C18.R9 .. R11 (round-4 seeds)
// R9: the "last changed" heights a state carries are pointers the state store follows: save() writes a full
// validator / parameter record only at the height they name and pointer records elsewhere. A freshly built
// state must therefore name heights at which a full record is (going to be) written:
//   - the genesis state: both pointers are the chain's initial height (where save() writes the first full
//     records) — with any other value every height of a chain with initial_height > 1 resolves to nothing;
//   - the state built by state sync: LastHeightValidatorsChanged is the height of the very light block whose
//     validator set becomes NextValidators (Bootstrap stores that set in full at that height), and
//     LastHeightConsensusParamsChanged is the height whose parameters were fetched.
func init() {
	register("C18", "R9", "K5", "freshly built states (genesis, state sync) name, as last-changed heights, heights at which the full record is written", 5, func(c *Ctx) {
		w := c.W
		if f := c.fn("state", "MakeGenesisState"); f != nil {
			fk := funcKey(f)
			for _, field := range []string{"LastHeightValidatorsChanged", "LastHeightConsensusParamsChanged", "InitialHeight"} {
				n := 0
				for _, fs := range w.fieldStoresIn(f, "state", "State", field) {
					n++
					got := w.expr(fs.Store.Val)
					c.Check(got == "genDoc.InitialHeight", fk+" :: "+field, w.ipos(fs.Store), "genDoc.InitialHeight", field+" = "+got+": on a chain with initial_height > 1 the records of all heights up to the first change point at a height that has no record")
				}
				c.Check(n == 1, fk+" :: sets "+field, w.pos(f.Pos()), "1 store", fmt.Sprintf("%d", n))
			}
		}
		if f := c.fn("statesync", "lightClientStateProvider.State"); f != nil {
			fk := funcKey(f)
			val := func(field string) string {
				var out []string
				for _, fs := range w.fieldStoresIn(f, "state", "State", field) {
					out = append(out, w.expr(fs.Store.Val))
				}
				return strings.Join(out, " | ")
			}
			nv, hv := val("NextValidators"), val("LastHeightValidatorsChanged")
			m := regexp.MustCompile(`^(.*)\.ValidatorSet$`).FindStringSubmatch(nv)
			c.Check(m != nil && hv == m[1]+".SignedHeader.Header.Height", fk+" :: last-changed height of the validators is the height of the block NextValidators come from", w.pos(f.Pos()), "NextValidators = B.ValidatorSet and LastHeightValidatorsChanged = B.Height for the same light block B", "NextValidators = "+nv+", LastHeightValidatorsChanged = "+hv+": the next save points the following heights at a record that holds another set")
			hp := val("LastHeightConsensusParamsChanged")
			asked := ""
			for _, dc := range w.deepCallsMatching(f, 0, `\.ConsensusParams\(ctx, `) {
				asked = dc.arg(1)
			}
			c.Check(asked != "" && (asked == "&"+hp || asked == hp), fk+" :: last-changed height of the parameters is the height they were fetched for", w.pos(f.Pos()), "ConsensusParams(ctx, &H) and LastHeightConsensusParamsChanged = H", "parameters fetched for "+asked+", LastHeightConsensusParamsChanged = "+hp)
		}
	})

	// R10: "move the base before deleting a batch" has a reader side: whoever reads the base and then loads
	// that height must do both under the store's lock, or a prune in between moves the base and deletes the
	// height just read (LoadBaseMeta answers nil for a store that holds blocks all the time).
	register("C18", "R10", "K6", "LoadBaseMeta reads the base and loads that height's meta inside one critical section of the store's mutex", 2, func(c *Ctx) {
		w := c.W
		f := c.fn("store", "BlockStore.LoadBaseMeta")
		if f == nil {
			return
		}
		fk := funcKey(f)
		n := 0
		for _, call := range w.callsTo(f, "store#BlockStore.LoadBlockMeta") {
			n++
			ok, why := w.holdsLock(f, call, regexp.MustCompile(`\.mtx$`), 0)
			c.Check(ok, fk+" :: load of the base height under the store's mutex", w.ipos(call), "mtx held (read)", "not held: "+why+": a concurrent prune can move the base and delete this height between the read of the base and the load")
			arg := w.expr(callArgs(call)[0])
			c.Check(regexp.MustCompile(`^\w+\.base$`).MatchString(arg), fk+" :: the height loaded is the base field read in the same critical section", w.ipos(call), "bs.base", "loads "+arg+" (a copy taken outside the lock can be stale)")
		}
		c.Check(n == 1, fk+" :: load found", w.pos(f.Pos()), "1", fmt.Sprintf("%d", n))
	})
}
