package main

import (
	"fmt"
	"go/constant"
	"go/token"
	"go/types"
	"regexp"
	"sort"
	"strings"

	"golang.org/x/tools/go/ssa"
)

// ---------------------------------------------------------------------------
// Calls

func rawCallInstrs(f *ssa.Function) []ssa.CallInstruction {
	var out []ssa.CallInstruction
	for _, b := range f.Blocks {
		for _, in := range b.Instrs {
			if c, ok := in.(ssa.CallInstruction); ok {
				out = append(out, c)
			}
		}
	}
	return out
}

// callInstrs lists the call instructions of f and of the transparent helpers it calls (transparent.go).
func callInstrs(f *ssa.Function) []ssa.CallInstruction {
	out := rawCallInstrs(f)
	for _, h := range transparentBodies(f) {
		out = append(out, rawCallInstrs(h)...)
	}
	return out
}

func derefNamed(t types.Type) *types.Named {
	if t == nil {
		return nil
	}
	if p, ok := t.Underlying().(*types.Pointer); ok {
		t = p.Elem()
	}
	if p, ok := t.(*types.Pointer); ok {
		t = p.Elem()
	}
	n, _ := t.(*types.Named)
	if n != nil {
		n = n.Origin()
	}
	return n
}

func relPath(p *types.Package) string {
	if p == nil {
		return ""
	}
	return strings.TrimPrefix(strings.TrimPrefix(p.Path(), modPath), "/")
}

func shortPath(p *types.Package) string {
	if p == nil {
		return ""
	}
	if strings.HasPrefix(p.Path(), modPath) {
		return relPath(p)
	}
	return p.Path()
}

// unwrapSynthetic follows bound-method wrappers and thunks to the declared function.
func unwrapSynthetic(f *ssa.Function) *ssa.Function {
	for i := 0; f != nil && f.Synthetic != "" && i < 4; i++ {
		if strings.HasPrefix(f.Synthetic, "bound method wrapper") || strings.HasPrefix(f.Synthetic, "thunk") || strings.HasPrefix(f.Synthetic, "wrapper") {
			if obj, ok := f.Object().(*types.Func); ok && f.Prog != nil {
				if d := f.Prog.FuncValue(obj); d != nil && d != f {
					f = d
					continue
				}
			}
			// fall back: single call inside wrapper
			var tgt *ssa.Function
			for _, b := range f.Blocks {
				for _, in := range b.Instrs {
					if c, ok := in.(ssa.CallInstruction); ok {
						if sc := c.Common().StaticCallee(); sc != nil {
							tgt = sc
						}
					}
				}
			}
			if tgt == nil {
				return f
			}
			f = tgt
			continue
		}
		break
	}
	return f
}

// staticCallee returns the declared function a call statically resolves to (through wrappers and
// immediately-invoked closures), or nil.
func staticCallee(call ssa.CallInstruction) *ssa.Function {
	c := call.Common()
	if c.IsInvoke() {
		return nil
	}
	if f := c.StaticCallee(); f != nil {
		return unwrapSynthetic(f)
	}
	return nil
}

// calleeDesc describes a call target: package (module-relative or full), receiver type name, name.
type calleeDesc struct {
	Pkg, Recv, Name string
	RecvType        types.Type // named receiver type (interface for invoke)
	Invoke          bool
}

func describeCallee(call ssa.CallInstruction) (calleeDesc, bool) {
	c := call.Common()
	if c.IsInvoke() {
		d := calleeDesc{Name: c.Method.Name(), Invoke: true, RecvType: c.Value.Type()}
		if n := derefNamed(c.Value.Type()); n != nil {
			d.Recv = n.Obj().Name()
			d.Pkg = shortPath(n.Obj().Pkg())
		} else if c.Method.Pkg() != nil {
			d.Pkg = shortPath(c.Method.Pkg())
		}
		return d, true
	}
	f := c.StaticCallee()
	if f == nil {
		if b, ok := c.Value.(*ssa.Builtin); ok {
			return calleeDesc{Pkg: "builtin", Name: b.Name()}, true
		}
		return calleeDesc{}, false
	}
	f = unwrapSynthetic(f)
	d := calleeDesc{Name: f.Name()}
	if f.Signature != nil && f.Signature.Recv() != nil {
		if n := derefNamed(f.Signature.Recv().Type()); n != nil {
			d.Recv = n.Obj().Name()
			d.Pkg = shortPath(n.Obj().Pkg())
			d.RecvType = n
		}
	} else if f.Pkg != nil {
		d.Pkg = shortPath(f.Pkg.Pkg)
	} else if f.Parent() != nil {
		d.Pkg = relPkg(f)
		d.Name = funcKey(f)
	} else if obj := f.Object(); obj != nil {
		d.Pkg = shortPath(obj.Pkg())
	}
	return d, true
}

func calleeName(call ssa.CallInstruction) string {
	d, ok := describeCallee(call)
	if !ok {
		return "<dynamic>"
	}
	if d.Recv != "" {
		return d.Pkg + "#" + d.Recv + "." + d.Name
	}
	return d.Pkg + "#" + d.Name
}

// isCall matches a call against a spec "pkg#Type.Method" / "pkg#Func" where pkg is a
// module-relative path for Tendermint packages or a full import path otherwise.
// Method specs match the named type itself, any type implementing it when it is an interface,
// and interface invocations that may dispatch to it.
func (w *World) isCall(call ssa.CallInstruction, spec string) bool {
	i := strings.LastIndex(spec, "#")
	if i < 0 {
		panic("bad call spec " + spec)
	}
	pkg, rest := spec[:i], spec[i+1:]
	d, ok := describeCallee(call)
	if !ok {
		return false
	}
	j := strings.Index(rest, ".")
	if j < 0 {
		return d.Recv == "" && d.Name == rest && d.Pkg == pkg
	}
	tn, mn := rest[:j], rest[j+1:]
	if d.Name != mn {
		return false
	}
	if d.Pkg == pkg && d.Recv == tn {
		return true
	}
	// interface relations
	T := w.lookupType(pkg, tn)
	if T == nil || d.RecvType == nil {
		return false
	}
	return related(T, d.RecvType, mn)
}

func (w *World) lookupType(pkg, name string) types.Type {
	if t := w.NamedType(pkg, name); t != nil {
		return t
	}
	if p := w.ByPath[pkg]; p != nil && p.Types != nil {
		if obj := p.Types.Scope().Lookup(name); obj != nil {
			return obj.Type()
		}
	}
	return nil
}

func related(a, b types.Type, method string) bool {
	if n := derefNamed(b); n != nil {
		b = n
	}
	if types.Identical(a, b) {
		return true
	}
	ai, aIsI := a.Underlying().(*types.Interface)
	bi, bIsI := b.Underlying().(*types.Interface)
	impl := func(t types.Type, i *types.Interface) bool {
		return types.Implements(t, i) || types.Implements(types.NewPointer(t), i)
	}
	switch {
	case aIsI && !bIsI:
		return impl(b, ai)
	case !aIsI && bIsI:
		return impl(a, bi)
	case aIsI && bIsI:
		// two interfaces sharing the method; related if one embeds/subsumes the other
		return types.Implements(a, bi) || types.Implements(b, ai)
	}
	return false
}

func (w *World) isCallAny(call ssa.CallInstruction, specs ...string) bool {
	for _, s := range specs {
		if w.isCall(call, s) {
			return true
		}
	}
	return false
}

// callsTo lists calls in f (not descending into closures) matching any spec.
func (w *World) callsTo(f *ssa.Function, specs ...string) []ssa.CallInstruction {
	var out []ssa.CallInstruction
	for _, c := range callInstrs(f) {
		if w.isCallAny(c, specs...) {
			out = append(out, c)
		}
	}
	return out
}

type Site struct {
	Fn    *ssa.Function
	Instr ssa.Instruction
}

// allCallsTo lists matching calls in every in-scope function.
func (w *World) allCallsTo(specs ...string) []Site {
	var out []Site
	for _, f := range w.Funcs {
		for _, c := range w.callsTo(f, specs...) {
			out = append(out, Site{f, c})
		}
	}
	return out
}

// callArgs returns the arguments excluding the receiver.
func callArgs(call ssa.CallInstruction) []ssa.Value {
	c := call.Common()
	if c.IsInvoke() {
		return c.Args
	}
	if f := c.StaticCallee(); f != nil && f.Signature.Recv() != nil && len(c.Args) > 0 {
		// bound method wrappers take the receiver as free variable
		if strings.HasPrefix(f.Synthetic, "bound method wrapper") {
			return c.Args
		}
		return c.Args[1:]
	}
	return c.Args
}

func callRecv(call ssa.CallInstruction) ssa.Value {
	c := call.Common()
	if c.IsInvoke() {
		return c.Value
	}
	if f := c.StaticCallee(); f != nil && f.Signature.Recv() != nil && len(c.Args) > 0 {
		return c.Args[0]
	}
	return nil
}

// ---------------------------------------------------------------------------
// Canonical expression strings (access paths)

// World.subst maps callee parameters to the caller's argument expressions while a callee summary is
// evaluated for one call site (goroutine-local by construction: one World per goroutine, guarded by substMu).
type ectx struct {
	m   map[ssa.Value]bool
	sub map[ssa.Value]string
}

func (w *World) newEctx() *ectx { return &ectx{m: map[ssa.Value]bool{}, sub: w.subst} }

func (w *World) expr(v ssa.Value) string { return exprD(v, 0, w.newEctx()) }

// resolveResult renders v; when v is result #i of a static call to an in-module function whose
// non-constant returns for that result all render (with parameters replaced by the call's arguments)
// as one expression, that expression is returned instead — a lookup helper is transparent.
func (w *World) resolveResult(v ssa.Value) string {
	ex, ok := stripConv(v).(*ssa.Extract)
	if !ok {
		return w.expr(v)
	}
	call, ok := ex.Tuple.(*ssa.Call)
	if !ok {
		return w.expr(v)
	}
	h := staticCallee(call)
	if h == nil || h.Blocks == nil || !summarisable(h) {
		return w.expr(v)
	}
	args := call.Common().Args
	if len(args) != len(h.Params) {
		return w.expr(v)
	}
	sub := map[ssa.Value]string{}
	for i, p := range h.Params {
		sub[p] = w.expr(args[i])
	}
	saved := w.subst
	w.subst = sub
	defer func() { w.subst = saved }()
	seen := map[string]bool{}
	var one string
	for _, b := range h.Blocks {
		if len(b.Instrs) == 0 {
			continue
		}
		ret, ok := b.Instrs[len(b.Instrs)-1].(*ssa.Return)
		if !ok || ex.Index >= len(ret.Results) {
			continue
		}
		r := ret.Results[ex.Index]
		if _, isConst := stripConv(r).(*ssa.Const); isConst {
			continue
		}
		s := w.expr(r)
		if !seen[s] {
			seen[s] = true
			one = s
		}
	}
	if len(seen) == 1 {
		return one
	}
	w.subst = saved
	return w.expr(v)
}

func stripConv(v ssa.Value) ssa.Value {
	for {
		switch x := v.(type) {
		case *ssa.ChangeType:
			v = x.X
		case *ssa.Convert:
			v = x.X
		case *ssa.ChangeInterface:
			v = x.X
		case *ssa.MakeInterface:
			v = x.X
		default:
			return v
		}
	}
}

func exprD(v ssa.Value, d int, seen *ectx) string {
	if v == nil {
		return "<nil>"
	}
	if d > 18 {
		return "…"
	}
	if seen.sub != nil {
		if r, ok := seen.sub[v]; ok {
			return r
		}
	}
	switch x := v.(type) {
	case *ssa.Parameter:
		if site := transparentSite(x.Parent()); site != nil && !seen.m[v] {
			for i, p := range x.Parent().Params {
				if p == x {
					seen.m[v] = true
					r := exprD(site.Common().Args[i], d+1, seen)
					delete(seen.m, v)
					return r
				}
			}
		}
		return canonParamName(x)
	case *ssa.FreeVar:
		return freeVarName(x)
	case *ssa.Const:
		if x.Value == nil {
			return "nil"
		}
		if x.Value.Kind() == constant.String {
			return x.Value.ExactString()
		}
		return x.Value.String()
	case *ssa.Global:
		return shortPath(x.Pkg.Pkg) + "." + x.Name()
	case *ssa.Function:
		return "func:" + funcKey(unwrapSynthetic(x))
	case *ssa.Builtin:
		return x.Name()
	case *ssa.FieldAddr:
		return exprD(x.X, d+1, seen) + "." + fieldName(x.X.Type(), x.Field)
	case *ssa.Field:
		return exprD(x.X, d+1, seen) + "." + fieldName(x.X.Type(), x.Field)
	case *ssa.UnOp:
		switch x.Op {
		case token.MUL:
			// load of a multiply-assigned local: use the store that reaches it inside the same block
			if al, ok := x.X.(*ssa.Alloc); ok && singleStore(al) == nil && x.Block() != nil {
				var last *ssa.Store
				for _, in := range x.Block().Instrs {
					if in == ssa.Instruction(x) {
						break
					}
					if st, ok := in.(*ssa.Store); ok && st.Addr == ssa.Value(al) {
						last = st
					}
				}
				if last != nil && !seen.m[last.Val] {
					return exprD(last.Val, d+1, seen)
				}
			}
			return exprD(x.X, d, seen)
		case token.NOT:
			return "!" + exprD(x.X, d+1, seen)
		case token.SUB:
			return "-" + exprD(x.X, d+1, seen)
		case token.ARROW:
			return "<-" + exprD(x.X, d+1, seen)
		case token.XOR:
			return "^" + exprD(x.X, d+1, seen)
		}
		return x.Op.String() + exprD(x.X, d+1, seen)
	case *ssa.IndexAddr:
		return exprD(x.X, d+1, seen) + "[" + exprD(x.Index, d+1, seen) + "]"
	case *ssa.Index:
		return exprD(x.X, d+1, seen) + "[" + exprD(x.Index, d+1, seen) + "]"
	case *ssa.Lookup:
		return exprD(x.X, d+1, seen) + "[" + exprD(x.Index, d+1, seen) + "]"
	case *ssa.Extract:
		if call, ok := x.Tuple.(*ssa.Call); ok {
			if h := staticCallee(call); h != nil && transparentSite(h) == call {
				if r := singleResultExpr(h, x.Index); r != nil && !seen.m[v] {
					seen.m[v] = true
					s := exprD(r, d+1, seen)
					delete(seen.m, v)
					return s
				}
			} else if h != nil && isNewFunc(h) && len(call.Call.Args) == len(h.Params) && !seen.m[v] {
				// a helper introduced later with several call sites (`lb, err := s.verified(ctx, h)` shared by
				// two callers) that hands back one expression: rendered as that expression, its parameters
				// as this call's arguments
				if r := singleResultExpr(h, x.Index); r != nil {
					sub := map[ssa.Value]string{}
					for k, val := range seen.sub {
						sub[k] = val
					}
					seen.m[v] = true
					for i, p := range h.Params {
						sub[p] = exprD(call.Call.Args[i], d+1, seen)
					}
					s := exprD(r, d+1, &ectx{m: seen.m, sub: sub})
					delete(seen.m, v)
					return s
				}
			}
		}
		return exprD(x.Tuple, d, seen) + "#" + fmt.Sprint(x.Index)
	case *ssa.Call:
		if h := staticCallee(x); h != nil && transparentSite(h) == x && h.Signature.Results().Len() == 1 {
			if r := singleResultExpr(h, 0); r != nil && !seen.m[v] {
				seen.m[v] = true
				s := exprD(r, d+1, seen)
				delete(seen.m, v)
				return s
			}
		}
		return callExpr(x, d, seen)
	case *ssa.BinOp:
		return "(" + exprD(x.X, d+1, seen) + " " + x.Op.String() + " " + exprD(x.Y, d+1, seen) + ")"
	case *ssa.ChangeType:
		return exprD(x.X, d, seen)
	case *ssa.Convert:
		return exprD(x.X, d, seen)
	case *ssa.ChangeInterface:
		return exprD(x.X, d, seen)
	case *ssa.MakeInterface:
		return exprD(x.X, d, seen)
	case *ssa.SliceToArrayPointer:
		return exprD(x.X, d, seen)
	case *ssa.TypeAssert:
		return exprD(x.X, d+1, seen) + ".(" + typeStr(x.AssertedType) + ")"
	case *ssa.Slice:
		s := exprD(x.X, d+1, seen) + "["
		if x.Low != nil {
			s += exprD(x.Low, d+1, seen)
		}
		s += ":"
		if x.High != nil {
			s += exprD(x.High, d+1, seen)
		}
		return s + "]"
	case *ssa.Alloc:
		if st := singleStore(x); st != nil && !seen.m[v] {
			seen.m[v] = true
			r := exprD(st.Val, d+1, seen)
			delete(seen.m, v)
			return r
		}
		if x.Comment != "" {
			return "&" + allocName(x)
		}
		return "&alloc"
	case *ssa.Phi:
		if seen.m[v] {
			return "phi:" + phiName(x)
		}
		seen.m[v] = true
		var parts []string
		for _, e := range x.Edges {
			parts = append(parts, exprD(e, d+2, seen))
		}
		delete(seen.m, v)
		sort.Strings(parts)
		parts = uniq(parts)
		return "phi(" + strings.Join(parts, "|") + ")"
	case *ssa.MakeClosure:
		if f, ok := x.Fn.(*ssa.Function); ok {
			if strings.HasPrefix(f.Synthetic, "bound method wrapper") && len(x.Bindings) == 1 {
				return exprD(x.Bindings[0], d+1, seen) + "." + unwrapSynthetic(f).Name()
			}
			return "closure:" + funcKey(f)
		}
		return "closure"
	case *ssa.MakeSlice:
		return "make(" + typeStr(x.Type()) + "," + exprD(x.Len, d+1, seen) + ")"
	case *ssa.MakeMap:
		return "make(" + typeStr(x.Type()) + ")"
	case *ssa.MakeChan:
		return "make(" + typeStr(x.Type()) + ")"
	case *ssa.Range:
		return "range(" + exprD(x.X, d+1, seen) + ")"
	case *ssa.Next:
		return "next(" + exprD(x.Iter, d+1, seen) + ")"
	case *ssa.Select:
		return "select"
	}
	return fmt.Sprintf("%T", v)
}

// singleStore returns the only whole-value store into a local variable slot, if there is exactly one.
func singleStore(a *ssa.Alloc) *ssa.Store {
	var only *ssa.Store
	if a.Referrers() == nil {
		return nil
	}
	for _, r := range *a.Referrers() {
		if st, ok := r.(*ssa.Store); ok && st.Addr == a {
			if only != nil {
				return nil
			}
			only = st
		}
	}
	// a scalar whose address is handed to a function that assigns through it (an out-parameter or a running
	// value kept across calls): its one visible store does not describe it
	if only != nil {
		if _, basic := a.Type().Underlying().(*types.Pointer).Elem().Underlying().(*types.Basic); basic {
			for _, r := range *a.Referrers() {
				call, ok := r.(ssa.CallInstruction)
				if !ok {
					continue
				}
				for ai, arg := range call.Common().Args {
					if arg != ssa.Value(a) {
						continue
					}
					h := call.Common().StaticCallee()
					if h == nil || h.Blocks == nil || ai >= len(h.Params) {
						continue
					}
					if refs := h.Params[ai].Referrers(); refs != nil {
						for _, pr := range *refs {
							if st, ok := pr.(*ssa.Store); ok && st.Addr == ssa.Value(h.Params[ai]) {
								return nil // the callee assigns through the pointer
							}
						}
					}
				}
			}
		}
	}
	return only
}

func uniq(s []string) []string {
	out := s[:0]
	for i, x := range s {
		if i == 0 || x != s[i-1] {
			out = append(out, x)
		}
	}
	return out
}

func typeStr(t types.Type) string {
	return types.TypeString(t, func(p *types.Package) string { return shortPath(p) })
}

func fieldName(t types.Type, i int) string {
	if p, ok := t.Underlying().(*types.Pointer); ok {
		t = p.Elem()
	}
	if s, ok := t.Underlying().(*types.Struct); ok && i < s.NumFields() {
		return s.Field(i).Name()
	}
	return fmt.Sprintf("f%d", i)
}

func fieldVar(t types.Type, i int) *types.Var {
	if p, ok := t.Underlying().(*types.Pointer); ok {
		t = p.Elem()
	}
	if s, ok := t.Underlying().(*types.Struct); ok && i < s.NumFields() {
		return s.Field(i)
	}
	return nil
}

func callExpr(x ssa.CallInstruction, d int, seen *ectx) string {
	c := x.Common()
	var args []string
	for _, a := range callArgs(x) {
		args = append(args, exprD(a, d+1, seen))
	}
	// min/max helpers are commutative: canonical argument order
	if f := c.StaticCallee(); f != nil && len(args) == 2 && f.Pkg != nil && strings.HasSuffix(f.Pkg.Pkg.Path(), "/libs/math") &&
		(strings.HasPrefix(f.Name(), "Min") || strings.HasPrefix(f.Name(), "Max")) && args[0] > args[1] {
		args[0], args[1] = args[1], args[0]
	}
	as := "(" + strings.Join(args, ", ") + ")"
	if c.IsInvoke() {
		return exprD(c.Value, d+1, seen) + "." + c.Method.Name() + as
	}
	if f := c.StaticCallee(); f != nil {
		uf := unwrapSynthetic(f)
		if strings.HasPrefix(f.Synthetic, "bound method wrapper") {
			if mc, ok := c.Value.(*ssa.MakeClosure); ok && len(mc.Bindings) == 1 {
				return exprD(mc.Bindings[0], d+1, seen) + "." + uf.Name() + as
			}
		}
		if r := callRecv(x); r != nil {
			return exprD(r, d+1, seen) + "." + uf.Name() + as
		}
		if uf.Pkg != nil {
			return shortPath(uf.Pkg.Pkg) + "." + uf.Name() + as
		}
		if uf.Parent() != nil {
			return "closure:" + funcKey(uf) + as
		}
		if obj := uf.Object(); obj != nil && obj.Pkg() != nil {
			return shortPath(obj.Pkg()) + "." + uf.Name() + as
		}
		return uf.Name() + as
	}
	if b, ok := c.Value.(*ssa.Builtin); ok {
		return b.Name() + as
	}
	return "dyn:" + exprD(c.Value, d+1, seen) + as
}

func (w *World) callStr(c ssa.CallInstruction) string {
	return callExpr(c, 0, w.newEctx())
}

// ---------------------------------------------------------------------------
// Atoms: normalised branch conditions

type Atom struct {
	Kind string // nil | nonnil | true | false | cmp
	V    ssa.Value
	Op   token.Token
	X, Y ssa.Value
}

func negOp(op token.Token) token.Token {
	switch op {
	case token.EQL:
		return token.NEQ
	case token.NEQ:
		return token.EQL
	case token.LSS:
		return token.GEQ
	case token.GEQ:
		return token.LSS
	case token.GTR:
		return token.LEQ
	case token.LEQ:
		return token.GTR
	}
	return op
}

func isNilConst(v ssa.Value) bool {
	c, ok := stripConv(v).(*ssa.Const)
	return ok && c.Value == nil
}

func boolConst(v ssa.Value) (bool, bool) {
	c, ok := v.(*ssa.Const)
	if !ok || c.Value == nil || c.Value.Kind() != constant.Bool {
		return false, false
	}
	return constant.BoolVal(c.Value), true
}

func normCond(v ssa.Value, pol bool) Atom {
	switch x := v.(type) {
	case *ssa.Phi:
		// a && b lowered as phi(b|false): the true edge implies b; a || b as phi(b|true): false edge implies !b
		var other ssa.Value
		n := 0
		for _, e := range x.Edges {
			if c, ok := boolConst(e); ok && c == !pol {
				continue
			}
			other = e
			n++
		}
		if n == 1 {
			return normCond(other, pol)
		}
	case *ssa.UnOp:
		if x.Op == token.NOT {
			return normCond(x.X, !pol)
		}
	case *ssa.BinOp:
		switch x.Op {
		case token.EQL, token.NEQ:
			eq := (x.Op == token.EQL) == pol
			if isNilConst(x.Y) {
				if eq {
					return Atom{Kind: "nil", V: x.X}
				}
				return Atom{Kind: "nonnil", V: x.X}
			}
			if isNilConst(x.X) {
				if eq {
					return Atom{Kind: "nil", V: x.Y}
				}
				return Atom{Kind: "nonnil", V: x.Y}
			}
			if b, ok := boolConst(x.Y); ok {
				return normCond(x.X, eq == b)
			}
			if b, ok := boolConst(x.X); ok {
				return normCond(x.Y, eq == b)
			}
			op := x.Op
			if !pol {
				op = negOp(op)
			}
			return Atom{Kind: "cmp", Op: op, X: x.X, Y: x.Y}
		case token.LSS, token.LEQ, token.GTR, token.GEQ:
			op := x.Op
			if !pol {
				op = negOp(op)
			}
			return Atom{Kind: "cmp", Op: op, X: x.X, Y: x.Y}
		}
	}
	if pol {
		return Atom{Kind: "true", V: v}
	}
	return Atom{Kind: "false", V: v}
}

func (w *World) atomStr(a Atom) string {
	switch a.Kind {
	case "cmp":
		return w.expr(a.X) + " " + a.Op.String() + " " + w.expr(a.Y)
	default:
		return a.Kind + "(" + w.expr(a.V) + ")"
	}
}

// atomCall returns the call whose result the atom tests (through Extract / conversions).
func atomCall(a Atom) ssa.CallInstruction {
	v := a.V
	if a.Kind == "cmp" {
		return nil
	}
	return valueCall(v)
}

func valueCall(v ssa.Value) ssa.CallInstruction {
	v = stripConv(v)
	if e, ok := v.(*ssa.Extract); ok {
		v = e.Tuple
	}
	if c, ok := v.(*ssa.Call); ok {
		return c
	}
	return nil
}

// Edge is a CFG edge out of a conditional.
type Edge struct {
	From *ssa.BasicBlock
	Succ int
}

// condEdges enumerates every (If, successor) of f with its atom.
func condEdges(f *ssa.Function) []struct {
	E Edge
	A Atom
} {
	var out []struct {
		E Edge
		A Atom
	}
	for _, b := range f.Blocks {
		if len(b.Instrs) == 0 {
			continue
		}
		if in, ok := b.Instrs[len(b.Instrs)-1].(*ssa.If); ok {
			out = append(out, struct {
				E Edge
				A Atom
			}{Edge{b, 0}, normCond(in.Cond, true)})
			out = append(out, struct {
				E Edge
				A Atom
			}{Edge{b, 1}, normCond(in.Cond, false)})
		}
	}
	return out
}

// ---------------------------------------------------------------------------
// Path queries

type pathQ struct {
	blocked func(Edge) bool
	kill    func(ssa.Instruction) bool
	target  func(ssa.Instruction) bool
	// targetEdge: (optional) the search also succeeds when it can take such an edge — feasibly: not blocked,
	// and not excluded by what the path has decided about the condition
	targetEdge func(Edge) bool
}

// reach reports whether a target instruction can be executed starting at (b, idx) without crossing a
// blocked edge and without executing a kill instruction first. It returns the target found.
func (q *pathQ) reach(b *ssa.BasicBlock, idx int) (ssa.Instruction, []*ssa.BasicBlock) {
	type item struct {
		b     *ssa.BasicBlock
		idx   int
		prev  int
		only  int    // -1: both successors feasible; 0/1: only that successor (phi-of-constant condition)
		facts string // decided values of conditions that are branched on more than once (see condFacts)
	}
	type vkey struct {
		b     *ssa.BasicBlock
		only  int
		facts string
	}
	rep := repeatedConds(b.Parent())
	visited := map[vkey]bool{}
	queue := []item{{b, idx, -1, -1, ""}}
	if idx == 0 {
		visited[vkey{b, -1, ""}] = true
	}
	for qi := 0; qi < len(queue); qi++ {
		it := queue[qi]
		killed := false
		for i := it.idx; i < len(it.b.Instrs); i++ {
			in := it.b.Instrs[i]
			if q.target != nil && q.target(in) {
				var path []*ssa.BasicBlock
				for k := qi; k >= 0; k = queue[k].prev {
					path = append([]*ssa.BasicBlock{queue[k].b}, path...)
				}
				return in, path
			}
			if q.kill != nil && q.kill(in) {
				killed = true
				break
			}
			if isNoReturnCall(in) {
				killed = true
				break
			}
		}
		if killed {
			continue
		}
		for si, s := range it.b.Succs {
			if it.only >= 0 && si != it.only {
				continue
			}
			if q.blocked != nil && q.blocked(Edge{it.b, si}) {
				continue
			}
			facts := it.facts
			if len(rep) > 0 {
				var feasible bool
				facts, feasible = condFacts(rep, it.facts, it.b, si, s)
				if !feasible {
					continue // the same condition was decided the other way earlier on this path
				}
			}
			if q.targetEdge != nil && q.targetEdge(Edge{it.b, si}) {
				var path []*ssa.BasicBlock
				for k := qi; k >= 0; k = queue[k].prev {
					path = append([]*ssa.BasicBlock{queue[k].b}, path...)
				}
				return it.b.Instrs[len(it.b.Instrs)-1], append(path, s)
			}
			only := phiConstSucc(it.b, s)
			k := vkey{s, only, facts}
			if !visited[k] && !visited[vkey{s, -1, ""}] && !visited[vkey{s, only, ""}] {
				visited[k] = true
				queue = append(queue, item{s, 0, qi, only, facts})
			}
		}
	}
	return nil, nil
}

// repeatedConds: the condition values (negations stripped) that more than one If of f branches on — e.g. a
// boolean local tested twice (`if eof && n > 0 {…}; if eof {…}`). Only these are tracked along paths.
func repeatedConds(f *ssa.Function) map[ssa.Value]int {
	if f == nil {
		return nil
	}
	cnt := map[ssa.Value]int{}
	for _, b := range f.Blocks {
		if len(b.Instrs) == 0 {
			continue
		}
		if ifi, ok := b.Instrs[len(b.Instrs)-1].(*ssa.If); ok {
			v, _ := stripNot(ifi.Cond)
			if _, isConst := v.(*ssa.Const); !isConst {
				cnt[v]++
			}
		}
	}
	out := map[ssa.Value]int{}
	id := 0
	for _, b := range f.Blocks { // deterministic numbering
		if len(b.Instrs) == 0 {
			continue
		}
		if ifi, ok := b.Instrs[len(b.Instrs)-1].(*ssa.If); ok {
			v, _ := stripNot(ifi.Cond)
			if cnt[v] > 1 {
				if _, seen := out[v]; !seen {
					id++
					out[v] = id
				}
			}
		}
	}
	return out
}

func stripNot(v ssa.Value) (ssa.Value, bool) {
	neg := false
	for {
		u, ok := v.(*ssa.UnOp)
		if !ok || u.Op != token.NOT {
			return v, neg
		}
		neg = !neg
		v = u.X
	}
}

// condFacts updates the facts when the edge from→(succ si) is taken into block to: a tracked condition
// decided on this edge is recorded (or the edge is infeasible if it was decided the other way), and facts
// about values that block `to` recomputes (loop) are dropped. Facts are encoded "id=T;id=F" in id order.
func condFacts(rep map[ssa.Value]int, facts string, from *ssa.BasicBlock, si int, to *ssa.BasicBlock) (string, bool) {
	m := map[int]bool{}
	if facts != "" {
		for _, kv := range strings.Split(facts, ";") {
			var id int
			var t string
			fmt.Sscanf(strings.Replace(kv, "=", " ", 1), "%d %s", &id, &t)
			m[id] = t == "T"
		}
	}
	if ifi, ok := from.Instrs[len(from.Instrs)-1].(*ssa.If); ok && len(from.Succs) == 2 && from.Succs[0] != from.Succs[1] {
		v, neg := stripNot(ifi.Cond)
		if id, tracked := rep[v]; tracked {
			truth := (si == 0) != neg
			if old, known := m[id]; known && old != truth {
				return facts, false
			}
			m[id] = truth
		}
	}
	// values defined in `to` are recomputed when it is entered
	for v, id := range rep {
		if in, ok := v.(ssa.Instruction); ok && in.Block() == to {
			delete(m, id)
		}
	}
	if len(m) == 0 {
		return "", true
	}
	ids := make([]int, 0, len(m))
	for id := range m {
		ids = append(ids, id)
	}
	sort.Ints(ids)
	var sb strings.Builder
	for i, id := range ids {
		if i > 0 {
			sb.WriteByte(';')
		}
		t := "F"
		if m[id] {
			t = "T"
		}
		fmt.Fprintf(&sb, "%d=%s", id, t)
	}
	return sb.String(), true
}

// phiConstSucc: entering block s from pred p, if s branches on a phi (boolean, or compared with nil)
// whose incoming value from p is decided — a constant, or a value the edge p→s itself established as
// nil / non-nil — only one successor of s is feasible. Returns that successor index or -1.
func phiConstSucc(p, s *ssa.BasicBlock) int {
	if len(s.Instrs) == 0 {
		return -1
	}
	ifi, ok := s.Instrs[len(s.Instrs)-1].(*ssa.If)
	if !ok {
		return -1
	}
	a := normCond(ifi.Cond, true) // atom of successor 0
	cond := ifi.Cond
	neg := false
	for {
		u, ok := cond.(*ssa.UnOp)
		if !ok || u.Op != token.NOT {
			break
		}
		neg = !neg
		cond = u.X
	}
	if phi, ok := cond.(*ssa.Phi); ok && phi.Block() == s {
		for i, pr := range s.Preds {
			if pr == p {
				if c, ok := boolConst(phi.Edges[i]); ok {
					if c != neg {
						return 0
					}
					return 1
				}
			}
		}
		return -1
	}
	// nil comparison of a phi
	if (a.Kind == "nil" || a.Kind == "nonnil") && a.V != nil {
		if phi, ok := a.V.(*ssa.Phi); ok && phi.Block() == s {
			for i, pr := range s.Preds {
				if pr != p {
					continue
				}
				switch edgeNilness(p, s, phi.Edges[i]) {
				case 1: // non-nil
					if a.Kind == "nonnil" {
						return 0
					}
					return 1
				case -1:
					if a.Kind == "nil" {
						return 0
					}
					return 1
				}
			}
		}
	}
	return -1
}

// edgeNilness: what is known about value e when control flows p→s: 1 non-nil, -1 nil, 0 unknown.
func edgeNilness(p, s *ssa.BasicBlock, e ssa.Value) int {
	if isNilConst(e) {
		return -1
	}
	if _, ok := e.(*ssa.MakeInterface); ok {
		return 1
	}
	if len(p.Instrs) == 0 {
		return 0
	}
	if ifi, ok := p.Instrs[len(p.Instrs)-1].(*ssa.If); ok {
		for si, sb := range p.Succs {
			if sb != s || (p.Succs[0] == p.Succs[1]) {
				continue
			}
			at := normCond(ifi.Cond, si == 0)
			if at.V != nil && sameValue(at.V, e) {
				if at.Kind == "nonnil" {
					return 1
				}
				if at.Kind == "nil" {
					return -1
				}
			}
		}
	}
	// dominating knowledge about e at p
	for _, at := range dominatingAtoms(p) {
		if at.V != nil && sameValue(at.V, e) {
			if at.Kind == "nonnil" {
				return 1
			}
			if at.Kind == "nil" {
				return -1
			}
		}
	}
	return 0
}

// isNoReturnCall: calls that terminate the process (control never continues past them).
func isNoReturnCall(in ssa.Instruction) bool {
	c, ok := in.(*ssa.Call)
	if !ok {
		return false
	}
	d, ok := describeCallee(c)
	if !ok {
		return false
	}
	switch {
	case d.Pkg == "os" && d.Name == "Exit" && d.Recv == "":
		return true
	case d.Pkg == "libs/os" && d.Name == "Exit":
		return true
	case d.Pkg == "log" && strings.HasPrefix(d.Name, "Fatal"):
		return true
	}
	return false
}

func instrIndex(in ssa.Instruction) int {
	for i, x := range in.Block().Instrs {
		if x == in {
			return i
		}
	}
	return -1
}

func pathStr(w *World, path []*ssa.BasicBlock) string {
	var parts []string
	for _, b := range path {
		p := "-"
		for _, in := range b.Instrs {
			if in.Pos().IsValid() {
				p = fmt.Sprint(w.Fset.Position(in.Pos()).Line)
				break
			}
		}
		parts = append(parts, fmt.Sprintf("b%d(%s@%s)", b.Index, b.Comment, p))
	}
	if len(parts) > 12 {
		parts = append(parts[:6], append([]string{"…"}, parts[len(parts)-5:]...)...)
	}
	return strings.Join(parts, "→")
}

func isReturn(in ssa.Instruction) bool { _, ok := in.(*ssa.Return); return ok }

// reachFromEntry: can target be reached from f's entry avoiding blocked edges / kill instrs?
func reachFromEntry(f *ssa.Function, blocked map[Edge]bool, kill func(ssa.Instruction) bool, target ssa.Instruction) (bool, []*ssa.BasicBlock) {
	q := &pathQ{
		blocked: func(e Edge) bool { return blocked[e] },
		kill:    kill,
		target:  func(in ssa.Instruction) bool { return in == target },
	}
	in, path := q.reach(f.Blocks[0], 0)
	return in != nil, path
}

// mustPrecede: on every path from entry to target, some instruction satisfying pred executes first.
func mustPrecede(f *ssa.Function, target ssa.Instruction, pred func(ssa.Instruction) bool) (bool, []*ssa.BasicBlock) {
	if target.Parent() != f {
		chain := siteChain(f, target)
		if chain == nil {
			return false, nil
		}
		var last []*ssa.BasicBlock
		for _, l := range chain {
			r, p := reachFromEntry(l.fn, nil, pred, l.at)
			if !r {
				return true, nil
			}
			last = p
		}
		return false, last
	}
	r, p := reachFromEntry(f, nil, pred, target)
	return !r, p
}

// mustFollow: after `from`, every path to a normal return (or to an instruction satisfying `until`)
// executes an instruction satisfying pred first.
func mustFollow(from ssa.Instruction, pred func(ssa.Instruction) bool, until func(ssa.Instruction) bool) (bool, ssa.Instruction, []*ssa.BasicBlock) {
	q := &pathQ{
		kill: pred,
		target: func(in ssa.Instruction) bool {
			if isReturn(in) {
				return true
			}
			return until != nil && until(in)
		},
	}
	in, path := q.reach(from.Block(), instrIndex(from)+1)
	// leaving a transparent helper is not leaving the operation: continue after its call site
	if in != nil && isReturn(in) {
		if site := transparentSite(from.Parent()); site != nil {
			// the helper's constant boolean result decides the caller's branch on it
			if ret := in.(*ssa.Return); len(ret.Results) == 1 {
				if k, isC := boolConst(ret.Results[0]); isC {
					blk := site.Block()
					if ifi, ok := blk.Instrs[len(blk.Instrs)-1].(*ssa.If); ok && len(blk.Succs) == 2 {
						for i, succ := range blk.Succs {
							a := normCond(ifi.Cond, i == 0)
							if a.V == ssa.Value(site) && (a.Kind == "true") == k && (a.Kind == "true" || a.Kind == "false") {
								q2 := &pathQ{kill: pred, target: q.target}
								// nothing between the call and the branch may be a target/kill other than the If itself
								in2, path2 := q2.reach(succ, 0)
								if in2 != nil && isReturn(in2) {
									if outer := transparentSite(site.Parent()); outer != nil {
										return mustFollow(outer, pred, until)
									}
								}
								return in2 == nil, in2, path2
							}
						}
					}
				}
			}
			return mustFollow(site, pred, until)
		}
	}
	return in == nil, in, path
}

// ---------------------------------------------------------------------------
// Guards (K1)

type Guard struct {
	Name string
	// Key: what the guard matches, in text (the pattern it was built from). Summaries of callees are
	// memoised per (callee, arguments, guard): two guards that share a name but not a pattern must not share
	// an entry, so the constructors record the pattern here and the memo key includes it.
	Key   string
	Match func(w *World, f *ssa.Function, a Atom) bool
	// Split: the guard also holds where every one of these holds (an equality established by two
	// opposite inequalities, possibly at different places on the path).
	Split []Guard
}

// guardRe builds a guard from a regexp over atom strings.
func guardRe(name, re string) Guard {
	rx := regexp.MustCompile(re)
	return Guard{Name: name, Key: "re:" + re, Match: func(w *World, f *ssa.Function, a Atom) bool {
		if rx.MatchString(w.atomStr(a)) {
			return true
		}
		// bytes.Equal is symmetric: the pattern may list the operands in the other order
		if a.Kind == "true" || a.Kind == "false" {
			if c, ok := stripConv(a.V).(*ssa.Call); ok {
				if d, okd := describeCallee(c); okd && d.Pkg == "bytes" && d.Name == "Equal" && len(c.Call.Args) == 2 {
					sw := a.Kind + "(bytes.Equal(" + w.expr(c.Call.Args[1]) + ", " + w.expr(c.Call.Args[0]) + "))"
					return rx.MatchString(sw)
				}
			}
		}
		return false
	}}
}

// guardCallOK: "call to spec succeeded" — nil error result, or true bool result.
func guardCallOK(name string, specs ...string) Guard {
	return Guard{Name: name, Key: "callok:" + strings.Join(specs, ","), Match: func(w *World, f *ssa.Function, a Atom) bool {
		if a.Kind != "nil" && a.Kind != "true" {
			return false
		}
		c := atomCall(a)
		return c != nil && w.isCallAny(c, specs...)
	}}
}

type guardEnv struct {
	w      *World
	memo   map[string]int // 0 unknown, 1 true, 2 false, 3 in progress
	maxDep int
}

func newGuardEnv(w *World) *guardEnv { return &guardEnv{w: w, memo: map[string]int{}, maxDep: 4} }

// passEdges computes the edges of f on which guard g is established, either directly or through
// the success of a callee that ensures g.
func (ge *guardEnv) passEdges(f *ssa.Function, g Guard, depth int) map[Edge]bool {
	edges := map[Edge]bool{}
	for _, ea := range condEdges(f) {
		if g.Match(ge.w, f, ea.A) {
			edges[ea.E] = true
			continue
		}
		// err := a(); if err == nil { err = b() }; if err != nil {...}: the nil edge of phi(a|b) establishes
		// g if every incoming value that can be nil there establishes g
		if phi, ok := ea.A.V.(*ssa.Phi); ok && (ea.A.Kind == "nil" || ea.A.Kind == "true") && phi.Block() == ea.E.From {
			all, any := true, false
			for i, e := range phi.Edges {
				if ea.A.Kind == "nil" && edgeNilness(phi.Block().Preds[i], phi.Block(), e) == 1 {
					continue // this incoming value is known non-nil: cannot take the nil edge
				}
				any = true
				sub := Atom{Kind: ea.A.Kind, V: e}
				okE := g.Match(ge.w, f, sub)
				if !okE && depth > 0 {
					if c := valueCall(e); c != nil {
						if h := staticCallee(c); h != nil && h.Blocks != nil && summarisable(h) {
							okE = ge.ensuresAt(c, h, g, depth-1)
						}
					}
				}
				if !okE {
					all = false
				}
			}
			if all && any {
				edges[ea.E] = true
				continue
			}
		}
		// a boolean local built from comparisons (`tooHigh := max > 0 && max < h; if tooLow || tooHigh {…}`): the
		// phi of constants and comparisons is branched on; the edge establishes g if every incoming value that
		// can take it does — by the comparison itself, or (a constant) by the edge on which it was chosen
		if phi, ok := ea.A.V.(*ssa.Phi); ok && (ea.A.Kind == "true" || ea.A.Kind == "false") && (phi.Block() == ea.E.From || phi.Block().Dominates(ea.E.From)) {
			if bt, isB := phi.Type().Underlying().(*types.Basic); isB && bt.Kind() == types.Bool {
				pol := ea.A.Kind == "true"
				all, any := true, false
				for i, e := range phi.Edges {
					cv, isC := boolConst(e)
					if isC && cv != pol {
						continue
					}
					any = true
					okE := false
					if !isC {
						if _, isCall := stripConv(e).(*ssa.Call); !isCall {
							okE = g.Match(ge.w, f, normCond(e, pol))
						}
					}
					if !okE {
						pred := phi.Block().Preds[i]
						if ifi, isIf := pred.Instrs[len(pred.Instrs)-1].(*ssa.If); isIf && pred.Succs[0] != pred.Succs[1] {
							for si, sc := range pred.Succs {
								if sc == phi.Block() && g.Match(ge.w, f, normCond(ifi.Cond, si == 0)) {
									okE = true
								}
							}
						}
					}
					if !okE {
						all = false
					}
				}
				if all && any {
					edges[ea.E] = true
					continue
				}
			}
		}
		// a boolean flag among several results of an in-module helper (`found, giveUp, err := scan()`): the
		// edge on which the flag has a value establishes g if every way the helper can answer that value does
		if depth > 0 && (ea.A.Kind == "true" || ea.A.Kind == "false") {
			if ex, ok := stripConv(ea.A.V).(*ssa.Extract); ok {
				if c, ok := ex.Tuple.(*ssa.Call); ok {
					if h := staticCallee(c); h != nil && h.Blocks != nil && summarisable(h) {
						res := h.Signature.Results()
						if ex.Index < res.Len()-1 || (ex.Index == res.Len()-1 && ea.A.Kind == "false") {
							if bt, ok := res.At(ex.Index).Type().Underlying().(*types.Basic); ok && bt.Kind() == types.Bool {
								if ge.predicateEnsuresIdx(c, h, g, ea.A.Kind == "true", depth-1, ex.Index) {
									edges[ea.E] = true
									continue
								}
							}
						}
					}
				}
			}
		}
		// !pred(x) where pred is an in-module predicate: the false edge establishes g if every way pred
		// can return false does
		if depth > 0 && ea.A.Kind == "false" {
			if c := atomCall(ea.A); c != nil {
				if h := staticCallee(c); h != nil && h.Blocks != nil && summarisable(h) && isPredicate(h) {
					if ge.predicateEnsures(c, h, g, false, depth-1) {
						edges[ea.E] = true
						continue
					}
				}
			}
		}
		if depth > 0 && (ea.A.Kind == "nil" || ea.A.Kind == "true") {
			if c := atomCall(ea.A); c != nil {
				if h := staticCallee(c); h != nil && h.Blocks != nil && summarisable(h) {
					if ge.ensuresAt(c, h, g, depth-1) {
						edges[ea.E] = true
					}
				}
			}
		}
	}
	return edges
}

func pkgPathOf(f *ssa.Function) string {
	for f.Parent() != nil {
		f = f.Parent()
	}
	if f.Pkg != nil {
		return f.Pkg.Pkg.Path()
	}
	if o := f.Object(); o != nil && o.Pkg() != nil {
		return o.Pkg().Path()
	}
	return ""
}

// guardedLocal: every path from f's entry to target crosses a pass edge of g.
func (ge *guardEnv) guardedLocal(f *ssa.Function, target ssa.Instruction, g Guard, depth int) (bool, []*ssa.BasicBlock) {
	return ge.guardedLocalX(f, target, g, depth, nil)
}

// guardedLocalX: as guardedLocal; extra lists edges that cannot lie on a path of interest (e.g. the
// edge on which the returned error is known non-nil, when only success returns are of interest).
func (ge *guardEnv) guardedLocalX(f *ssa.Function, target ssa.Instruction, g Guard, depth int, extra map[Edge]bool) (bool, []*ssa.BasicBlock) {
	ok, path := ge.guardedLocalX1(f, target, g, depth, extra)
	if ok || len(g.Split) == 0 {
		return ok, path
	}
	// The parts are found at different places of the function and are combined by what they *say* (the
	// renderings of their operands). That is only sound for operands that denote the same value at both
	// places: a field that the function (or something it calls) assigns in between may be read before the
	// assignment by one part and after it by the other (`old := x.sum; x.add(v); if old < q && x.sum >= q`).
	for _, ea := range condEdges(f) {
		if ea.A.Kind != "cmp" {
			continue
		}
		for _, part := range g.Split {
			if part.Match(ge.w, f, ea.A) && !(stableOperand(f, ea.A.X) && stableOperand(f, ea.A.Y)) {
				return false, path
			}
		}
	}
	for _, part := range g.Split {
		if okp, _ := ge.guardedLocalX1(f, target, part, depth, extra); !okp {
			return false, path
		}
	}
	return true, nil
}

// stableOperand: every field read in v is of a field that neither f nor an in-module function f calls (two
// levels) assigns.
func stableOperand(f *ssa.Function, v ssa.Value) bool {
	ok := true
	var walk func(v ssa.Value, d int)
	walk = func(v ssa.Value, d int) {
		if d > 8 || !ok {
			return
		}
		switch x := stripConv(v).(type) {
		case *ssa.BinOp:
			walk(x.X, d+1)
			walk(x.Y, d+1)
		case *ssa.UnOp:
			if x.Op == token.MUL {
				if fa, isFA := x.X.(*ssa.FieldAddr); isFA {
					if fieldAssignedIn(f, fa, 2, map[*ssa.Function]bool{}) {
						ok = false
						return
					}
					walk(fa.X, d+1)
					return
				}
			}
			walk(x.X, d+1)
		case *ssa.Phi:
			for _, e := range x.Edges {
				walk(e, d+1)
			}
		case *ssa.Call:
			for _, a := range x.Call.Args {
				walk(a, d+1)
			}
		}
	}
	walk(v, 0)
	return ok
}

func fieldAssignedIn(f *ssa.Function, fa *ssa.FieldAddr, depth int, seen map[*ssa.Function]bool) bool {
	if f == nil || f.Blocks == nil || seen[f] {
		return false
	}
	seen[f] = true
	for _, b := range f.Blocks {
		for _, in := range b.Instrs {
			switch x := in.(type) {
			case *ssa.Store:
				if fb, ok := x.Addr.(*ssa.FieldAddr); ok && fb.Field == fa.Field && types.Identical(fb.X.Type(), fa.X.Type()) {
					// the initialisation of a struct that is being built does not count
					if _, fresh := fb.X.(*ssa.Alloc); fresh && fb.X != fa.X {
						continue
					}
					return true
				}
			case ssa.CallInstruction:
				if depth > 0 {
					if h := staticCallee(x); h != nil && strings.HasPrefix(pkgPathOf(h), modPath) {
						if fieldAssignedIn(h, fa, depth-1, seen) {
							return true
						}
					}
				}
			}
		}
	}
	return false
}

func (ge *guardEnv) guardedLocalX1(f *ssa.Function, target ssa.Instruction, g Guard, depth int, extra map[Edge]bool) (bool, []*ssa.BasicBlock) {
	if target.Parent() != f {
		// the instruction lives in a transparent helper under f: the guard may hold at any level of the chain
		chain := siteChain(f, target)
		if chain == nil {
			return false, nil
		}
		var lastPath []*ssa.BasicBlock
		for _, l := range chain {
			ok, p := ge.guardedLocalX(l.fn, l.at, g, depth, nil)
			if ok {
				return true, nil
			}
			lastPath = p
		}
		return false, lastPath
	}
	edges := ge.passEdges(f, g, depth)
	if len(extra) > 0 {
		m := map[Edge]bool{}
		for e := range edges {
			m[e] = true
		}
		for e := range extra {
			m[e] = true
		}
		edges = m
	}
	// a call to a helper without success indicator that establishes g on every return (panics or
	// never returns otherwise) guards everything after it
	var kill func(ssa.Instruction) bool
	if depth > 0 {
		kill = func(in ssa.Instruction) bool {
			c, ok := in.(*ssa.Call)
			if !ok || in == target {
				return false
			}
			h := staticCallee(c)
			if h == nil || h.Blocks == nil || !summarisable(h) || hasSuccessIndicator(h) {
				return false
			}
			return ge.ensuresAt(c, h, g, depth-1)
		}
	}
	r, p := reachFromEntry(f, edges, kill, target)
	return !r, p
}

func isPredicate(h *ssa.Function) bool {
	res := h.Signature.Results()
	if res.Len() != 1 {
		return false
	}
	b, ok := res.At(0).Type().Underlying().(*types.Basic)
	return ok && b.Kind() == types.Bool
}

// predicateEnsures: whenever the predicate h (called at `call`) returns `want`, g holds — decided over the
// shape of the returned value: constants need g on all paths to them, `a && b` / `a || b` phis are followed
// per edge, a returned comparison is itself the atom.
func (ge *guardEnv) predicateEnsures(call ssa.CallInstruction, h *ssa.Function, g Guard, want bool, depth int) bool {
	return ge.predicateEnsuresIdx(call, h, g, want, depth, 0)
}

// predicateEnsuresIdx: g holds on every way h can answer `want` in its boolean result number idx (a flag
// among several results: `found, giveUp, err := scan(...)`).
func (ge *guardEnv) predicateEnsuresIdx(call ssa.CallInstruction, h *ssa.Function, g Guard, want bool, depth int, idx int) bool {
	args := call.Common().Args
	sub := map[ssa.Value]string{}
	if len(args) == len(h.Params) {
		for i, p := range h.Params {
			sub[p] = ge.w.expr(args[i])
		}
	}
	saved := ge.w.subst
	ge.w.subst = sub
	defer func() { ge.w.subst = saved }()
	var check func(v ssa.Value, at ssa.Instruction, pred, blk *ssa.BasicBlock, want bool, d int) bool
	check = func(v ssa.Value, at ssa.Instruction, pred, blk *ssa.BasicBlock, want bool, d int) bool {
		if d > 6 {
			return false
		}
		locally := func() bool {
			if pred != nil {
				ok, _ := ge.guardedEdge(h, pred, blk, g, depth)
				return ok
			}
			ok, _ := ge.guardedLocal(h, at, g, depth)
			return ok
		}
		switch x := v.(type) {
		case *ssa.Const:
			if b, ok := boolConst(x); ok && b != want {
				return true
			}
			return locally()
		case *ssa.Phi:
			for i, e := range x.Edges {
				p := x.Block().Preds[i]
				if !check(e, p.Instrs[len(p.Instrs)-1], p, x.Block(), want, d+1) {
					return false
				}
			}
			return true
		case *ssa.UnOp:
			if x.Op == token.NOT {
				return check(x.X, at, pred, blk, !want, d+1)
			}
		}
		if g.Match(ge.w, h, normCond(v, want)) {
			return true
		}
		if c := valueCall(v); c != nil && depth > 0 {
			if h2 := staticCallee(c); h2 != nil && h2.Blocks != nil && h2 != h && summarisable(h2) && isPredicate(h2) {
				if ge.predicateEnsures(c, h2, g, want, depth-1) {
					return true
				}
			}
		}
		return locally()
	}
	for _, b := range h.Blocks {
		if len(b.Instrs) == 0 {
			continue
		}
		if ret, ok := b.Instrs[len(b.Instrs)-1].(*ssa.Return); ok {
			if idx >= len(ret.Results) {
				return false
			}
			if !check(resultValueAt(ret, idx), ret, nil, nil, want, 0) {
				return false
			}
		}
	}
	return true
}

// resultValueAt: the value a return hands back in result idx; a named result spilled to a slot (defer,
// address taken) is followed to the value stored last in the returning block, if there is one.
func resultValueAt(ret *ssa.Return, idx int) ssa.Value {
	v := ret.Results[idx]
	for i := 0; i < 4; i++ {
		nv := slotValueBefore(v, ret.Block())
		if nv == v {
			break
		}
		v = nv
	}
	return v
}

// slotValueBefore: for a load of a local slot, the value stored last in blk, else in the nearest dominating
// block that stores into the slot; anything else is returned unchanged.
func slotValueBefore(v ssa.Value, blk *ssa.BasicBlock) ssa.Value {
	u, ok := v.(*ssa.UnOp)
	if !ok || u.Op != token.MUL {
		return v
	}
	al, ok := u.X.(*ssa.Alloc)
	if !ok {
		return v
	}
	for d := blk; d != nil; d = d.Idom() {
		var last ssa.Value
		for _, in := range d.Instrs {
			if in == ssa.Instruction(u) && d == u.Block() {
				break
			}
			if st, ok := in.(*ssa.Store); ok && st.Addr == ssa.Value(al) {
				last = st.Val
			}
		}
		if last != nil && last != v {
			return last
		}
	}
	return v
}

// guardedEdge: every path from entry that takes the edge p→s crosses a pass edge of g (the edge itself counts).
func (ge *guardEnv) guardedEdge(f *ssa.Function, p, s *ssa.BasicBlock, g Guard, depth int) (bool, []*ssa.BasicBlock) {
	pe := ge.passEdges(f, g, depth)
	all := true
	for i, x := range p.Succs {
		if x == s && !pe[Edge{p, i}] {
			all = false
		}
	}
	if all {
		return true, nil
	}
	// the edge must be *taken*: reaching p on a path that has already decided p's condition the other way
	// (an error value known non-nil flowing into `if err != nil`) does not count
	var kill func(ssa.Instruction) bool
	if depth > 0 {
		kill = func(in ssa.Instruction) bool {
			c, ok := in.(*ssa.Call)
			if !ok {
				return false
			}
			h := staticCallee(c)
			if h == nil || h.Blocks == nil || !summarisable(h) || hasSuccessIndicator(h) {
				return false
			}
			return ge.ensuresAt(c, h, g, depth-1)
		}
	}
	q := &pathQ{
		blocked:    func(e Edge) bool { return pe[e] },
		kill:       kill,
		targetEdge: func(e Edge) bool { return e.From == p && p.Succs[e.Succ] == s },
	}
	if len(f.Blocks) == 0 {
		return true, nil
	}
	hit, path := q.reach(f.Blocks[0], 0)
	return hit == nil, path
}

func hasSuccessIndicator(h *ssa.Function) bool {
	res := h.Signature.Results()
	if res.Len() == 0 {
		return false
	}
	last := res.At(res.Len() - 1).Type()
	if types.Identical(last, errorType) {
		return true
	}
	b, ok := last.Underlying().(*types.Basic)
	return ok && b.Kind() == types.Bool
}

// ensuresAt evaluates ensures(h, g) for one call site: h's parameters are rendered as the caller's
// argument expressions, so guards phrased over the caller's values match inside the helper.
func (ge *guardEnv) ensuresAt(call ssa.CallInstruction, h *ssa.Function, g Guard, depth int) bool {
	args := call.Common().Args
	sub := map[ssa.Value]string{}
	var keyParts []string
	if len(args) == len(h.Params) {
		for i, p := range h.Params {
			sub[p] = ge.w.expr(args[i])
			keyParts = append(keyParts, sub[p])
		}
	}
	// free variables of closures keep their names
	saved := ge.w.subst
	ge.w.subst = sub
	defer func() { ge.w.subst = saved }()
	return ge.ensuresKeyed(h, g, depth, strings.Join(keyParts, ","))
}

// ensuresAtNested: ensuresAt evaluated while another substitution may be active (the arguments are rendered
// under it, so a chain caller → helper → helper keeps the outermost terms).
func (ge *guardEnv) ensuresAtNested(call ssa.CallInstruction, h *ssa.Function, g Guard, depth int) bool {
	return ge.ensuresAt(call, h, g, depth)
}

// ensures: g holds at every success return of h.
func (ge *guardEnv) ensures(h *ssa.Function, g Guard, depth int) bool {
	saved := ge.w.subst
	ge.w.subst = nil
	defer func() { ge.w.subst = saved }()
	return ge.ensuresKeyed(h, g, depth, "")
}

func (ge *guardEnv) ensuresKeyed(h *ssa.Function, g Guard, depth int, ctx string) bool {
	key := funcKey(h) + "|" + g.Name + "|" + g.Key + "|" + ctx
	switch ge.memo[key] {
	case 1:
		return true
	case 2, 3:
		return false
	}
	ge.memo[key] = 3
	ok := ge.ensuresUncached(h, g, depth)
	if ok {
		ge.memo[key] = 1
	} else {
		ge.memo[key] = 2
	}
	return ok
}

func (ge *guardEnv) ensuresUncached(h *ssa.Function, g Guard, depth int) bool {
	pts := successPoints(ge.w, h)
	if len(pts) == 0 {
		return false
	}
	for _, p := range pts {
		if p.viaCallee != nil && depth > 0 {
			// `return helper(args)`: the helper's success summary, in this function's terms where the
			// call is at hand (its parameters rendered as the arguments)
			if call := valueCall(p.val); call != nil && staticCallee(call) == p.viaCallee && len(call.Common().Args) == len(p.viaCallee.Params) {
				if ge.ensuresAtNested(call, p.viaCallee, g, depth-1) {
					continue
				}
			} else if ge.ensures(p.viaCallee, g, depth-1) {
				continue
			}
		}
		// `return check(...)`: success of the function is success of that very check
		if p.val != nil {
			at := Atom{Kind: "nil", V: p.val}
			if !p.wantNil {
				// `return x == nil`, `return a < b`, `return !bad(y)`: the returned condition itself is the atom
				at = normCond(p.val, true)
			}
			if g.Match(ge.w, h, at) {
				continue
			}
		}
		// `return res, err` reached over an edge on which err is known non-nil is not a success
		var extra map[Edge]bool
		if p.val != nil {
			bad := "false"
			if p.wantNil {
				bad = "nonnil"
			}
			for _, ea := range condEdges(h) {
				if ea.A.Kind == bad && ea.A.V != nil && sameValue(ea.A.V, p.val) {
					if extra == nil {
						extra = map[Edge]bool{}
					}
					extra[ea.E] = true
				}
			}
		}
		if ok, _ := ge.guardedLocalX(h, p.at, g, depth, extra); !ok {
			return false
		}
	}
	return true
}

// guarded: guardedLocal, or (lifting) every caller of f is guarded at its call site.
func (ge *guardEnv) guarded(f *ssa.Function, target ssa.Instruction, g Guard, lift int) (bool, string) {
	ok, path := ge.guardedLocal(f, target, g, ge.maxDep)
	if ok {
		return true, ""
	}
	why := fmt.Sprintf("in %s a path reaches the site without guard %q: %s", funcKey(f), g.Name, pathStr(ge.w, path))
	if lift <= 0 {
		if site := transparentSite(f); site != nil {
			// an extracted helper: the guard may sit in front of its only call site
			return ge.guarded(site.Parent(), site, g, 0)
		}
		return false, why
	}
	callers := ge.w.callersOf(f)
	if len(callers) == 0 {
		return false, why + " (no in-scope callers to lift to)"
	}
	for _, cs := range callers {
		cf := cs.Parent()
		ok, sub := ge.guarded(cf, cs, g, lift-1)
		if !ok {
			return false, why + "; caller: " + sub
		}
	}
	return true, ""
}

// successPoint is a program point of h after which h returns "success" (nil error / true).
type successPoint struct {
	at        ssa.Instruction
	viaCallee *ssa.Function // the returned value is the unmodified result of this callee
	val       ssa.Value     // the returned indicator value when it is not a constant
	wantNil   bool
}

var errorType = types.Universe.Lookup("error").Type()

// successPoints classifies the returns of h. The success indicator is the last result if it is an
// error (success = nil) or a bool (success = true); otherwise every return is a success.
func successPoints(w *World, h *ssa.Function) []successPoint {
	res := h.Signature.Results()
	idx := -1
	wantNil := true
	if res.Len() > 0 {
		last := res.At(res.Len() - 1).Type()
		if types.Identical(last, errorType) {
			idx = res.Len() - 1
		} else if b, ok := last.Underlying().(*types.Basic); ok && b.Kind() == types.Bool {
			idx = res.Len() - 1
			wantNil = false
		}
	}
	var out []successPoint
	for _, b := range h.Blocks {
		if len(b.Instrs) == 0 {
			continue
		}
		ret, ok := b.Instrs[len(b.Instrs)-1].(*ssa.Return)
		if !ok {
			continue
		}
		if idx < 0 {
			out = append(out, successPoint{at: ret})
			continue
		}
		out = append(out, classifyResult(w, h, ret, ret.Results[idx], wantNil, 0)...)
	}
	return out
}

func classifyResult(w *World, h *ssa.Function, at ssa.Instruction, v ssa.Value, wantNil bool, depth int) []successPoint {
	if depth > 6 {
		return []successPoint{{at: at}}
	}
	switch x := v.(type) {
	case *ssa.Const:
		if wantNil {
			if x.Value == nil {
				return []successPoint{{at: at}}
			}
			return nil
		}
		if b, ok := boolConst(x); ok {
			if b {
				return []successPoint{{at: at}}
			}
			return nil
		}
	case *ssa.MakeInterface:
		if wantNil {
			return nil // a concrete value wrapped in an interface is a non-nil error
		}
	case *ssa.Phi:
		var out []successPoint
		for i, e := range x.Edges {
			pred := x.Block().Preds[i]
			last := pred.Instrs[len(pred.Instrs)-1]
			// the edge pred→phi-block may itself decide the value (if err == nil {...}; return err)
			if ifi, ok := last.(*ssa.If); ok {
				failing := false
				for si, sb := range pred.Succs {
					if sb != x.Block() {
						continue
					}
					a := normCond(ifi.Cond, si == 0)
					if a.V != nil && sameValue(a.V, e) && (wantNil && a.Kind == "nonnil" || !wantNil && a.Kind == "false") {
						failing = true
					}
				}
				if failing {
					continue
				}
			}
			out = append(out, classifyResult(w, h, last, e, wantNil, depth+1)...)
		}
		return out
	case *ssa.UnOp:
		if x.Op == token.MUL {
			if al, ok := x.X.(*ssa.Alloc); ok {
				// defer-spilled / address-taken named result: every store is a candidate
				var out []successPoint
				stores := 0
				for _, ref := range *al.Referrers() {
					if st, ok := ref.(*ssa.Store); ok && st.Addr == al {
						stores++
						// only a store whose value can still be in the slot at this return matters
						q := &pathQ{kill: func(in ssa.Instruction) bool {
							o, ok := in.(*ssa.Store)
							return ok && o.Addr == al && o != st
						}, target: func(in ssa.Instruction) bool { return in == at }}
						if hit, _ := q.reach(st.Block(), instrIndex(st)+1); hit == nil {
							continue
						}
						out = append(out, classifyResult(w, h, st, st.Val, wantNil, depth+1)...)
					}
				}
				if stores == 0 {
					return []successPoint{{at: at}}
				}
				// zero value (nil / false) flows if a return is reachable without any store
				if wantNil {
					q := &pathQ{kill: func(in ssa.Instruction) bool {
						st, ok := in.(*ssa.Store)
						return ok && st.Addr == al
					}, target: func(in ssa.Instruction) bool { return in == at }}
					if in, _ := q.reach(h.Blocks[0], 0); in != nil {
						out = append(out, successPoint{at: at})
					}
				}
				return out
			}
			if g, ok := x.X.(*ssa.Global); ok && wantNil && (strings.HasPrefix(g.Name(), "Err") || strings.HasPrefix(g.Name(), "err")) {
				return nil // sentinel error variable
			}
		}
		if x.Op == token.NOT && !wantNil {
			// !v is true iff v is false: no cheap classification; fall through
		}
	}
	// dominated by an edge that makes v non-nil / false ⇒ failure return
	blk := at.Block()
	for _, ea := range dominatingAtoms(blk) {
		// v == sentinel (a package-level error variable) implies v != nil
		if wantNil && ea.Kind == "cmp" && ea.Op == token.EQL {
			hit := false
			for _, pair := range [][2]ssa.Value{{ea.X, ea.Y}, {ea.Y, ea.X}} {
				if sameValue(pair[0], v) {
					if u, ok := pair[1].(*ssa.UnOp); ok {
						if _, isG := u.X.(*ssa.Global); isG {
							hit = true
						}
					}
				}
			}
			if hit {
				return nil
			}
		}
		if ea.V == nil {
			continue
		}
		// errors.Is(v, target) == true implies v != nil
		if wantNil && ea.Kind == "true" {
			if ic := valueCall(ea.V); ic != nil {
				if d, ok := describeCallee(ic); ok && d.Pkg == "errors" && (d.Name == "Is" || d.Name == "As") && len(ic.Common().Args) == 2 && sameValue(ic.Common().Args[0], v) {
					return nil
				}
			}
		}
		// v == sentinel (a package-level error variable) implies v != nil
		if wantNil && ea.Kind == "cmp" && ea.Op == token.EQL {
			for _, pair := range [][2]ssa.Value{{ea.X, ea.Y}, {ea.Y, ea.X}} {
				if sameValue(pair[0], v) {
					if u, ok := pair[1].(*ssa.UnOp); ok {
						if _, isG := u.X.(*ssa.Global); isG {
							return nil
						}
					}
				}
			}
		}
		// isKind(v) == true for an in-module predicate that type-tests its argument (`_, ok := err.(T); return
		// ok`, or errors.As) implies v != nil
		if wantNil && ea.Kind == "true" {
			if pc := valueCall(ea.V); pc != nil && len(pc.Common().Args) == 1 && sameValue(pc.Common().Args[0], v) {
				if ph := staticCallee(pc); ph != nil && ph.Blocks != nil && summarisable(ph) && typeTestsItsArgument(ph) {
					return nil
				}
			}
		}
		// a successful type assertion x.(T) implies x != nil
		if wantNil && ea.Kind == "true" {
			if ex, ok := ea.V.(*ssa.Extract); ok && ex.Index == 1 {
				if ta, ok := ex.Tuple.(*ssa.TypeAssert); ok {
					ea = Atom{Kind: "nonnil", V: ta.X}
				}
			}
		}
		if wantNil && ea.Kind == "nonnil" {
			// errors.Unwrap(v) != nil implies v != nil
			if uc := valueCall(ea.V); uc != nil {
				if d, ok := describeCallee(uc); ok && d.Pkg == "errors" && d.Name == "Unwrap" && len(uc.Common().Args) == 1 && sameValue(uc.Common().Args[0], v) {
					return nil
				}
			}
		}
		if sameValue(ea.V, v) {
			if wantNil && ea.Kind == "nonnil" {
				return nil
			}
			if !wantNil && ea.Kind == "false" {
				return nil
			}
		}
	}
	if c := valueCall(v); c != nil {
		d, _ := describeCallee(c)
		if wantNil && (d.Pkg == "fmt" && d.Name == "Errorf" || d.Pkg == "errors" && d.Name == "New") {
			return nil
		}
		if cf := staticCallee(c); cf != nil && cf.Blocks != nil {
			// an error-mapping helper that never answers nil (every return is a sentinel, a wrapped or a
			// known non-nil error) makes this a failure return
			if wantNil && cf != h && depth < 3 && !w.neverBusy[cf] {
				if w.neverBusy == nil {
					w.neverBusy = map[*ssa.Function]bool{}
				}
				w.neverBusy[cf] = true
				sp := successPoints(w, cf)
				delete(w.neverBusy, cf)
				res := cf.Signature.Results()
				if len(sp) == 0 && res.Len() > 0 && types.Identical(res.At(res.Len()-1).Type(), errorType) {
					if ex, isEx := v.(*ssa.Extract); !isEx || ex.Index == res.Len()-1 {
						return nil
					}
				}
			}
			return []successPoint{{at: at, viaCallee: cf, val: v, wantNil: wantNil}}
		}
	}
	return []successPoint{{at: at, val: v, wantNil: wantNil}}
}

func sameValue(a, b ssa.Value) bool {
	return a == b || stripConv(a) == stripConv(b)
}

// dominatingAtoms lists the atoms of conditional edges that dominate block b
// (edges P→D where D has the single predecessor P and D dominates b).
func dominatingAtoms(b *ssa.BasicBlock) []Atom {
	var out []Atom
	for d := b; d != nil; d = d.Idom() {
		if len(d.Preds) != 1 {
			continue
		}
		p := d.Preds[0]
		if ifi, ok := p.Instrs[len(p.Instrs)-1].(*ssa.If); ok {
			if p.Succs[0] == d && p.Succs[1] != d {
				out = append(out, normCond(ifi.Cond, true))
			} else if p.Succs[1] == d && p.Succs[0] != d {
				out = append(out, normCond(ifi.Cond, false))
			}
		}
	}
	return out
}

// atomsAt returns the strings of all atoms dominating an instruction.
func (w *World) atomsAt(in ssa.Instruction) []string {
	var out []string
	for _, a := range dominatingAtoms(in.Block()) {
		out = append(out, w.atomStr(a))
	}
	return out
}

// ---------------------------------------------------------------------------
// Callers (static + function-valued fields + closures)

func (w *World) buildCallers() {
	if w.callers != nil {
		return
	}
	w.callers = map[*ssa.Function][]ssa.CallInstruction{}
	w.fieldFns = map[*types.Var][]*ssa.Function{}
	// function values stored into struct fields
	for _, f := range w.Funcs {
		for _, b := range f.Blocks {
			for _, in := range b.Instrs {
				st, ok := in.(*ssa.Store)
				if !ok {
					continue
				}
				fa, ok := st.Addr.(*ssa.FieldAddr)
				if !ok {
					continue
				}
				if _, ok := fa.Type().Underlying().(*types.Pointer).Elem().Underlying().(*types.Signature); !ok {
					continue
				}
				fv := fieldVar(fa.X.Type(), fa.Field)
				if tgt := funcOfValue(st.Val); tgt != nil && fv != nil {
					w.fieldFns[fv] = append(w.fieldFns[fv], tgt)
				}
			}
		}
	}
	for _, f := range w.Funcs {
		for _, c := range rawCallInstrs(f) {
			if sc := staticCallee(c); sc != nil {
				w.callers[sc] = append(w.callers[sc], c)
				continue
			}
			// call through a function-valued field
			v := c.Common().Value
			if u, ok := v.(*ssa.UnOp); ok && u.Op == token.MUL {
				if fa, ok := u.X.(*ssa.FieldAddr); ok {
					if fv := fieldVar(fa.X.Type(), fa.Field); fv != nil {
						for _, tgt := range w.fieldFns[fv] {
							w.callers[tgt] = append(w.callers[tgt], c)
						}
					}
				}
			}
			if fl, ok := v.(*ssa.Field); ok {
				if fv := fieldVar(fl.X.Type(), fl.Field); fv != nil {
					for _, tgt := range w.fieldFns[fv] {
						w.callers[tgt] = append(w.callers[tgt], c)
					}
				}
			}
		}
	}
}

func funcOfValue(v ssa.Value) *ssa.Function {
	v = stripConv(v)
	switch x := v.(type) {
	case *ssa.Function:
		return unwrapSynthetic(x)
	case *ssa.MakeClosure:
		if f, ok := x.Fn.(*ssa.Function); ok {
			return unwrapSynthetic(f)
		}
	}
	return nil
}

// callersOf returns the in-scope call sites that may invoke f: static calls, calls through
// function-valued struct fields f was stored in, and interface invocations of a method f implements.
func (w *World) callersOf(f *ssa.Function) []ssa.CallInstruction {
	w.buildCallers()
	out := append([]ssa.CallInstruction{}, w.callers[f]...)
	if f.Signature.Recv() != nil {
		rt := f.Signature.Recv().Type()
		for _, g := range w.Funcs {
			for _, c := range rawCallInstrs(g) {
				cc := c.Common()
				if cc.IsInvoke() && cc.Method.Name() == f.Name() {
					if it, ok := cc.Value.Type().Underlying().(*types.Interface); ok && types.Implements(rt, it) {
						out = append(out, c)
					}
				}
			}
		}
	}
	return out
}

// ---------------------------------------------------------------------------
// Stores and field access

// fieldStores lists stores to field `field` of named struct type pkg.typ in in-scope functions.
type FieldStore struct {
	Fn    *ssa.Function
	Store *ssa.Store
	Addr  *ssa.FieldAddr
}

func (w *World) fieldStores(pkg, typ, field string) []FieldStore {
	var out []FieldStore
	for _, f := range w.Funcs {
		out = append(out, w.fieldStoresIn(f, pkg, typ, field)...)
	}
	return out
}

func isFieldOf(fa *ssa.FieldAddr, pkg, typ, field string) bool {
	n := derefNamed(fa.X.Type())
	if n == nil || n.Obj().Name() != typ || shortPath(n.Obj().Pkg()) != pkg {
		return false
	}
	return field == "*" || fieldName(fa.X.Type(), fa.Field) == field
}

func (w *World) fieldStoresIn(f *ssa.Function, pkg, typ, field string) []FieldStore {
	out := w.fieldStoresInRaw(f, pkg, typ, field)
	for _, h := range transparentBodies(f) {
		out = append(out, w.fieldStoresInRaw(h, pkg, typ, field)...)
	}
	return out
}

func (w *World) fieldStoresInRaw(f *ssa.Function, pkg, typ, field string) []FieldStore {
	var out []FieldStore
	for _, b := range f.Blocks {
		for _, in := range b.Instrs {
			st, ok := in.(*ssa.Store)
			if !ok {
				continue
			}
			fa, ok := st.Addr.(*ssa.FieldAddr)
			if !ok {
				continue
			}
			if isFieldOf(fa, pkg, typ, field) {
				out = append(out, FieldStore{f, st, fa})
			}
		}
	}
	return out
}

// fieldReadsIn lists instructions in f that read field pkg.typ.field (loads through FieldAddr, or Field).
func (w *World) fieldReadsIn(f *ssa.Function, pkg, typ, field string) []ssa.Instruction {
	var out []ssa.Instruction
	for _, b := range f.Blocks {
		for _, in := range b.Instrs {
			switch x := in.(type) {
			case *ssa.FieldAddr:
				if isFieldOf(x, pkg, typ, field) {
					// a read if some referrer loads it (or passes it on); a pure store target is not a read
					for _, r := range *x.Referrers() {
						if st, ok := r.(*ssa.Store); ok && st.Addr == x {
							continue
						}
						out = append(out, in)
						break
					}
				}
			case *ssa.Field:
				n := derefNamed(x.X.Type())
				if n != nil && n.Obj().Name() == typ && shortPath(n.Obj().Pkg()) == pkg && (field == "*" || fieldName(x.X.Type(), x.Field) == field) {
					out = append(out, in)
				}
			}
		}
	}
	return out
}

// ---------------------------------------------------------------------------
// Misc

func (w *World) ipos(in ssa.Instruction) string {
	if in.Pos().IsValid() {
		return w.pos(in.Pos())
	}
	// fall back to nearest positioned instruction in the block
	for _, x := range in.Block().Instrs {
		if x.Pos().IsValid() {
			return w.pos(x.Pos())
		}
	}
	return w.pos(in.Parent().Pos())
}

func constInt(v ssa.Value) (int64, bool) {
	c, ok := stripConv(v).(*ssa.Const)
	if !ok || c.Value == nil {
		return 0, false
	}
	if c.Value.Kind() != constant.Int {
		return 0, false
	}
	i, ok := constant.Int64Val(c.Value)
	return i, ok
}

// reachableFuncs computes functions reachable from roots via static calls, closures and
// function-valued fields (no interface dispatch unless resolve is given).
func (w *World) reachableFuncs(roots []*ssa.Function, follow func(call ssa.CallInstruction) []*ssa.Function) map[*ssa.Function]bool {
	seen := map[*ssa.Function]bool{}
	var stack []*ssa.Function
	push := func(f *ssa.Function) {
		if f != nil && !seen[f] && f.Blocks != nil {
			seen[f] = true
			stack = append(stack, f)
		}
	}
	for _, r := range roots {
		push(r)
	}
	for len(stack) > 0 {
		f := stack[len(stack)-1]
		stack = stack[:len(stack)-1]
		for _, b := range f.Blocks {
			for _, in := range b.Instrs {
				if mc, ok := in.(*ssa.MakeClosure); ok {
					if cf, ok := mc.Fn.(*ssa.Function); ok {
						push(unwrapSynthetic(cf))
						push(cf)
					}
				}
				if c, ok := in.(ssa.CallInstruction); ok {
					if sc := staticCallee(c); sc != nil {
						push(sc)
					} else if follow != nil {
						for _, t := range follow(c) {
							push(t)
						}
					}
				}
			}
		}
	}
	return seen
}

// inLoop reports the natural-loop body for a header block: blocks dominated by h that can reach h.
func loopBlocks(h *ssa.BasicBlock) map[*ssa.BasicBlock]bool {
	body := map[*ssa.BasicBlock]bool{h: true}
	// back edges: preds of h dominated by h
	var stack []*ssa.BasicBlock
	for _, p := range h.Preds {
		if h.Dominates(p) && !body[p] {
			body[p] = true
			stack = append(stack, p)
		}
	}
	for len(stack) > 0 {
		b := stack[len(stack)-1]
		stack = stack[:len(stack)-1]
		for _, p := range b.Preds {
			if !body[p] && h.Dominates(p) {
				body[p] = true
				stack = append(stack, p)
			}
		}
	}
	return body
}

// summarisable: callee summaries (ensures / predicate summaries) are computed for hand-written in-module
// functions only: generated protobuf code (package proto/..., or *.pb.go) establishes no guard of interest
// and its marshalling functions are large enough to dominate the run time.
func summarisable(h *ssa.Function) bool {
	if h == nil || !strings.HasPrefix(pkgPathOf(h), modPath) {
		return false
	}
	if strings.HasPrefix(relPkg(h), "proto/") {
		return false
	}
	if w := worldFor(h); w != nil && h.Pos().IsValid() && strings.HasSuffix(w.Fset.Position(h.Pos()).Filename, ".pb.go") {
		return false
	}
	return true
}

// typeTestsItsArgument: a one-parameter boolean function every true answer of which comes from a type
// assertion (or errors.As / errors.Is) on that parameter.
func typeTestsItsArgument(h *ssa.Function) bool {
	if len(h.Params) != 1 || h.Signature.Results().Len() != 1 {
		return false
	}
	if b, ok := h.Signature.Results().At(0).Type().Underlying().(*types.Basic); !ok || b.Kind() != types.Bool {
		return false
	}
	tested := false
	for _, blk := range h.Blocks {
		for _, in := range blk.Instrs {
			switch x := in.(type) {
			case *ssa.TypeAssert:
				if stripConv(x.X) == ssa.Value(h.Params[0]) {
					tested = true
				}
			case ssa.CallInstruction:
				if d, ok := describeCallee(x); ok && d.Pkg == "errors" && (d.Name == "As" || d.Name == "Is") && len(x.Common().Args) == 2 && stripConv(x.Common().Args[0]) == ssa.Value(h.Params[0]) {
					tested = true
				}
			}
		}
	}
	if !tested {
		return false
	}
	// no `return true` that does not depend on the test
	for _, blk := range h.Blocks {
		if ret, ok := blk.Instrs[len(blk.Instrs)-1].(*ssa.Return); ok {
			if bv, isC := boolConst(ret.Results[0]); isC && bv && len(blk.Preds) == 0 {
				return false
			}
		}
	}
	return true
}

// unitLoopTrips: the number of times the instruction runs, when it sits in a counted loop of one of the
// shapes `for i := a; i < b; i++`, `for i := a; i <= b; i++`, `for i := a; i > b; i--`, `for i := a; i >= b; i--`
// with loop-invariant bounds, the loop is left only through its header (no break / return / goto out of
// the body) and the instruction's block dominates every latch (no continue around it). The result is the
// canonical rendering of the trip count ("(a - b)" style, with a zero bound dropped); ok is false for
// every other shape — callers treat that as undecided, never as a pass.
func unitLoopTrips(w *World, in ssa.Instruction) (string, bool) {
	return unitLoopTripsX(w, in, nil)
}

// unitLoopTripsX: as unitLoopTrips; exits from the body into a block for which allowExit answers true do not
// count (a caller that only needs "every element was visited unless the function failed" passes the test
// "this block only fails"). The range-over-slice form go/ssa builds (index phi starting at -1, tested as
// index+1 < len) is recognised as well.
func unitLoopTripsX(w *World, in ssa.Instruction, allowExit func(*ssa.BasicBlock) bool) (string, bool) {
	h := loopOf(in)
	if h == nil {
		return "", false
	}
	body := loopBlocks(h)
	// exits only from the header; the instruction runs on every iteration
	for b := range body {
		for _, s := range b.Succs {
			if !body[s] && b != h && !(allowExit != nil && allowExit(s)) {
				return "", false
			}
		}
		if r := b.Instrs[len(b.Instrs)-1]; b != h {
			if _, ret := r.(*ssa.Return); ret {
				return "", false
			}
			if _, pn := r.(*ssa.Panic); pn {
				return "", false
			}
		}
	}
	for _, p := range h.Preds {
		if body[p] && !in.Block().Dominates(p) {
			return "", false
		}
	}
	if in.Block() == h {
		return "", false
	}
	iff, ok := h.Instrs[len(h.Instrs)-1].(*ssa.If)
	if !ok {
		return "", false
	}
	cond, ok := iff.Cond.(*ssa.BinOp)
	if !ok {
		return "", false
	}
	// the true edge stays in the loop
	if !body[h.Succs[0]] || body[h.Succs[1]] {
		return "", false
	}
	// storesTo: the loop stores into field #field of a struct of the type fa addresses
	storesTo := func(fa *ssa.FieldAddr) bool {
		for b := range body {
			for _, in := range b.Instrs {
				if st, ok := in.(*ssa.Store); ok {
					if fb, ok := st.Addr.(*ssa.FieldAddr); ok && fb.Field == fa.Field && types.Identical(fb.X.Type(), fa.X.Type()) {
						return true
					}
				}
			}
		}
		return false
	}
	var invariant func(v ssa.Value) bool
	invariant = func(v ssa.Value) bool {
		switch x := v.(type) {
		case *ssa.Const, *ssa.Parameter, *ssa.FreeVar:
			return true
		case *ssa.Call:
			// len / cap of something that does not change in the loop, re-evaluated in the header
			if b, ok := x.Call.Value.(*ssa.Builtin); ok && (b.Name() == "len" || b.Name() == "cap") && len(x.Call.Args) == 1 {
				if !body[x.Block()] && x.Block().Dominates(h) {
					return true
				}
				return invariant(x.Call.Args[0])
			}
		case *ssa.UnOp:
			// a field re-read in the header (`i < len(res.Items)`): invariant when its holder is and the loop
			// does not store into that field
			if x.Op == token.MUL && body[x.Block()] {
				if fa, ok := x.X.(*ssa.FieldAddr); ok && invariant(fa.X) && !storesTo(fa) {
					return true
				}
				return false
			}
		}
		if x, ok := v.(ssa.Instruction); ok {
			return !body[x.Block()] && x.Block().Dominates(h)
		}
		return false
	}
	phi, ok := cond.X.(*ssa.Phi)
	bound := cond.Y
	op := cond.Op
	if inc, isInc := cond.X.(*ssa.BinOp); !ok && isInc && inc.Op == token.ADD && op == token.LSS {
		// for i := range xs: i = phi(-1, i+1); tested as i+1 < len(xs) before the body
		if p, isPhi := inc.X.(*ssa.Phi); isPhi && p.Block() == h && len(p.Edges) == len(h.Preds) {
			if k, isK := constInt(inc.Y); isK && k == 1 && invariant(bound) {
				good := true
				for i, e := range p.Edges {
					if body[h.Preds[i]] {
						good = good && e == ssa.Value(inc)
					} else {
						k0, isK0 := constInt(e)
						good = good && isK0 && k0 == -1
					}
				}
				if good {
					return w.expr(bound), true
				}
			}
		}
		return "", false
	}
	if !ok {
		// bound OP i  ==  i OP' bound
		phi, ok = cond.Y.(*ssa.Phi)
		bound = cond.X
		switch op {
		case token.LSS:
			op = token.GTR
		case token.LEQ:
			op = token.GEQ
		case token.GTR:
			op = token.LSS
		case token.GEQ:
			op = token.LEQ
		}
	}
	if !ok || phi.Block() != h || !invariant(bound) || len(phi.Edges) != len(h.Preds) {
		return "", false
	}
	var init ssa.Value
	step := int64(0)
	for i, e := range phi.Edges {
		if body[h.Preds[i]] {
			b, ok := e.(*ssa.BinOp)
			if !ok || b.X != ssa.Value(phi) {
				return "", false
			}
			k, isK := constInt(b.Y)
			if !isK || k != 1 {
				return "", false
			}
			var s int64
			switch b.Op {
			case token.ADD:
				s = 1
			case token.SUB:
				s = -1
			default:
				return "", false
			}
			if step != 0 && step != s {
				return "", false
			}
			step = s
		} else {
			if init != nil && init != e {
				return "", false
			}
			init = e
		}
	}
	if init == nil || step == 0 || !invariant(init) {
		return "", false
	}
	// the induction variable is not assigned anywhere else: SSA guarantees that (phi has only the edges above)
	diff := func(hi, lo ssa.Value) string {
		if k, isK := constInt(lo); isK && k == 0 {
			return w.expr(hi)
		}
		return "(" + w.expr(hi) + " - " + w.expr(lo) + ")"
	}
	switch {
	case step == 1 && op == token.LSS:
		return diff(bound, init), true
	case step == 1 && op == token.LEQ:
		return "(" + diff(bound, init) + " + 1)", true
	case step == -1 && op == token.GTR:
		return diff(init, bound), true
	case step == -1 && op == token.GEQ:
		return "(" + diff(init, bound) + " + 1)", true
	}
	return "", false
}
