package main

import (
	"fmt"
	"go/token"
	"regexp"
	"strings"

	"golang.org/x/tools/go/ssa"
)

// blockIDParts returns the expressions stored into the Hash / PartSetHeader fields of a local BlockID.
func blockIDParts(w *World, v ssa.Value) (hash, psh string) {
	al := allocOf(v)
	if al == nil {
		return "", ""
	}
	for _, r := range *al.Referrers() {
		if fa, ok := r.(*ssa.FieldAddr); ok {
			for _, rr := range *fa.Referrers() {
				if st, ok := rr.(*ssa.Store); ok && st.Addr == fa {
					switch fieldName(fa.X.Type(), fa.Field) {
					case "Hash":
						hash = w.expr(st.Val)
					case "PartSetHeader":
						psh = w.expr(st.Val)
					}
				}
			}
		}
	}
	return
}

func ruleBlockSync(c *Ctx) {
	w := c.W
	k := newKeyer()
	n := 0
	for _, f := range w.Funcs {
		if !strings.HasPrefix(relPkg(f), "blockchain/") {
			continue
		}
		// v0, v1: direct calls; v2: the processor calls its context
		saves := w.callsTo(f, "store#BlockStore.SaveBlock", "blockchain/v2#processorContext.saveBlock")
		applies := w.callsTo(f, specApply, "blockchain/v2#processorContext.applyBlock")
		if len(saves) == 0 || len(applies) == 0 {
			continue
		}
		n++
		fk := funcKey(f)
		sv, ap := saves[0], applies[0]
		sa, aa := callArgs(sv), callArgs(ap)
		first := w.expr(sa[0])
		parts := w.expr(sa[1])
		commit := w.expr(sa[2])
		idArg := aa[len(aa)-2]
		applied := w.expr(aa[len(aa)-1])
		c.Check(first == applied, fk+" :: saved block is the executed block", w.ipos(sv), "SaveBlock and ApplyBlock act on the same block", "SaveBlock stores "+first+" but ApplyBlock executes "+applied)
		c.Check(regexp.MustCompile(`^`+q(first)+`\.MakePartSet\(\d+\)$`).MatchString(parts), fk+" :: saved parts are made from the block", w.ipos(sv), parts, "parts saved are "+parts)
		h, psh := blockIDParts(w, idArg)
		c.Check(h == first+".Hash()" && psh == parts+".Header()", fk+" :: block id = {first.Hash(), parts.Header()}", w.ipos(ap), "block id is computed from the block and its own parts", "block id is {"+h+", "+psh+"}")
		second := strings.TrimSuffix(commit, ".LastCommit")
		c.Check(strings.HasSuffix(commit, ".LastCommit") && second != first, fk+" :: seen commit is the next block's LastCommit", w.ipos(sv), commit, "seen commit is "+commit)
		// verification guard
		var state string
		verifySpec := `\.Validators\.VerifyCommit(Light)?\(`
		if len(aa) == 3 {
			state = w.expr(aa[0])
		}
		height := `(` + q(first) + `\.Header\.Height|` + q(first) + `\.Height)`
		var g Guard
		if state != "" {
			g = guardRe("commit of the next block verifies for {hash, parts header} of this block under the running state's validators",
				`^nil\(`+q(state)+verifySpec+`[\w\.]+ChainID, `+q(w.expr(idArg))+`, `+height+`, `+q(commit)+`\)\)$`)
		} else {
			g = guardRe("commit of the next block verifies for {hash, parts header} of this block (via the processor context)",
				`^nil\(.*\.verifyCommit\([\w\.\(\)]+ChainID, `+q(w.expr(idArg))+`, `+height+`, `+q(commit)+`\)\)$`)
		}
		for _, s := range []ssa.CallInstruction{sv, ap} {
			c.guards(f, s, k.key(f, map[bool]string{true: "SaveBlock", false: "ApplyBlock"}[s == sv]), 1, g)
		}
		// the running state is the result of the previous ApplyBlock
		if state != "" {
			okState := false
			for _, b := range f.Blocks {
				for _, in := range b.Instrs {
					if st, ok := in.(*ssa.Store); ok && regexp.MustCompile(`\.ApplyBlock\(.*\)#0$`).MatchString(w.expr(st.Val)) {
						tgt := w.expr(st.Addr)
						if tgt == state || "&"+strings.TrimPrefix(tgt, "&") == state || tgt == strings.TrimPrefix(state, "&") {
							okState = true
						}
					}
				}
			}
			// the same with the state kept in a register: a loop phi fed by ApplyBlock's first result
			if phi, isPhi := aa[0].(*ssa.Phi); isPhi && !okState {
				for _, e := range phi.Edges {
					if ex, isEx := e.(*ssa.Extract); isEx && ex.Index == 0 {
						if cl, isCl := ex.Tuple.(*ssa.Call); isCl && w.isCall(cl, specApply) {
							okState = true
						}
					}
				}
			}
			c.Check(okState, fk+" :: running state advances with each applied block", w.ipos(ap), "state = ApplyBlock(state, …)", "the state used for verification is not updated from ApplyBlock's result")
		}
		// persistence before execution, execution failure is fatal
		okOrder, _ := mustPrecede(f, ap, func(in ssa.Instruction) bool { return in == sv })
		c.Check(okOrder, fk+" :: block stored before it is executed", w.ipos(ap), "SaveBlock precedes ApplyBlock", "ApplyBlock can run without the block having been stored")
		// failure edge: both providers are dropped and their requests redone (v0)
		if relPkg(f) == "blockchain/v0" {
			redoD := w.deepCallsTo(f, 2, "blockchain/v0#BlockPool.RedoRequest")
			stopsD := w.deepCallsTo(f, 2, "p2p#Switch.StopPeerForError")
			var redo []ssa.CallInstruction
			nRedo := 0
			for _, r := range redoD {
				a := r.arg(0)
				if a == first+".Header.Height" || a == second+".Header.Height" {
					nRedo++
				}
				redo = append(redo, r.site)
			}
			c.Check(nRedo == 2, fk+" :: on failure both requests are redone", w.pos(f.Pos()), "RedoRequest(first.Height) and RedoRequest(second.Height)", fmt.Sprintf("found %d matching RedoRequest calls", nRedo))
			nStop := 0
			for _, s := range stopsD {
				if strings.Contains(s.arg(0), "RedoRequest(") {
					nStop++
				}
			}
			c.Check(nStop >= 2, fk+" :: on failure both providers are stopped", w.pos(f.Pos()), "StopPeerForError for the peers of both requests", fmt.Sprintf("%d StopPeerForError calls on redo peers", nStop))
			// the failure edge does not fall through to persistence
			for _, r := range redo {
				qq := &pathQ{target: func(in ssa.Instruction) bool { return in == sv }, kill: func(in ssa.Instruction) bool {
					cc, ok := in.(*ssa.Call)
					return ok && w.isCall(cc, "blockchain/v0#BlockPool.PeekTwoBlocks")
				}}
				hit, _ := qq.reach(r.Block(), instrIndex(r)+1)
				c.Check(hit == nil, k.key(f, "after RedoRequest no SaveBlock in the same iteration"), w.ipos(r), "the failing block is not stored", "SaveBlock is reachable after RedoRequest without peeking new blocks")
			}
		}
	}
	if n < 3 {
		c.Undecided("block sync processing functions", "-", fmt.Sprintf("expected the three block-sync implementations to have a function that saves and applies blocks, found %d", n))
	}
	// v2 context methods pass their arguments through unchanged and verify against the context's state
	if f := c.fn("blockchain/v2", "pContext.verifyCommit"); f != nil {
		rv := returnValues(f, 0)
		ok := len(rv) == 1 && regexp.MustCompile(`^pc\.state\.Validators\.VerifyCommit(Light)?\(chainID, blockID, height, commit\)$`).MatchString(w.expr(rv[0]))
		c.Check(ok, "blockchain/v2.pContext.verifyCommit verifies under the context state's validators", w.pos(f.Pos()), "pc.state.Validators.VerifyCommit*(chainID, blockID, height, commit)", "verifyCommit returns something else")
	}
	if f := c.fn("blockchain/v2", "pContext.saveBlock"); f != nil {
		calls := w.callsTo(f, "blockchain/v2#blockStore.SaveBlock", "store#BlockStore.SaveBlock")
		ok := len(calls) == 1 && regexp.MustCompile(`SaveBlock\(block, blockParts, seenCommit\)$`).MatchString(w.callStr(calls[0]))
		c.Check(ok, "blockchain/v2.pContext.saveBlock passes block, parts and seen commit through", w.pos(f.Pos()), "SaveBlock(block, blockParts, seenCommit)", "saveBlock does not store exactly its arguments")
	}
	if f := c.fn("blockchain/v2", "pContext.applyBlock"); f != nil {
		calls := w.callsTo(f, "blockchain/v2#blockApplier.ApplyBlock", specApply)
		ok := len(calls) == 1 && regexp.MustCompile(`ApplyBlock\(pc\.state, blockID, block\)$`).MatchString(w.callStr(calls[0]))
		okSt := false
		for _, fs := range w.fieldStoresIn(f, "blockchain/v2", "pContext", "state") {
			if strings.HasSuffix(w.expr(fs.Store.Val), "#0") && strings.Contains(w.expr(fs.Store.Val), "ApplyBlock(") {
				okSt = true
			}
		}
		c.Check(ok && okSt, "blockchain/v2.pContext.applyBlock applies on and advances the context state", w.pos(f.Pos()), "pc.state = ApplyBlock(pc.state, blockID, block)", "applyBlock does not apply on / advance pc.state")
		rv := returnValues(f, 0)
		c.Check(len(rv) == 1 && strings.HasSuffix(w.expr(rv[0]), "#2"), "blockchain/v2.pContext.applyBlock returns ApplyBlock's error", w.pos(f.Pos()), "error propagated", "error of ApplyBlock is not returned")
	}
}

// ruleSeenCommitFull: the commit stored as seen commit must have been verified in full.
func ruleSeenCommitFull(c *Ctx) {
	w := c.W
	for _, f := range w.Funcs {
		if !strings.HasPrefix(relPkg(f), "blockchain/") {
			continue
		}
		if transparentSite(f) != nil {
			continue // a helper carved out of one caller: decided there, in the caller's terms
		}
		for _, vc := range w.callsTo(f, "types#ValidatorSet.VerifyCommitLight", "types#ValidatorSet.VerifyCommit") {
			full := w.isCall(vc, "types#ValidatorSet.VerifyCommit")
			c.Check(full, funcKey(f)+" :: stored seen commit verified in full", w.ipos(vc), "VerifyCommit checks every signature of the commit that is then stored as seen commit",
				"the commit later stored as the block's seen commit is only checked with VerifyCommitLight (stops at +2/3): signatures after the threshold are never verified, and consensus panics rebuilding the vote set from it")
		}
	}
}

func ruleValidateBeforePersist(c *Ctx) {
	w := c.W
	for _, pkg := range []string{"blockchain/v0", "blockchain/v1", "blockchain/v2"} {
		n := 0
		for _, f := range w.FuncsInPkg(pkg) {
			var saves []ssa.CallInstruction
			saves = append(saves, w.callsTo(f, "store#BlockStore.SaveBlock")...)
			if pkg == "blockchain/v2" {
				// v2 persists through its processor context
				saves = nil
				for _, call := range callInstrs(f) {
					if strings.HasSuffix(calleeName(call), "processorContext.saveBlock") {
						saves = append(saves, call)
					}
				}
			}
			for _, sv := range saves {
				n++
				first := w.expr(callArgs(sv)[0])
				c.guards(f, sv, funcKey(f)+" :: persist block", 0,
					guardRe("the block passed full validation against the node's state", `^nil\(.*\.[vV]alidateBlock\((.*, )?`+q(first)+`\)\)$`))
			}
		}
		if n == 0 {
			c.Undecided(pkg+" persistence", "-", "no block persistence call found in "+pkg)
		}
	}
}

func ruleReconstructLastCommit(c *Ctx) {
	w := c.W
	for _, f := range w.methodsOf("consensus", "State") {
		for _, fs := range w.fieldStoresIn(f, "consensus/types", "RoundState", "LastCommit") {
			v := w.expr(fs.Store.Val)
			if !strings.Contains(v, "CommitToVoteSet(") {
				continue
			}
			key := funcKey(f) + " :: LastCommit = votes rebuilt from the seen commit"
			c.guards(f, fs.Store, key, 0,
				guardRe("seen commit present", `^nonnil\(.*\.LoadSeenCommit\(\w+\.LastBlockHeight\)\)$`),
				guardRe("rebuilt vote set has +2/3", `^true\(.*CommitToVoteSet\(.*\)\.HasTwoThirdsMajority\(\)\)$`))
			c.Check(regexp.MustCompile(`CommitToVoteSet\(\w+\.ChainID, .*LoadSeenCommit\(\w+\.LastBlockHeight\), \w+\.LastValidators\)$`).MatchString(v), key+" inputs", w.ipos(fs.Store), "seen commit of the last height under the last validators", "rebuilt from "+v)
			// callers: when LastBlockHeight > 0
			for _, cs := range w.callersOf(f) {
				if relPkg(cs.Parent()) != "consensus" || strings.HasSuffix(w.Fset.Position(cs.Pos()).Filename, "_test.go") {
					continue
				}
				c.guards(cs.Parent(), cs, funcKey(cs.Parent())+" :: reconstructLastCommit call", 0, guardCmp("a previous block exists", `\w+\.LastBlockHeight`, ">", "0"))
			}
		}
	}
}

// ruleOnlyFromRequestedPeer: a delivered block is attributed/accepted only when it comes from the peer the
// height was requested from; anything else is refused (and reported as a peer error).
func ruleOnlyFromRequestedPeer(c *Ctx) {
	w := c.W
	k := newKeyer()
	// v0: bpRequester.block
	n := 0
	for _, fs := range w.fieldStores("blockchain/v0", "bpRequester", "block") {
		if storesNil(fs.Store) {
			continue
		}
		n++
		key := k.key(fs.Fn, "requester accepts block")
		c.guards(fs.Fn, fs.Store, key, 0,
			guardCmp("sender is the peer the height was requested from", `\w+\.peerID`, "==", `peerID`),
			guardRe("no block accepted yet for this request", `^nil\(\w+\.block\)$`))
	}
	if n == 0 {
		c.Undecided("v0 requester", "-", "no store to bpRequester.block found")
	}
	if f := c.fn("blockchain/v0", "BlockPool.AddBlock"); f != nil {
		// a refused block leads to a peer error
		for _, ea := range condEdges(f) {
			if ea.A.Kind == "false" && regexp.MustCompile(`\.setBlock\(`).MatchString(w.expr(ea.A.V)) {
				blk := ea.E.From.Succs[ea.E.Succ]
				qq := &pathQ{kill: w.callPred("blockchain/v0#BlockPool.sendError"), target: isReturn}
				hit, _ := qq.reach(blk, 0)
				c.Check(hit == nil, funcKey(f)+" :: refused block reports the sender", w.pos(f.Pos()), "sendError on every path after a refused block", "a refused block does not lead to a peer error")
			}
		}
		for _, call := range w.callsTo(f, "blockchain/v0#bpRequester.setBlock") {
			a := callArgs(call)
			c.Check(w.expr(a[1]) == "peerID" && regexp.MustCompile(`\.requesters\[\w+\.(Header\.)?Height\]$`).MatchString(w.expr(callRecv(call))), funcKey(f)+" :: block offered to the requester of its own height with the sender id", w.ipos(call), w.callStr(call), "setBlock called as "+w.callStr(call))
		}
	}
	// v1
	if f := c.fn("blockchain/v1", "BlockPool.AddBlock"); f != nil {
		for _, call := range w.callsTo(f, "blockchain/v1#BpPeer.AddBlock") {
			c.guards(f, call, funcKey(f)+" :: block handed to the sender's record", 0,
				guardRe("sender is a known peer", `^true\(\w+\.peers\[peerID\]#1\)$`),
				guardAny("height was requested from this sender (or from nobody)", guardCmp("a", `\w+\.blocks\[\w+\.(Header\.)?Height\]#0`, "==", "peerID"), guardRe("b", `^false\(\w+\.blocks\[\w+\.(Header\.)?Height\]#1\)$`)))
			c.Check(strings.HasPrefix(w.expr(callRecv(call)), "pool.peers[peerID]"), funcKey(f)+" :: record is the sender's", w.ipos(call), "peers[peerID].AddBlock", "block added to the record of "+w.expr(callRecv(call)))
		}
	}
	if f := c.fn("blockchain/v1", "BpPeer.AddBlock"); f != nil {
		for _, b := range f.Blocks {
			for _, in := range b.Instrs {
				if mu, ok := in.(*ssa.MapUpdate); ok && strings.HasSuffix(w.expr(mu.Map), ".blocks") && !isNilConst(mu.Value) {
					c.guards(f, mu, funcKey(f)+" :: peer record stores block", 0, guardRe("height was requested from this peer", `^true\(\w+\.blocks\[\w+\.(Header\.)?Height\]#1\)$`))
				}
			}
		}
	}
	// v2
	if f := c.fn("blockchain/v2", "scheduler.markReceived"); f != nil {
		for _, b := range f.Blocks {
			for _, in := range b.Instrs {
				if mu, ok := in.(*ssa.MapUpdate); ok && strings.HasSuffix(w.expr(mu.Map), ".receivedBlocks") {
					c.guards(f, mu, funcKey(f)+" :: block marked received", 0,
						guardCmp("height is pending at this sender", `\w+\.pendingBlocks\[height\]`, "==", "peerID"),
						guardCmp("height is in state pending", `\w+\.getStateAtHeight\(height\)`, "==", fmt.Sprint(c.mustConst("blockchain/v2", "blockStatePending"))))
				}
			}
		}
	}
}

func init() {
	register("C13", "R7", "K1+K5", "a delivered block is accepted only from the peer its height was requested from (all three implementations)", 9, ruleOnlyFromRequestedPeer)
	register("C13", "R1", "K1+K5", "every block-sync implementation stores/executes a block only after the next block's commit verified for exactly its hash and part-set header under the running state's validators", 20, ruleBlockSync)
	register("C13", "R2", "K1", "the commit stored as seen commit was verified in full", 3, ruleSeenCommitFull)
	register("C13", "R3", "K1", "v0, v1, v2: full block validation (ValidateBlock against the node's own state) before the block is persisted", 3, ruleValidateBeforePersist)
	register("C13", "R5", "K1", "hand-over: consensus rebuilds LastCommit from the stored seen commit and requires +2/3", 4, ruleReconstructLastCommit)
	register("C13", "R6", "K1+K11", "the commit verifiers block sync relies on (same rule as C07.R1)", 26, ruleCommitTally)
}

// ------------------------------------------------------------------ C13.R8
// v1 scheduling keeps every height up to the tallest remaining peer on the plan: when a peer is removed,
// planned requests are dropped only for heights strictly above the new maximum, and the next height to plan
// is pulled back only to that maximum + 1. (Dropping the request for the maximum itself leaves the tip
// unrequested for ever: the node stops one block short and never hands over to consensus.)
func init() {
	register("C13", "R8", "K1", "v1 pool: removing a peer un-plans only heights above the new tallest peer", 3, func(c *Ctx) {
		w := c.W
		f := c.fn("blockchain/v1", "BlockPool.RemovePeer")
		if f == nil {
			return
		}
		fk := funcKey(f)
		n := 0
		for _, call := range w.callsTo(f, "builtin#delete") {
			if !strings.HasPrefix(w.callStr(call), "delete(pool.plannedRequests, ") {
				continue
			}
			n++
			h := q(w.expr(callArgs(call)[1]))
			c.guards(f, call, fk+" :: un-plan a height", 0, guardCmp("height strictly above the tallest remaining peer", h, ">", `pool\.MaxPeerHeight`))
		}
		c.Check(n == 1, fk+" :: prunes the plan", w.pos(f.Pos()), "1 delete", fmt.Sprintf("%d deletes from plannedRequests", n))
		for _, fs := range w.fieldStoresIn(f, "blockchain/v1", "BlockPool", "nextRequestHeight") {
			c.Check(w.arith(fs.Store.Val) == "(pool.MaxPeerHeight + 1)", fk+" :: next height to plan is pulled back to max+1", w.ipos(fs.Store), "MaxPeerHeight + 1", "nextRequestHeight = "+w.arith(fs.Store.Val))
			c.guards(f, fs.Store, fk+" :: pull back the next height", 0, guardCmp("it was beyond the tallest remaining peer", `pool\.nextRequestHeight`, ">", `pool\.MaxPeerHeight`))
		}
	})
}

// ------------------------------------------------------------------ C13.R9
// Order of persistence and execution while syncing (all three reactor versions): the block is stored before
// it is executed, as the commit pipeline of consensus does — the handshake can repair "stored, not yet
// applied", but not "applied, not stored".
func init() {
	register("C13", "R9", "K2", "block sync persists a block before executing it (v0, v1, v2)", 3, func(c *Ctx) {
		w := c.W
		n := 0
		for _, f := range w.Funcs {
			if !strings.HasPrefix(relPkg(f), "blockchain/") {
				continue
			}
			saves := w.callsTo(f, "store#BlockStore.SaveBlock", "blockchain/v2#processorContext.saveBlock")
			applies := w.callsTo(f, specApply, "blockchain/v2#processorContext.applyBlock")
			if len(saves) == 0 || len(applies) == 0 {
				continue
			}
			n++
			sv, ap := saves[0], applies[0]
			okOrder, _ := mustPrecede(f, ap, func(in ssa.Instruction) bool { return in == sv })
			c.Check(okOrder, funcKey(f)+" :: block stored before it is executed", w.ipos(ap), "SaveBlock precedes ApplyBlock", "ApplyBlock can run without the block having been stored: a crash in between leaves state and application ahead of the block store, which the handshake cannot repair")
		}
		c.Check(n >= 3, "block sync save/apply sites", "-", fmt.Sprintf("%d", n), fmt.Sprintf("only %d", n))
	})
}

// ------------------------------------------------------------------ C13.R10
// Defects found by reading the three reactors against each other (hunting agents), all on the "reaches the
// tip and hands over" side of the property:
// (a) F36 — v2: each send function of the switch adapter puts the message type its name says on the wire,
//
//	with the values it was given (sendStatusResponse sent a StatusRequest: v2 nodes never learned each
//	other's height);
//
// (b) F37 — v0: the tallest-peer height is recomputed whenever a peer's height is (re)set, not only raised:
//
//	a stale maximum keeps IsCaughtUp false for good;
//
// (c) F38 — v1: what FirstTwoBlocksAndPeers returns is dereferenced only behind a nil test (the peers may
//
//	have left while their blocks were being verified outside the FSM).
func init() {
	register("C13", "R10", "K5+K2+K1", "v2 sends the message type each send function names; v0 recomputes the tallest peer height on every status; v1 tests the first two blocks' entries before using them", 6, func(c *Ctx) {
		w := c.W
		table := map[string]string{
			"sendStatusResponse":     "StatusResponse",
			"sendBlockRequest":       "BlockRequest",
			"sendBlockToPeer":        "BlockResponse",
			"sendBlockNotFound":      "NoBlockResponse",
			"broadcastStatusRequest": "StatusRequest",
		}
		found := 0
		for _, f := range w.methodsOf("blockchain/v2", "switchIO") {
			want, ok := table[f.Name()]
			if !ok || f.Parent() != nil {
				continue
			}
			found++
			var got []string
			for _, b := range f.Blocks {
				for _, in := range b.Instrs {
					mi, ok := in.(*ssa.MakeInterface)
					if !ok {
						continue
					}
					if nt := derefNamed(mi.X.Type()); nt != nil && nt.Obj().Pkg() != nil && strings.HasSuffix(nt.Obj().Pkg().Path(), "proto/tendermint/blockchain") {
						got = append(got, nt.Obj().Name())
					}
				}
			}
			c.Check(len(got) == 1 && got[0] == want, funcKey(f)+" :: puts a "+want+" on the wire", w.pos(f.Pos()), want, fmt.Sprintf("%s sends %v", f.Name(), got))
		}
		c.Check(found >= 4, "blockchain/v2.switchIO :: send functions found", "-", ">= 4", fmt.Sprintf("%d", found))
		if f := c.fn("blockchain/v2", "switchIO.sendStatusResponse"); f != nil {
			got := map[string]string{}
			for _, b := range f.Blocks {
				for _, in := range b.Instrs {
					if st, ok := in.(*ssa.Store); ok {
						if fa, ok := st.Addr.(*ssa.FieldAddr); ok {
							if nt := derefNamed(fa.X.Type()); nt != nil && nt.Obj().Name() == "StatusResponse" {
								got[fieldName(fa.X.Type(), fa.Field)] = w.expr(st.Val)
							}
						}
					}
				}
			}
			c.Check(got["Base"] == "base" && got["Height"] == "height", funcKey(f)+" :: reports the base and height it was given", w.pos(f.Pos()), "Base: base, Height: height", fmt.Sprintf("Base=%s Height=%s", got["Base"], got["Height"]))
		}
		// (b)
		if f := c.fn("blockchain/v0", "BlockPool.SetPeerRange"); f != nil {
			fk := funcKey(f)
			n := 0
			for _, fs := range w.fieldStoresIn(f, "blockchain/v0", "bpPeer", "height") {
				n++
				ok, _, _ := mustFollow(fs.Store, w.callPred("blockchain/v0#BlockPool.updateMaxPeerHeight"), nil)
				c.Check(ok, fk+" :: the tallest-peer height is recomputed after a peer's height was reset", w.ipos(fs.Store), "updateMaxPeerHeight() follows", "a peer's height is overwritten (possibly lowered) without the maximum being recomputed: it can stay above every peer for good")
			}
			c.Check(n >= 1, fk+" :: store of an existing peer's height found", w.pos(f.Pos()), ">= 1", fmt.Sprintf("%d", n))
		}
		// (c)
		for _, f := range w.FuncsInPkg("blockchain/v1") {
			for _, call := range rawCallsTo(w, f, "blockchain/v1#BlockPool.FirstTwoBlocksAndPeers") {
				cv, ok := call.(*ssa.Call)
				if !ok {
					continue
				}
				var errv ssa.Value
				for _, r := range *cv.Referrers() {
					if ex, ok := r.(*ssa.Extract); ok && ex.Index == 2 {
						errv = ex
					}
				}
				for _, r := range *cv.Referrers() {
					ex, ok := r.(*ssa.Extract)
					if !ok || ex.Index > 1 {
						continue
					}
					for _, use := range *ex.Referrers() {
						fa, isFA := use.(*ssa.FieldAddr)
						if !isFA {
							continue
						}
						gs := []Guard{guardRe("the entry exists", `^nonnil\(`+q(w.expr(ex))+`\)$`)}
						if errv != nil {
							gs = append(gs, guardRe("no error", `^nil\(`+q(w.expr(errv))+`\)$`))
						}
						c.guards(f, fa, fmt.Sprintf("%s :: use entry #%d of the first two blocks", funcKey(f), ex.Index), 0, guardAny("the entry was tested (non-nil, or no error)", gs...))
					}
				}
			}
		}
	})
}

// ------------------------------------------------------------------ C13.R11
// F47, F48 (block sync v2).
// (a) Three places decide at which height a fresh node starts: the reactor (first request), the scheduler
//
//	(after a reset) and the processor (which block it takes out of its queue next). The chain's first block
//	is at the genesis initial height, not at 1: every one of the three must fall back to InitialHeight when
//	there is no block yet, or the node queues blocks it never processes and ends up in consensus at genesis.
//
// (b) A peer's lastTouched is set when it delivers a block and is the zero time before: "silent for longer
//
//	than the timeout" may only be concluded from a lastTouched that was set, or every peer is removed by
//	the first prune tick after it reported its status and the node never reaches the tip.
func init() {
	register("C13", "R11", "K5+K1", "v2: reactor, scheduler and processor all start at the initial height when there is no block; inactivity is measured only from a time that was set", 5, func(c *Ctx) {
		w := c.W
		mentions := func(vals []string) (lbh, ih bool) {
			for _, s := range vals {
				if regexp.MustCompile(`\.LastBlockHeight \+ 1\)?`).MatchString(s) {
					lbh = true
				}
				if strings.Contains(s, ".InitialHeight") {
					ih = true
				}
			}
			return
		}
		// values a start-height expression can take: phi edges, or the returns of the helper that computes it
		var sources func(v ssa.Value, d int) []string
		sources = func(v ssa.Value, d int) []string {
			v = stripConv(v)
			if d > 3 {
				return []string{w.expr(v)}
			}
			switch x := v.(type) {
			case *ssa.Phi:
				var out []string
				for _, e := range x.Edges {
					out = append(out, sources(e, d+1)...)
				}
				return out
			case *ssa.Call:
				if h := staticCallee(x); h != nil && h.Blocks != nil && strings.HasPrefix(pkgPathOf(h), modPath) {
					var out []string
					for _, r := range returnValues(h, 0) {
						out = append(out, sources(r, d+1)...)
					}
					return out
				}
			}
			return []string{w.expr(v)}
		}
		check := func(key string, pos string, v ssa.Value) {
			src := sources(v, 0)
			lbh, ih := mentions(src)
			c.Check(lbh && ih, key, pos, "LastBlockHeight+1, or InitialHeight when there is no block", "computed from "+strings.Join(src, " | ")+": on a chain with initial_height > 1 this component starts at another height than the other two")
		}
		if f := c.fn("blockchain/v2", "newReactor"); f != nil {
			for _, call := range w.callsTo(f, "blockchain/v2#newScheduler") {
				check(funcKey(f)+" :: first height requested", w.ipos(call), callArgs(call)[0])
			}
		}
		if f := c.fn("blockchain/v2", "scheduler.handleResetState"); f != nil {
			n := 0
			for _, fs := range w.fieldStoresIn(f, "blockchain/v2", "scheduler", "height") {
				n++
				check(funcKey(f)+" :: height after a reset", w.ipos(fs.Store), fs.Store.Val)
			}
			c.Check(n == 1, funcKey(f)+" :: sets the scheduler height", w.pos(f.Pos()), "1 store", fmt.Sprintf("%d", n))
		}
		if f := c.fn("blockchain/v2", "pcState.nextTwo"); f != nil {
			fk := funcKey(f)
			var keys []ssa.Value
			for _, b := range f.Blocks {
				for _, in := range b.Instrs {
					if lk, ok := in.(*ssa.Lookup); ok && strings.HasSuffix(w.expr(lk.X), ".queue") {
						keys = append(keys, lk.Index)
					}
				}
			}
			if c.Check(len(keys) == 2, fk+" :: two queue lookups", w.pos(f.Pos()), "2", fmt.Sprintf("%d", len(keys))) {
				// base and constant offset of each key (x and x+1, or x+1 and x+2)
				off := func(v ssa.Value) (string, int64) {
					k := int64(0)
					for i := 0; i < 4; i++ {
						b, d, ok := splitOffset(v)
						if !ok {
							break
						}
						v, k = b, k+d
					}
					return w.expr(v), k
				}
				b1, o1 := off(keys[0])
				b2, o2 := off(keys[1])
				c.Check(b1 == b2 && o2 == o1+1, fk+" :: the second block is the one after the first", w.pos(f.Pos()), "first + 1", w.expr(keys[0])+" and "+w.expr(keys[1]))
				check(fk+" :: first height processed", w.pos(f.Pos()), keys[0])
			}
		}
		if f := c.fn("blockchain/v2", "scheduler.prunablePeers"); f != nil {
			fk := funcKey(f)
			n := 0
			for _, call := range w.callsTo(f, "time#Time.Sub") {
				if !strings.HasSuffix(w.expr(callArgs(call)[0]), ".lastTouched") {
					continue
				}
				n++
				c.guards(f, call, fk+" :: measure a peer's silence", 0, guardRe("the peer's lastTouched was set", `^false\(.*\.lastTouched\.IsZero\(\)\)$`))
			}
			c.Check(n == 1, fk+" :: inactivity test found", w.pos(f.Pos()), "1", fmt.Sprintf("%d", n))
		}
	})
}

// ------------------------------------------------------------------ C13.R12
// F51 (block sync v2). Scheduler and processor are separate state machines: when the scheduler removes a
// peer it marks everything received from it for fetching again, and the processor must be told to drop what
// it has queued from that peer — otherwise the block fetched again from another peer meets the stale one and
// pcState.enqueue panics ("duplicate block enqueued"), which terminates the node. The reactor forwards
// scPeerError{peerID} and every member of scPeersPruned{peers} to the processor. Rule: in every scheduler
// handler, a peer handed to removePeer is named by the event the handler returns (scPeerError for that
// peer, or a scPeersPruned list that contains it), unless the handler finishes the sync (scFinishedEv).
// Exempt, with the reason: handleBlockProcessError — the event comes from the processor, which purged both
// peers before sending it.
func returnedEvent(w *World, ret *ssa.Return) (string, map[string]ssa.Value) {
	if len(ret.Results) == 0 {
		return "", nil
	}
	v := underMakeInterface(ret.Results[0])
	if g, ok := v.(*ssa.UnOp); ok && g.Op == token.MUL {
		if gl, isG := g.X.(*ssa.Global); isG {
			return gl.Name(), nil
		}
		if al, isA := g.X.(*ssa.Alloc); isA {
			fields := map[string]ssa.Value{}
			for _, r := range *al.Referrers() {
				fa, ok := r.(*ssa.FieldAddr)
				if !ok {
					continue
				}
				for _, rr := range *fa.Referrers() {
					if st, ok := rr.(*ssa.Store); ok && st.Addr == ssa.Value(fa) {
						fields[fieldName(fa.X.Type(), fa.Field)] = st.Val
					}
				}
			}
			name := ""
			if nt := derefNamed(al.Type()); nt != nil {
				name = nt.Obj().Name()
			}
			return name, fields
		}
	}
	if nt := derefNamed(v.Type()); nt != nil {
		return nt.Obj().Name(), nil
	}
	return w.expr(v), nil
}

// sliceMayHold: x is appended into the slice value p somewhere in its construction (append chains, phis),
// or x is p[i].
func sliceMayHold(p, x ssa.Value, d int) bool {
	p = stripConv(p)
	if d > 6 {
		return false
	}
	if u, ok := stripConv(x).(*ssa.UnOp); ok && u.Op == token.MUL {
		if ia, ok := u.X.(*ssa.IndexAddr); ok && sameValue(ia.X, p) {
			return true
		}
	}
	switch v := p.(type) {
	case *ssa.Phi:
		for _, e := range v.Edges {
			if sliceMayHold(e, x, d+1) {
				return true
			}
		}
	case *ssa.Call:
		if b, ok := v.Call.Value.(*ssa.Builtin); ok && b.Name() == "append" && len(v.Call.Args) == 2 {
			if sliceMayHold(v.Call.Args[0], x, d+1) {
				return true
			}
			for _, e := range sliceElems(v.Call.Args[1]) {
				if sameValue(e, x) {
					return true
				}
			}
			return sliceMayHold(v.Call.Args[1], x, d+1)
		}
	}
	return false
}

func init() {
	register("C13", "R12", "K2+K5", "v2 scheduler: a peer handed to removePeer is named in the event the handler returns (the processor purges its queued blocks), or the sync is finished", 7, func(c *Ctx) {
		w := c.W
		exempt := map[string]string{
			"handleBlockProcessError": "the event comes from the processor, which purged both peers' blocks before sending it",
		}
		nCalls := 0
		for _, f := range w.methodsOf("blockchain/v2", "scheduler") {
			// handlers, and helpers carved out of them that remove a peer and build the event to return
			// (setPeerRange, which reports through its error, is treated below)
			if f.Parent() != nil || f.Name() == "handle" || f.Name() == "removePeer" || f.Name() == "setPeerRange" {
				continue
			}
			if !strings.HasPrefix(f.Name(), "handle") {
				if len(rawCallsTo(w, f, "blockchain/v2#scheduler.removePeer")) == 0 {
					continue
				}
				// a helper's event must be what its callers return
				res := f.Signature.Results()
				isEv := res.Len() >= 1 && strings.HasSuffix(res.At(0).Type().String(), ".Event")
				c.Check(isEv, funcKey(f)+" :: a helper that removes a peer hands the event to report back", w.pos(f.Pos()), "returns an Event", "the helper removes a peer but returns no event")
				for _, cs := range w.callersOf(f) {
					cv, ok := cs.(*ssa.Call)
					passed := ok
					if ok {
						for _, r := range *cv.Referrers() {
							ex, isEx := r.(*ssa.Extract)
							if !isEx {
								continue
							}
							if ex.Index != 0 {
								continue
							}
							for _, rr := range *ex.Referrers() {
								if _, isRet := rr.(*ssa.Return); !isRet {
									passed = false
								}
							}
							if len(*ex.Referrers()) == 0 {
								passed = false
							}
						}
					}
					c.Check(passed, funcKey(cs.Parent())+" :: returns the event built by "+f.Name(), w.ipos(cs), "return "+f.Name()+"(...)", "the event naming the removed peer is not what the handler returns")
				}
			}
			ky := newKeyer()
			for _, call := range rawCallsTo(w, f, "blockchain/v2#scheduler.removePeer") {
				nCalls++
				x := callArgs(call)[0]
				key := ky.key(f, "remove peer "+w.expr(x))
				if why, ok := exempt[f.Name()]; ok {
					c.OK(key, w.ipos(call), "exempt: "+why)
					continue
				}
				// every return the call can be followed by
				bad := ""
				pos := w.ipos(call)
				cb := call.Block()
				for _, r := range returnsOf(f) {
					ret := r.(*ssa.Return)
					reach := false
					// the return is reachable from the call's block
					qq := &pathQ{target: func(in ssa.Instruction) bool { return in == r }}
					ci := 0
					for i, in := range cb.Instrs {
						if in == ssa.Instruction(call) {
							ci = i + 1
						}
					}
					if hit, _ := qq.reach(cb, ci); hit != nil {
						reach = true
					}
					if !reach {
						continue
					}
					name, fields := returnedEvent(w, ret)
					switch name {
					case "scFinishedEv":
					case "scPeerError":
						if fields["peerID"] == nil || w.expr(fields["peerID"]) != w.expr(x) {
							bad, pos = "returns scPeerError for another peer", w.ipos(ret)
						}
					case "scPeersPruned":
						if fields["peers"] == nil || !sliceMayHold(fields["peers"], x, 0) {
							bad, pos = "returns scPeersPruned with a list that does not contain the removed peer", w.ipos(ret)
						}
					case "noOp":
						// only where the reported list is provably empty cannot be told apart statically from
						// "nothing was removed": accepted iff some scPeersPruned return of this handler holds x
						ok := false
						for _, r2 := range returnsOf(f) {
							n2, f2 := returnedEvent(w, r2.(*ssa.Return))
							if n2 == "scPeersPruned" && f2["peers"] != nil && sliceMayHold(f2["peers"], x, 0) {
								// and this noOp is taken only on len(list) == 0 of that very list
								for _, a := range dominatingAtoms(ret.Block()) {
									if a.Kind != "cmp" || a.Op != token.EQL {
										continue
									}
									lc, isCall := stripConv(a.X).(*ssa.Call)
									k, isK := constInt(a.Y)
									if !isCall || !isK || k != 0 {
										continue
									}
									if b, isB := lc.Call.Value.(*ssa.Builtin); isB && b.Name() == "len" && sameValue(lc.Call.Args[0], f2["peers"]) {
										ok = true
									}
								}
							}
						}
						if !ok {
							bad, pos = "returns noOp: the processor keeps the blocks it queued from the removed peer", w.ipos(ret)
						}
					default:
						bad, pos = "returns "+name+", which does not name the removed peer", w.ipos(ret)
					}
				}
				c.Check(bad == "", key, pos, "scPeerError{peer} / scPeersPruned ∋ peer / scFinishedEv", bad+": a block fetched again from another peer then meets the stale one in the processor, whose enqueue panics (duplicate block) and stops the node")
			}
		}
		c.Check(nCalls >= 5, "blockchain/v2.scheduler :: removePeer sites in handlers", "-", ">= 5", fmt.Sprintf("%d", nCalls))
		// setPeerRange removes the peer and fails; its caller reports the peer it passed
		if g := c.fn("blockchain/v2", "scheduler.setPeerRange"); g != nil {
			for _, call := range rawCallsTo(w, g, "blockchain/v2#scheduler.removePeer") {
				c.Check(edgeOnlyFails(w, g, call.Block()) && w.expr(callArgs(call)[0]) == paramName(g, 1), funcKey(g)+" :: a removed peer is reported as an error of that peer", w.ipos(call), "removePeer(peerID) is followed by an error return", "the helper can remove a peer and report success")
			}
		}
		if f := c.fn("blockchain/v2", "scheduler.handleStatusResponse"); f != nil {
			for _, call := range w.callsTo(f, "blockchain/v2#scheduler.setPeerRange") {
				for _, ea := range condEdges(f) {
					if ea.A.Kind != "nonnil" || atomCall(ea.A) != ssa.CallInstruction(call) {
						continue
					}
					succ := ea.E.From.Succs[ea.E.Succ]
					ok := false
					if ret, isR := succ.Instrs[len(succ.Instrs)-1].(*ssa.Return); isR {
						name, fields := returnedEvent(w, ret)
						ok = name == "scPeerError" && fields["peerID"] != nil && w.expr(fields["peerID"]) == w.expr(callArgs(call)[0])
					}
					c.Check(ok, funcKey(f)+" :: a failed range update reports that peer", w.ipos(call), "scPeerError{peerID: the peer passed}", "the error of setPeerRange (which removed the peer) is not reported for that peer")
				}
			}
		}
	})
}
