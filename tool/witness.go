package main

// WitnessResult reports one sensitivity witness (thorough tier): a rule evaluated on an
// in-memory mutated overlay of the current tree must report the broken instance.
type WitnessResult struct {
	Name   string `json:"name"`
	Prop   string `json:"property"`
	Rule   string `json:"rule"`
	Status string `json:"status"` // fired | broken | skipped
	Msg    string `json:"msg"`
}

type extraResult struct {
	summary    string
	violations []*Obligation
}

func runWitnesses(w *World, prop string, ff *FindingsFile) []WitnessResult { return nil }

func runExtraConfigs(prop, repo string, ff *FindingsFile) []extraResult { return nil }
