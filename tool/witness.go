package main

import (
	"fmt"
	"os"
	"path/filepath"
	"regexp"
	"runtime/debug"
	"strings"
	"sync"
)

// Witness is a sensitivity (or neutrality) test of the checker itself: an in-memory edit of one
// file of the current tree, applied through go/packages' Overlay (nothing is written to disk).
// Kind "break": the edit removes one instance of a mechanism; the named rule must report it.
// Kind "neutral": a behaviour-preserving refactoring; the property's rules must stay silent.
type Witness struct {
	Name string
	Prop string
	Rule string // expected rule id, e.g. "C01.R1" ("" for neutral)
	Kind string // break | neutral
	File string // module-relative file
	Old  string // unique snippet
	New  string
	// further edits (same or other files) for multi-site witnesses
	More []Edit
	// KeyHas, if set, must be contained in the reported construct key
	KeyHas string
	// Renames: identifier renames inside one declaration each (neutral witnesses)
	Renames []Rename
}

type Edit struct{ File, Old, New string }

// renameIn builds the edit that renames identifier `from` to `to` inside the declaration that starts
// with the (unique) line `start` and runs to the next line consisting of "}" — a rename-only refactoring.
func renameIn(src, file, start, from, to string) (Edit, bool) {
	if strings.Count(src, start) != 1 {
		return Edit{}, false
	}
	i := strings.Index(src, start)
	j := strings.Index(src[i:], "\n}\n")
	if j < 0 {
		return Edit{}, false
	}
	body := src[i : i+j+3]
	re := regexp.MustCompile(`\b` + regexp.QuoteMeta(from) + `\b`)
	// leave selector/field uses (x.from) and struct-literal keys (from:) alone
	out := re.ReplaceAllStringFunc(body, func(m string) string { return m })
	var sb strings.Builder
	last := 0
	for _, loc := range re.FindAllStringIndex(body, -1) {
		sb.WriteString(body[last:loc[0]])
		prev := byte(' ')
		if loc[0] > 0 {
			prev = body[loc[0]-1]
		}
		next := byte(' ')
		if loc[1] < len(body) {
			next = body[loc[1]]
		}
		if prev == '.' || prev == '"' || (next == ':' && loc[1]+1 < len(body) && body[loc[1]+1] != '=') {
			sb.WriteString(body[loc[0]:loc[1]])
		} else {
			sb.WriteString(to)
		}
		last = loc[1]
	}
	sb.WriteString(body[last:])
	_ = out
	return Edit{File: file, Old: body, New: sb.String()}, true
}

// Rename describes a rename-only neutral witness.
type Rename struct{ File, Start, From, To string }

var witnesses []Witness

// witnessSem bounds how many mutated copies of the program are loaded at once (each costs 2-3 GB).
var witnessSem = make(chan struct{}, 4)

func addWitness(w Witness) { witnesses = append(witnesses, w) }

// WitnessResult reports one witness.
type WitnessResult struct {
	Name   string `json:"name"`
	Prop   string `json:"property"`
	Rule   string `json:"rule"`
	Kind   string `json:"kind"`
	Status string `json:"status"` // fired | silent | broken | skipped
	Msg    string `json:"msg"`
}

type extraResult struct {
	summary    string
	violations []*Obligation
}

func applyEdits(repo string, wit Witness) (map[string][]byte, string) {
	var edits []Edit
	if wit.Old != "" {
		edits = append(edits, Edit{wit.File, wit.Old, wit.New})
	}
	edits = append(edits, wit.More...)
	ov := map[string][]byte{}
	for _, e := range edits {
		path := filepath.Join(repo, e.File)
		src, ok := ov[path]
		if !ok {
			b, err := os.ReadFile(path)
			if err != nil {
				return nil, "file missing: " + e.File
			}
			src = b
		}
		n := strings.Count(string(src), e.Old)
		if n != 1 {
			return nil, fmt.Sprintf("snippet occurs %d times in %s (tree was edited; witness not applicable)", n, e.File)
		}
		ov[path] = []byte(strings.Replace(string(src), e.Old, e.New, 1))
	}
	done := map[string]bool{}
	for _, r := range wit.Renames {
		if done[r.File+"\x00"+r.Start] {
			continue
		}
		done[r.File+"\x00"+r.Start] = true
		path := filepath.Join(repo, r.File)
		src, ok := ov[path]
		if !ok {
			b, err := os.ReadFile(path)
			if err != nil {
				return nil, "file missing: " + r.File
			}
			src = b
		}
		// all renames of one declaration are applied to its body in one go
		e0, ok := renameIn(string(src), r.File, r.Start, "\x00none", "")
		if !ok {
			return nil, "declaration not found for rename (tree was edited; witness not applicable): " + r.Start
		}
		body := e0.Old
		for _, r2 := range wit.Renames {
			if r2.File == r.File && r2.Start == r.Start {
				e, _ := renameIn(body+"\n", r2.File, body[:strings.Index(body, "\n")], r2.From, r2.To)
				body = strings.TrimSuffix(e.New, "\n")
			}
		}
		ov[path] = []byte(strings.Replace(string(src), e0.Old, body, 1))
	}
	return ov, ""
}

func runWitness(repo string, wit Witness, ff *FindingsFile) WitnessResult {
	res := WitnessResult{Name: wit.Name, Prop: wit.Prop, Rule: wit.Rule, Kind: wit.Kind}
	ov, skip := applyEdits(repo, wit)
	if skip != "" {
		res.Status = "skipped"
		res.Msg = skip
		return res
	}
	w, err := Load(LoadOpts{Dir: repo, Overlay: ov})
	if err != nil {
		res.Status = "skipped"
		res.Msg = "mutated tree does not load (witness must type-check): " + err.Error()
		if len(res.Msg) > 400 {
			res.Msg = res.Msg[:400]
		}
		// a witness that no longer compiles is a broken witness on a pristine tree
		res.Status = "broken"
		return res
	}
	pr := runProp(w, wit.Prop, "quick", ff)
	w.Release()
	var hits []string
	for _, o := range pr.violations {
		if wit.Kind == "neutral" {
			hits = append(hits, o.Rule+" "+o.Key)
			continue
		}
		if o.Rule == wit.Rule && (wit.KeyHas == "" || strings.Contains(o.Key, wit.KeyHas)) {
			hits = append(hits, o.Key)
		}
	}
	switch wit.Kind {
	case "neutral":
		if len(hits) == 0 {
			res.Status = "silent"
			res.Msg = "behaviour-preserving edit raised no report"
		} else {
			res.Status = "broken"
			res.Msg = "false alarm on a behaviour-preserving edit: " + strings.Join(hits, "; ")
		}
	default:
		if len(hits) > 0 {
			res.Status = "fired"
			res.Msg = fmt.Sprintf("%d report(s), e.g. %s", len(hits), hits[0])
		} else {
			res.Status = "broken"
			var other []string
			for _, o := range pr.violations {
				other = append(other, o.Rule+" "+o.Key)
			}
			res.Msg = "expected rule " + wit.Rule + " to report; other reports: " + strings.Join(other, "; ")
		}
	}
	return res
}

func runWitnesses(w *World, prop string, ff *FindingsFile) []WitnessResult {
	return runWitnessSet(w.RepoDir, prop, "", ff)
}

func runWitnessSet(repo, prop, name string, ff *FindingsFile) []WitnessResult {
	var sel []Witness
	for _, wt := range witnesses {
		if wt.Prop == prop && (name == "" || name == "all" || wt.Name == name) {
			sel = append(sel, wt)
		}
	}
	out := make([]WitnessResult, len(sel))
	sem := witnessSem
	var wg sync.WaitGroup
	for i := range sel {
		wg.Add(1)
		go func(i int) {
			defer wg.Done()
			sem <- struct{}{}
			defer func() { <-sem }()
			defer func() {
				if x := recover(); x != nil {
					out[i] = WitnessResult{Name: sel[i].Name, Prop: prop, Rule: sel[i].Rule, Kind: sel[i].Kind, Status: "broken", Msg: fmt.Sprint("panic: ", x)}
				}
			}()
			out[i] = runWitness(repo, sel[i], ff)
			debug.FreeOSMemory()
		}(i)
	}
	wg.Wait()
	return out
}

// runExtraConfigs re-evaluates the property's rules under additional build configurations.
func runExtraConfigs(prop, repo string, ff *FindingsFile) []extraResult {
	var out []extraResult
	for _, cfg := range []struct{ tags string }{{"deadlock"}} {
		w, err := Load(LoadOpts{Dir: repo, Tags: cfg.tags})
		if err != nil {
			out = append(out, extraResult{summary: "config tags=" + cfg.tags + ": load failed: " + err.Error()})
			continue
		}
		pr := runProp(w, prop, "quick", ff)
		w.Release()
		out = append(out, extraResult{summary: fmt.Sprintf("config tags=%s: %d obligations, %d violations", cfg.tags, len(pr.obls), len(pr.violations)), violations: pr.violations})
	}
	return out
}
