package main

func init() {
	register("C00", "R0", "K0", "loader smoke test", 1, func(c *Ctx) {
		c.OK("funcs", "-", "loaded")
	})
}
