package main

import (
	"fmt"
	"go/token"
	"regexp"
	"strings"

	"golang.org/x/tools/go/ssa"
)

// accumulator describes `acc += y` in a loop: the ADD instruction, the loop-carried phi and the addend.
type accumulator struct {
	add *ssa.BinOp
	phi *ssa.Phi
	y   ssa.Value
	// members: the loop-header phi, the sum, and merge phis in between (a `continue` in an indexed loop
	// merges the unchanged and the updated value in the post block before the back edge)
	members map[ssa.Value]bool
}

// accumulators finds integer accumulators initialised to 0: H = phi(0 | … ), sum = H + y, and the sum flows
// back into H directly or through merge phis whose other inputs are H itself.
func accumulators(f *ssa.Function) []accumulator {
	out := accumulatorsIn(f)
	for _, h := range transparentBodies(f) {
		out = append(out, accumulatorsIn(h)...)
	}
	return out
}

func accumulatorsIn(f *ssa.Function) []accumulator {
	var out []accumulator
	for _, b := range f.Blocks {
		for _, in := range b.Instrs {
			add, ok := in.(*ssa.BinOp)
			if !ok || add.Op != token.ADD {
				continue
			}
			for _, pair := range [][2]ssa.Value{{add.X, add.Y}, {add.Y, add.X}} {
				phi, ok := pair[0].(*ssa.Phi)
				if !ok {
					continue
				}
				zero := false
				members := map[ssa.Value]bool{phi: true, add: true}
				back := false
				var flows func(e ssa.Value, depth int) bool // e carries only H or sum
				flows = func(e ssa.Value, depth int) bool {
					if e == ssa.Value(add) {
						back = true
						return true
					}
					if e == ssa.Value(phi) {
						return true
					}
					if m, isPhi := e.(*ssa.Phi); isPhi && depth < 4 {
						if members[m] {
							return true
						}
						members[m] = true
						for _, e2 := range m.Edges {
							if !flows(e2, depth+1) {
								delete(members, m)
								return false
							}
						}
						return true
					}
					return false
				}
				okShape := true
				for _, e := range phi.Edges {
					if v, ok := constInt(e); ok && v == 0 {
						zero = true
						continue
					}
					if !flows(e, 0) {
						okShape = false
					}
				}
				if zero && back && okShape {
					out = append(out, accumulator{add, phi, pair[1], members})
				}
			}
		}
	}
	return out
}

// derivedFrom: v is the accumulator phi, its updated value or a merge of the two.
func (a accumulator) derived(v ssa.Value) bool {
	v = stripConv(v)
	return a.members[v]
}

// fwdIdx matches the rendering of the index of a forward iteration from 0: the implicit index of a
// `for i := range xs` loop or the variable of `for i := 0; i < n; i++`.
const fwdIdx = `(?:\(phi\(\(phi:rangeindex \+ 1\)\|-1\) \+ 1\)|phi\(\(phi:\w+ \+ 1\)\|0\))`

var commitVerifiers = []string{"ValidatorSet.VerifyCommit", "ValidatorSet.VerifyCommitLight", "ValidatorSet.VerifyCommitLightTrusting"}

func ruleCommitTally(c *Ctx) {
	w := c.W
	idx := fwdIdx
	for _, name := range commitVerifiers {
		f := c.fn("types", name)
		if f == nil {
			continue
		}
		fk := funcKey(f)
		var acc *accumulator
		for _, a := range accumulators(f) {
			if strings.HasSuffix(w.expr(a.y), ".VotingPower") {
				a := a
				acc = &a
			}
		}
		if !c.Check(acc != nil, fk+" :: voting power tally found", w.pos(f.Pos()), "tally += val.VotingPower", "no accumulation of VotingPower found: the verification loop was restructured") {
			continue
		}
		key := fk + " :: tally += power"
		val := strings.TrimSuffix(w.expr(acc.y), ".VotingPower")
		if !strings.HasSuffix(name, "Trusting") {
			// the per-slot check may live in a helper that hands the validator back (`val, err :=
			// vals.verifySlot(...)`): the tallied validator is then what the helper returns, in this
			// function's terms, and the guards below are looked for behind the helper's success
			if ld, isLd := acc.y.(*ssa.UnOp); isLd && ld.Op == token.MUL {
				if fa, isFa := ld.X.(*ssa.FieldAddr); isFa {
					val = w.resolveResult(fa.X)
				}
			}
		}
		V := q(val)
		commit, chain := "", paramName(f, 1)
		for _, p := range f.Params {
			if n := derefNamed(p.Type()); n != nil && n.Obj().Name() == "Commit" {
				commit = canonParamName(p)
			}
		}
		C := q(commit)
		sig := C + `\.Signatures\[` + idx + `\]`
		gs := []Guard{
			guardRe("signature verifies over the canonical vote bytes for this chain id and slot, under the tallied validator's key",
				`^true\(`+V+`\.PubKey\.VerifySignature\(`+C+`\.VoteSignBytes\(`+q(chain)+`, `+idx+`\), `+sig+`\.Signature\)\)$`),
			guardRe("signature is flagged for the block", `^true\(`+sig+`\.ForBlock\(\)\)$`),
		}
		if strings.HasSuffix(name, "Trusting") {
			okVal := regexp.MustCompile(`^\w+\.GetByAddress\(` + sig + `\.ValidatorAddress\)#1$`).MatchString(val)
			c.Check(okVal, key+" validator is looked up by the slot's address", w.ipos(acc.add), "val = GetByAddress(sig.ValidatorAddress)", "tallied validator is "+val)
			vi := strings.TrimSuffix(val, "#1") + "#0"
			gs = append(gs,
				guardRe("signer is a member of the trusted set", `^nonnil\(`+V+`\)$`),
				guardRe("signer not seen before in this commit", `^false\(make\(map\[int32\]int\)\[`+q(vi)+`\]#1\)$`))
			// the seen mark is set before the tally
			ok, path := mustPrecede(f, acc.add, func(in ssa.Instruction) bool {
				mu, ok := in.(*ssa.MapUpdate)
				return ok && w.expr(mu.Key) == vi
			})
			c.Check(ok, key+" after marking the signer as seen", w.ipos(acc.add), "seenVals[valIdx] is set before the power is counted", "power can be counted without the signer being marked as seen: "+pathStr(w, path))
		} else {
			okVal := regexp.MustCompile(`^\w+\.Validators\[` + idx + `\]$`).MatchString(val)
			c.Check(okVal, key+" validator is the one at the signature's slot", w.ipos(acc.add), "val = vals.Validators[idx]", "tallied validator is "+val)
			vals := paramName(f, 0)
			gs = append(gs,
				guardCmp("set size equals number of signatures", q(vals)+`\.Size\(\)`, "==", `len\(`+C+`\.Signatures\)`),
				guardCmp("height equals the commit's", `height`, "==", C+`\.Height`),
				guardRe("block id equals the commit's", `^true\(\w+\.Equals\(`+C+`\.BlockID\)\)$`))
		}
		c.guards(f, acc.add, key, 0, gs...)
		// full verification (the one block validation uses for LastCommit) checks *every* signature that is
		// present, also those for nil: moving on to the next slot is only possible for an absent slot or
		// behind the signature check (a nil vote's timestamp feeds the median block time)
		if name == "ValidatorSet.VerifyCommit" {
			c.loopItemGuard(f, fk+" :: next signature slot", guardAny("slot is absent, or its signature verified",
				guardRe("absent", `^true\(`+sig+`\.Absent\(\)\)$`),
				guardRe("verified", `^true\(`+V+`\.PubKey\.VerifySignature\(`+C+`\.VoteSignBytes\(`+q(chain)+`, `+idx+`\), `+sig+`\.Signature\)\)$`)))
		}

		// threshold
		a := *acc
		var needed string
		T := q(paramName(f, 0)) + `\.TotalVotingPower\(\)`
		if strings.HasSuffix(name, "Trusting") {
			needed = `\(types\.safeMul\(` + T + `, \w+\.Numerator\)#0 / \w+\.Denominator\)`
		} else {
			needed = `\(\(` + T + ` \* 2\) / 3\)`
		}
		nre := regexp.MustCompile("^" + needed + "$")
		strict := Guard{Name: "tallied > needed (strict), needed = " + map[bool]string{true: "floor(T*num/den)", false: "floor(2T/3)"}[strings.HasSuffix(name, "Trusting")],
			Match: func(w *World, f *ssa.Function, at Atom) bool {
				if at.Kind != "cmp" {
					return false
				}
				if at.Op == token.GTR && a.derived(at.X) && nre.MatchString(w.arith(at.Y)) {
					return true
				}
				if at.Op == token.LSS && a.derived(at.Y) && nre.MatchString(w.arith(at.X)) {
					return true
				}
				return false
			}}
		okT := c.ge().ensures(f, strict, 2)
		c.Check(okT, fk+" :: success only with tallied > needed", w.pos(f.Pos()), "every nil return is behind the strict threshold comparison", "a nil (accept) return is reachable without 'tallied > needed' with the required threshold expression")
		if strings.HasSuffix(name, "Trusting") {
			c.Check(c.ge().ensures(f, guardRe("no overflow in T*numerator", `^false\(types\.safeMul\(.*\)#1\)$`), 2), fk+" :: overflow-checked multiplication", w.pos(f.Pos()), "accept only if safeMul reported no overflow", "accept possible after an overflowing multiplication")
			c.Check(c.ge().ensures(f, guardCmp("denominator != 0", `\w+\.Denominator`, "!=", "0"), 2), fk+" :: non-zero denominator", w.pos(f.Pos()), "accept only with a non-zero denominator", "accept possible with a zero denominator")
		}
	}
}

func ruleCanonicalVote(c *Ctx) {
	w := c.W
	if f := c.fn("types", "CanonicalizeVote"); f != nil {
		got := map[string]string{}
		for _, b := range f.Blocks {
			for _, in := range b.Instrs {
				if st, ok := in.(*ssa.Store); ok {
					if fa, ok := st.Addr.(*ssa.FieldAddr); ok {
						got[fieldName(fa.X.Type(), fa.Field)] = w.expr(st.Val)
					}
				}
			}
		}
		want := map[string]string{"Type": `^\w+\.Type$`, "Height": `^\w+\.Height$`, "Round": `^\w+\.Round$`, "BlockID": `^types\.CanonicalizeBlockID\(\w+\.BlockID\)$`, "Timestamp": `^\w+\.Timestamp$`, "ChainID": `^chainID$`}
		for fld, re := range want {
			c.Check(regexp.MustCompile(re).MatchString(got[fld]), "types.CanonicalizeVote sets "+fld, w.pos(f.Pos()), fld+" = "+got[fld], "canonical vote field "+fld+" is set from '"+got[fld]+"'")
		}
	}
	// CanonicalizeBlockID: only the all-zero block id canonicalises to "nil vote" (no block id in the sign
	// bytes); anything else contributes its hash and its part-set header. If a non-zero id could collapse to
	// the nil encoding, genuine nil precommits would verify as signatures for that id.
	if f := c.fn("types", "CanonicalizeBlockID"); f != nil {
		fk := funcKey(f)
		full := guardAny("the block id is entirely zero (or absent)", guardRe("z", `^true\(.*\.IsZero\(\)\)$`), guardRe("n", `^nil\(types\.BlockIDFromProto\(bid\)#0\)$`))
		for _, r := range returnsOf(f) {
			ret := r.(*ssa.Return)
			var visit func(v ssa.Value, pred, blk *ssa.BasicBlock, at ssa.Instruction, d int)
			visit = func(v ssa.Value, pred, blk *ssa.BasicBlock, at ssa.Instruction, d int) {
				if d > 3 {
					return
				}
				if phi, ok := v.(*ssa.Phi); ok {
					for i, e := range phi.Edges {
						p := phi.Block().Preds[i]
						visit(e, p, phi.Block(), p.Instrs[len(p.Instrs)-1], d+1)
					}
					return
				}
				if isNilConst(v) {
					var ok bool
					if pred != nil {
						ok, _ = c.ge().guardedEdge(f, pred, blk, full, 2)
					} else {
						ok, _ = c.ge().guardedLocal(f, at, full, 2)
					}
					c.Check(ok, fk+" :: canonical nil block id <= "+full.Name, w.ipos(at), "only the zero id signs as nil", "a block id that is not entirely zero can canonicalise to the nil-vote encoding")
				}
			}
			visit(ret.Results[0], nil, nil, ret, 0)
		}
		hs := findStore("&complit.Hash", `bid\.Hash`)(w, f)
		ps := findStore("&complit.PartSetHeader", `types\.CanonicalizePartSetHeader\(bid\.PartSetHeader\)`)(w, f)
		c.Check(len(hs) == 1 && len(ps) == 1, fk+" :: a non-zero id contributes hash and part-set header", w.pos(f.Pos()), "Hash and PartSetHeader copied", "the canonical block id no longer carries both the hash and the part-set header")
	}
	if g := c.fn("types", "BlockID.IsZero"); g != nil {
		rv := returnValues(g, 0)
		ok := len(rv) == 1 && strings.Contains(w.expr(rv[0]), ".PartSetHeader.IsZero()")
		has := false
		for _, ea := range condEdges(g) {
			if guardCmp("h", `len\(\w+\.Hash\)`, "==", "0").Match(w, g, ea.A) {
				has = true
			}
		}
		c.Check(ok && has, funcKey(g)+" = empty hash AND zero part-set header", w.pos(g.Pos()), "both", "BlockID.IsZero no longer requires both the hash and the part-set header to be empty")
	}
	if f := c.fn("types", "Commit.GetVote"); f != nil {
		got := map[string]string{}
		for _, b := range f.Blocks {
			for _, in := range b.Instrs {
				if st, ok := in.(*ssa.Store); ok {
					if fa, ok := st.Addr.(*ssa.FieldAddr); ok {
						got[fieldName(fa.X.Type(), fa.Field)] = w.expr(st.Val)
					}
				}
			}
		}
		pre := fmt.Sprint(c.mustConst("proto/tendermint/types", "PrecommitType"))
		want := map[string]string{"Type": "^" + pre + "$", "Height": `^commit\.Height$`, "Round": `^commit\.Round$`, "BlockID": `^commit\.Signatures\[valIdx\]\.BlockID\(commit\.BlockID\)$`, "Timestamp": `^commit\.Signatures\[valIdx\]\.Timestamp$`}
		for fld, re := range want {
			c.Check(regexp.MustCompile(re).MatchString(got[fld]), "types.Commit.GetVote sets "+fld, w.pos(f.Pos()), fld+" = "+got[fld], "reconstructed vote field "+fld+" is set from '"+got[fld]+"'")
		}
	}
	if f := c.fn("types", "Commit.VoteSignBytes"); f != nil {
		rv := returnValues(f, 0)
		ok := len(rv) == 1 && regexp.MustCompile(`^types\.VoteSignBytes\(chainID, commit\.GetVote\(valIdx\)\.ToProto\(\)\)$`).MatchString(w.expr(rv[0]))
		c.Check(ok, "types.Commit.VoteSignBytes = VoteSignBytes(chainID, GetVote(idx))", w.pos(f.Pos()), "sign bytes are those of the reconstructed vote under the given chain id", "sign bytes are computed differently")
	}
	if f := c.fn("types", "VoteSignBytes"); f != nil {
		c.Check(len(w.callsTo(f, "types#CanonicalizeVote")) == 1, "types.VoteSignBytes canonicalises", w.pos(f.Pos()), "uses CanonicalizeVote", "does not go through CanonicalizeVote")
	}
	// CommitSig.BlockID: the commit's id only for the Commit flag, zero id for Nil/Absent
	if f := c.fn("types", "CommitSig.BlockID"); f != nil {
		commitFlag := c.mustConst("types", "BlockIDFlagCommit")
		g := guardCmp("flag is Commit", `\w+\.BlockIDFlag`, "==", fmt.Sprint(commitFlag))
		ok := true
		nParam := 0
		var flows func(v ssa.Value, at ssa.Instruction, depth int)
		flows = func(v ssa.Value, at ssa.Instruction, depth int) {
			if depth > 4 {
				return
			}
			switch x := v.(type) {
			case *ssa.Parameter:
				nParam++
				if good, _ := c.ge().guardedLocal(f, at, g, 2); !good {
					ok = false
				}
			case *ssa.Phi:
				for i, e := range x.Edges {
					pred := x.Block().Preds[i]
					flows(e, pred.Instrs[len(pred.Instrs)-1], depth+1)
				}
			case *ssa.UnOp:
				if al, isAlloc := x.X.(*ssa.Alloc); isAlloc {
					for _, b := range f.Blocks {
						for _, in := range b.Instrs {
							if st, isSt := in.(*ssa.Store); isSt && st.Addr == ssa.Value(al) {
								flows(st.Val, st, depth+1)
							}
						}
					}
				}
			}
		}
		for _, ret := range returnsOf(f) {
			flows(ret.(*ssa.Return).Results[0], ret, 0)
		}
		ok = ok && nParam >= 1
		c.Check(ok, "types.CommitSig.BlockID yields the commit's id only for BlockIDFlagCommit", w.pos(f.Pos()), "nil/absent signatures sign the zero block id", "a signature not flagged Commit can yield the commit's block id")
	}
	if f := c.fn("types", "CommitSig.ForBlock"); f != nil {
		commitFlag := c.mustConst("types", "BlockIDFlagCommit")
		rv := returnValues(f, 0)
		ok := len(rv) == 1 && w.expr(rv[0]) == fmt.Sprintf("(cs.BlockIDFlag == %d)", commitFlag)
		c.Check(ok, "types.CommitSig.ForBlock == (flag == BlockIDFlagCommit)", w.pos(f.Pos()), "exact", "ForBlock is computed differently")
	}
}

func init() {
	register("C07", "R1", "K1+K11", "every commit verifier tallies only verified for-block signatures of the slot's validator, with its preconditions, and accepts only on a strict threshold", 26, ruleCommitTally)
	register("C07", "R5", "K5+K1", "commit construction agrees with commit verification: a vote becomes a for-block signature of the commit only if its full block id (hash and part-set header) equals the commit's", 4, ruleMakeCommit)
	register("C07", "R6", "K3+K10", "the total a threshold is taken from is always recomputed from the members (never taken from the wire), and the trust-level product is overflow-checked by division", 6, ruleTotalPower)
	register("C07", "R4", "K4", "canonical sign bytes bind type, height, round, block id, timestamp and chain id; nil/absent signatures never sign the commit's block id; only the all-zero block id signs as nil", 16, ruleCanonicalVote)
	// agreement (C01) rests on the same commit verification: block sync and the light client decide through it
	register("C01", "R8", "K1+K11", "commit verification used by block sync / light clients: tally and strict threshold (same rule as C07.R1)", 26, ruleCommitTally)
}

// ruleMakeCommit: VerifyCommit recomputes each for-block signature over the commit's BlockID. So MakeCommit
// may copy a vote's CommitSig into the commit as it is only when the vote is not for a block, or when the
// vote's whole BlockID equals the +2/3 BlockID; anything else must become an absent slot. (A precommit with
// the decided hash but another part-set header would otherwise make the commit unverifiable: every proposal
// of the next height carries it and is rejected.)
func ruleMakeCommit(c *Ctx) {
	w := c.W
	f := c.fn("types", "VoteSet.MakeCommit")
	if f == nil {
		return
	}
	fk := funcKey(f)
	g := guardAny("the vote is not for a block, or its full block id equals the +2/3 block id",
		guardRe("notblock", `^false\(.*\.CommitSig\(\)\.ForBlock\(\)\)$`),
		guardRe("equal", `^true\(.*\.BlockID\.Equals\(voteSet\.maj23\)\)$`))
	n := 0
	var flows func(v ssa.Value, pred, blk *ssa.BasicBlock, at ssa.Instruction, depth int)
	flows = func(v ssa.Value, pred, blk *ssa.BasicBlock, at ssa.Instruction, depth int) {
		if depth > 4 {
			return
		}
		switch x := v.(type) {
		case *ssa.Call:
			if w.isCall(x, "types#Vote.CommitSig") {
				n++
				var ok bool
				var path []*ssa.BasicBlock
				if pred != nil {
					ok, path = c.ge().guardedEdge(f, pred, blk, g, 2)
				} else {
					ok, path = c.ge().guardedLocal(f, at, g, 2)
				}
				c.Check(ok, fk+" :: a vote's signature enters the commit <= "+g.Name, w.ipos(at), "guarded", "a vote whose block id differs from the commit's can be copied into the commit as a for-block signature (the commit then fails VerifyCommit): "+pathStr(w, path))
			}
		case *ssa.Phi:
			for i, e := range x.Edges {
				p := x.Block().Preds[i]
				flows(e, p, x.Block(), p.Instrs[len(p.Instrs)-1], depth+1)
			}
		case *ssa.UnOp:
			if al, isAlloc := x.X.(*ssa.Alloc); isAlloc {
				for _, b := range f.Blocks {
					for _, in := range b.Instrs {
						if st, isSt := in.(*ssa.Store); isSt && st.Addr == ssa.Value(al) {
							flows(st.Val, nil, nil, st, depth+1)
						}
					}
				}
			}
		}
	}
	stores := 0
	for _, b := range f.Blocks {
		for _, in := range b.Instrs {
			st, ok := in.(*ssa.Store)
			if !ok {
				continue
			}
			ia, ok := st.Addr.(*ssa.IndexAddr)
			if !ok || !strings.HasSuffix(typeStr(ia.X.Type()), "CommitSig") {
				continue
			}
			stores++
			flows(st.Val, nil, nil, st, 0)
		}
	}
	c.Check(stores == 1 && n >= 1, fk+" :: fills one signature slot per validator from its vote", w.pos(f.Pos()), fmt.Sprintf("%d slot stores, %d vote signatures", stores, n), fmt.Sprintf("%d slot stores, %d vote signatures flowing in", stores, n))
	for _, call := range w.callsTo(f, "types#NewCommit") {
		a := callArgs(call)
		ok := len(a) == 4 && w.expr(a[0]) == "voteSet.GetHeight()" && w.expr(a[1]) == "voteSet.GetRound()" && w.expr(a[2]) == "voteSet.maj23"
		c.Check(ok, fk+" :: commit is for the vote set's height, round and +2/3 block id", w.ipos(call), "NewCommit(height, round, maj23, sigs)", w.callStr(call))
	}
	// and the +2/3 block id exists
	for _, call := range w.callsTo(f, "types#NewCommit") {
		c.guards(f, call, fk+" :: build commit", 0, guardRe("a +2/3 majority exists", `^nonnil\(voteSet\.maj23\)$`))
	}
}

// ruleTotalPower: every verifier derives its threshold from ValidatorSet.TotalVotingPower(), a cached field.
// The cache may only ever hold 0 (= not computed), the sum over the members, or a copy of another set's cache
// (Copy): a total decoded from a peer is not covered by the set's hash. The trust-level product
// total*numerator must be refused when it does not fit 64 bits, decided by dividing, not by inspecting the
// wrapped product.
func ruleTotalPower(c *Ctx) {
	w := c.W
	n := 0
	for _, fs := range w.fieldStores("types", "ValidatorSet", "totalVotingPower") {
		n++
		v := w.expr(fs.Store.Val)
		fk := funcKey(fs.Fn)
		ok := false
		switch {
		case v == "0":
			ok = true
		case strings.HasSuffix(fk, ".updateTotalVotingPower") && strings.Contains(v, "safeAddClip(") && strings.Contains(v, ".VotingPower"):
			ok = true
		case strings.HasSuffix(v, ".totalVotingPower") && strings.HasSuffix(fk, ".Copy"):
			ok = true
		}
		c.Check(ok, fk+" :: totalVotingPower = "+trunc(v, 60), w.ipos(fs.Store), "0, the sum over the members, or a copy of an in-memory set's cache", "the cached total is set from "+v+": thresholds of every commit verifier are fractions of this value, and a total supplied from outside is not covered by the set hash")
	}
	// composite literals of ValidatorSet that set the field
	for _, f := range w.FuncsInPkg("types") {
		for _, b := range f.Blocks {
			for _, in := range b.Instrs {
				st, ok := in.(*ssa.Store)
				if !ok {
					continue
				}
				fa, ok := st.Addr.(*ssa.FieldAddr)
				if !ok || !isFieldOf(fa, "types", "ValidatorSet", "totalVotingPower") {
					continue
				}
				_ = fa
			}
		}
	}
	c.Check(n >= 2, "types.ValidatorSet.totalVotingPower writers found", "-", fmt.Sprintf("%d", n), fmt.Sprintf("only %d writers", n))
	if f := c.fn("types", "ValidatorSet.updateTotalVotingPower"); f != nil {
		// the sum runs over every member
		ok := false
		for _, ea := range condEdges(f) {
			if guardCmp("all", fwdIdx, "<", `len\(vals\.Validators\)`).Match(w, f, ea.A) {
				ok = true
			}
		}
		c.Check(ok, funcKey(f)+" sums over every member", w.pos(f.Pos()), "i < len(Validators)", "the total is not summed over all members")
	}
	if f := c.fn("types", "ValidatorSet.TotalVotingPower"); f != nil {
		calls := w.callsTo(f, "types#ValidatorSet.updateTotalVotingPower")
		c.Check(len(calls) == 1, funcKey(f)+" recomputes when the cache is empty", w.pos(f.Pos()), "updateTotalVotingPower()", "TotalVotingPower no longer recomputes")
		for _, call := range calls {
			c.guards(f, call, funcKey(f)+" :: recompute", 0, guardCmp("cache empty", `vals\.totalVotingPower`, "==", "0"))
		}
	}
	if f := c.fn("types", "ValidatorSetFromProto"); f != nil {
		calls := w.callsTo(f, "types#ValidatorSet.TotalVotingPower")
		c.Check(len(calls) >= 1, funcKey(f)+" recomputes the total of a decoded set", w.pos(f.Pos()), "TotalVotingPower() on the fresh set", "a decoded set's total is not recomputed")
	}
	if f := c.fn("types", "safeMul"); f != nil {
		fk := funcKey(f)
		byDivision := guardAny("the product fits: |a| <= MaxInt64/|b| (or a == (a*b)/b)",
			guardCmp("div", `phi\(-a\|a\)`, "<=", `\(9223372036854775807 / phi\(-b\|b\)\)`),
			guardCmp("back", `\(\(a \* b\) / b\)`, "==", "a"))
		for _, r := range returnsOf(f) {
			ret := r.(*ssa.Return)
			if b, isC := boolConst(ret.Results[1]); isC && !b {
				if v := w.arith(ret.Results[0]); v != "0" {
					c.Check(v == "(a * b)", fk+" :: returns the product", w.ipos(ret), v, "returns "+v)
					c.guards(f, ret, fk+" :: report no overflow", 0, byDivision)
				}
			} else if !isC {
				c.Fail(fk+" :: overflow flag is decided by a branch", w.ipos(ret), "overflow flag is computed as "+w.expr(ret.Results[1]))
			}
		}
	}
}

func trunc(s string, n int) string {
	if len(s) > n {
		return s[:n] + "…"
	}
	return s
}

// ------------------------------------------------------------------ C07.R7
// "exactly that block id" and "the set's total power" rest on three helpers the verifiers call:
// (a) BlockID.Equals is full equality (hash and part-set header; header equality is total and hash);
// (b) the cached total power is the clipped sum of the members and never above MaxTotalVotingPower — the
//
//	threshold total*2/3 is computed without overflow check and wraps negative above MaxInt64/2;
//
// (c) a wrapper that is handed a block id and a commit verifies the commit for *that* id, not for the id
//
//	the commit itself carries.
func init() {
	register("C07", "R7", "K1", "block-id equality is full equality; the cached total power is bounded; verifier wrappers pass the block id they were given", 7, func(c *Ctx) {
		w := c.W
		if f := c.fn("types", "BlockID.Equals"); f != nil {
			for _, g := range []Guard{
				guardRe("hashes equal", `^true\(bytes\.Equal\(blockID\.Hash, other\.Hash\)\)$`),
				guardRe("part-set headers equal", `^true\(blockID\.PartSetHeader\.Equals\(other\.PartSetHeader\)\)$`),
			} {
				c.Check(c.ge().ensures(f, g, 1), "types.BlockID.Equals is true only if "+g.Name, w.pos(f.Pos()), "on every true return", "BlockID.Equals can answer true without: "+g.Name)
			}
		}
		if f := c.fn("types", "PartSetHeader.Equals"); f != nil {
			for _, g := range []Guard{
				guardCmp("part counts equal", `psh\.Total`, "==", `other\.Total`),
				guardRe("part-set hashes equal", `^true\(bytes\.Equal\(psh\.Hash, other\.Hash\)\)$`),
			} {
				c.Check(c.ge().ensures(f, g, 1), "types.PartSetHeader.Equals is true only if "+g.Name, w.pos(f.Pos()), "on every true return", "PartSetHeader.Equals can answer true without: "+g.Name)
			}
		}
		// (b)
		if f := c.fn("types", "ValidatorSet.updateTotalVotingPower"); f != nil {
			fk := funcKey(f)
			max := c.mustConst("types", "MaxTotalVotingPower")
			n := 0
			for _, fs := range w.fieldStoresIn(f, "types", "ValidatorSet", "totalVotingPower") {
				n++
				phi, ok := fs.Store.Val.(*ssa.Phi)
				if !c.Check(ok, fk+" :: total is accumulated over the members", w.ipos(fs.Store), "loop accumulator", "totalVotingPower = "+w.expr(fs.Store.Val)) {
					continue
				}
				for i, e := range phi.Edges {
					if k, isC := constInt(e); isC && k == 0 {
						continue
					}
					call := valueCall(e)
					okAdd := call != nil && w.isCall(call, "types#safeAddClip") && strings.HasSuffix(w.expr(call.Common().Args[1]), ".VotingPower")
					c.Check(okAdd, fk+" :: each step adds a member's power with the clipping add", w.ipos(fs.Store), "safeAddClip(sum, val.VotingPower)", "accumulated with "+w.expr(e))
					ev := e
					g := Guard{Name: "running sum within MaxTotalVotingPower (else panic)", Match: func(w *World, ff *ssa.Function, a Atom) bool {
						if a.Kind != "cmp" {
							return false
						}
						x, y, op := a.X, a.Y, a.Op
						if sameValue(y, ev) {
							x, y, op = y, x, flipOp(op)
						}
						k, isC := constInt(y)
						return sameValue(x, ev) && isC && (op == token.LEQ && k == max || op == token.LSS && k == max+1)
					}}
					okG, _ := c.ge().guardedEdge(f, phi.Block().Preds[i], phi.Block(), g, 0)
					c.Check(okG, fk+" :: the sum carried to the next member is within the cap", w.ipos(fs.Store), "sum <= MaxTotalVotingPower on the back edge", "the running sum is not compared with MaxTotalVotingPower before it is carried on: a total above the cap can be cached (the 2/3 threshold then overflows)")
				}
			}
			c.Check(n == 1, fk+" :: one store of the cached total", w.pos(f.Pos()), "1", fmt.Sprintf("%d", n))
		}
		// (c)
		k := newKeyer()
		nw := 0
		for _, f := range w.Funcs {
			if f.Parent() != nil || strings.HasSuffix(w.Fset.Position(f.Pos()).Filename, "_test.go") {
				continue
			}
			var idParam, commitParam *ssa.Parameter
			for _, p := range f.Params {
				switch p.Type().String() {
				case "github.com/tendermint/tendermint/types.BlockID":
					idParam = p
				case "*github.com/tendermint/tendermint/types.Commit":
					commitParam = p
				}
			}
			if idParam == nil || commitParam == nil || isMethodOf(f, "types", "ValidatorSet") {
				continue
			}
			for _, call := range w.callsTo(f, "types#ValidatorSet.VerifyCommit", "types#ValidatorSet.VerifyCommitLight", "types#ValidatorSet.VerifyCommitLightTrusting") {
				args := callArgs(call)
				if len(args) < 4 || !sameValue(derefParam(args[len(args)-1]), commitParam) && !sameValue(args[3], commitParam) {
					continue
				}
				nw++
				c.Check(sameValue(derefParam(args[1]), idParam), k.key(f, "verifies the commit for the block id it was given"), w.ipos(call), "block id parameter passed through", "the commit is verified for "+w.expr(args[1])+" instead of the block id handed to "+funcKey(f)+": a commit for any other block passes")
			}
		}
		c.Check(nw >= 1, "verifier wrappers found", "-", ">= 1", fmt.Sprintf("%d", nw))
	})
}

// derefParam: a by-value parameter that was spilled to an alloc renders as a load; follow it back.
func derefParam(v ssa.Value) ssa.Value {
	v = stripConv(v)
	if u, ok := v.(*ssa.UnOp); ok && u.Op == token.MUL {
		if a, ok := u.X.(*ssa.Alloc); ok {
			var src ssa.Value
			n := 0
			for _, r := range *a.Referrers() {
				if st, ok := r.(*ssa.Store); ok && st.Addr == ssa.Value(a) {
					src, n = st.Val, n+1
				}
			}
			if n == 1 {
				return stripConv(src)
			}
		}
	}
	return v
}

// ------------------------------------------------------------------ C07.R9
// "verify under the given chain id": the chain id handed to a commit verifier comes from the verifier's
// trusted context (state, trusted header, configured chain), never from the object whose commit is being
// checked — a commit signed under another chain's id would otherwise verify against itself.
func init() {
	register("C07", "R9", "K3", "the chain id given to a commit verifier does not come from the object whose commit is verified", 8, func(c *Ctx) {
		w := c.W
		k := newKeyer()
		n := 0
		strip := regexp.MustCompile(`(\.SignedHeader)?\.(Commit|LastCommit)$`)
		for _, s := range w.allCallsTo("types#ValidatorSet.VerifyCommit", "types#ValidatorSet.VerifyCommitLight", "types#ValidatorSet.VerifyCommitLightTrusting") {
			if strings.HasSuffix(w.Fset.Position(s.Instr.Pos()).Filename, "_test.go") {
				continue
			}
			call := s.Instr.(ssa.CallInstruction)
			args := callArgs(call)
			if len(args) < 4 {
				continue
			}
			chain := w.expr(args[0])
			commit := w.expr(args[3])
			if isMethodOf(s.Fn, "types", "ValidatorSet") {
				continue
			}
			n++
			obj := strip.ReplaceAllString(commit, "")
			bad := obj != commit && obj != "" && strings.HasPrefix(chain, obj+".")
			c.Check(!bad, k.key(s.Fn, "chain id for the commit check is independent of the checked object"), w.ipos(call), "chain id from state / trusted header / configuration", "the commit "+commit+" is verified under the chain id "+chain+" taken from the same untrusted object")
		}
		c.Check(n >= 8, "commit verifier call sites found", "-", ">= 8", fmt.Sprintf("%d", n))
	})
}

// ------------------------------------------------------------------ C07.R10
// F56: the by-index verifiers (VerifyCommit, VerifyCommitLight) check slot i with the key of validator i. The
// address written into the slot is not covered by any signature, yet it is what other code identifies the
// signer by: MedianTime weighs each timestamp with the power of the validator found under the slot's
// address (and skips unknown addresses), CommitToVoteSet rebuilds votes from it. "Each from a different member
// of the given validator set" has to hold for the member the slot *names*: a slot is verified (and tallied)
// only where its address is the address of the validator at its index.
func init() {
	register("C07", "R10", "K1", "by-index commit verification accepts a slot only if the address in it is the address of the validator at that index", 4, func(c *Ctx) {
		w := c.W
		for _, name := range []string{"ValidatorSet.VerifyCommit", "ValidatorSet.VerifyCommitLight"} {
			f := c.fn("types", name)
			if f == nil {
				continue
			}
			fk := funcKey(f)
			n := 0
			for _, dc := range w.deepCallsTo(f, 2, "crypto#PubKey.VerifySignature") {
				recv := w.exprWith(callRecv(dc.call), dc.sub)
				m := regexp.MustCompile(`^(.*\.Validators\[(.*)\])\.PubKey$`).FindStringSubmatch(recv)
				if !c.Check(m != nil, fk+" :: signature checked with the key of the validator at the slot's index", w.ipos(dc.site), "vals.Validators[idx].PubKey", "verified with "+recv) {
					continue
				}
				n++
				idx := regexp.QuoteMeta(m[2])
				g := guardRe("the slot's address is that validator's address", `^true\(bytes\.Equal\(`+regexp.QuoteMeta(m[1])+`\.Address, .*\.Signatures\[`+idx+`\]\.ValidatorAddress\)\)$`)
				// the guard may sit in the function or in the helper that holds the call
				// (a helper's parameters rendered as the arguments of this function's call, as m was)
				saved := w.subst
				w.subst = dc.sub
				ok, why := c.ge().guarded(dc.call.Parent(), dc.call, g, 0)
				w.subst = saved
				if !ok && dc.call.Parent() != f {
					ok, why = c.ge().guarded(f, dc.site, g, 0)
				}
				c.Check(ok, fk+" :: verify a slot <= "+g.Name, w.ipos(dc.site), "bytes.Equal(val.Address, commitSig.ValidatorAddress)", "a slot is verified and tallied whatever address it carries ("+why+"): the block time (median weighted by the addresses' power) and the reconstructed votes follow the unsigned address")
			}
			c.Check(n == 1, fk+" :: signature check found", w.pos(f.Pos()), "1", fmt.Sprintf("%d", n))
		}
	})
	alias("C06", "R14", "C07", "R10", "block time is the median weighted by the power found under the commit's addresses: the addresses must be the signers'")
}

// ------------------------------------------------------------------ C07.R11, R12
func init() {
	// F58: the trust fraction is a pair of uint64; the verifier computes the power needed in int64. A
	// numerator or denominator of 2^63 or more turns negative in the conversion and so does the power
	// needed — everything is "enough". The conversions are reached only for values that fit.
	register("C07", "R11", "K1+K10", "the trusting verifier converts the trust fraction to int64 only after bounding numerator and denominator by MaxInt64", 2, func(c *Ctx) {
		w := c.W
		f := c.fn("types", "ValidatorSet.VerifyCommitLightTrusting")
		if f == nil {
			return
		}
		fk := funcKey(f)
		n := 0
		for _, call := range w.callsTo(f, "types#safeMul") {
			n++
			tl := paramName(f, 3)
			c.guards(f, call, fk+" :: compute the power needed", 0,
				guardCmp("numerator fits int64", q(tl)+`\.Numerator`, "<=", "9223372036854775807"),
				guardCmp("denominator fits int64", q(tl)+`\.Denominator`, "<=", "9223372036854775807"),
				guardCmp("denominator not zero", q(tl)+`\.Denominator`, "!=", "0"))
		}
		c.Check(n == 1, fk+" :: computation of the power needed found", w.pos(f.Pos()), "1", fmt.Sprintf("%d", n))
	})
	// F57: what goes into the sign bytes must be encodable, or building them panics inside every verifier:
	// the block id (canonicalised through BlockIDFromProto, which refuses hashes of the wrong size) and each
	// non-absent slot's timestamp (encoded as a protobuf Timestamp, which has a range). The protobuf decoders
	// refuse both, JSON does not, and light-client providers deliver JSON. The commit's own ValidateBasic —
	// which every verification entry point runs first — is where both are established.
	register("C07", "R12", "K1", "Commit.ValidateBasic establishes that the block id and every present timestamp can be put into sign bytes (no panic in the verifiers)", 2, func(c *Ctx) {
		w := c.W
		if f := c.fn("types", "Commit.ValidateBasic"); f != nil {
			fk := funcKey(f)
			n := 0
			for _, call := range w.callsTo(f, "types#CommitSig.ValidateBasic") {
				n++
				c.guards(f, call, fk+" :: validate the slots of a commit for a block", 0, guardRe("the block id is well formed", `^nil\(\w+\.BlockID\.ValidateBasic\(\)\)$`))
			}
			c.Check(n == 1, fk+" :: slot validation found", w.pos(f.Pos()), "1", fmt.Sprintf("%d", n))
		}
		if f := c.fn("types", "CommitSig.ValidateBasic"); f != nil {
			fk := funcKey(f)
			recv := paramName(f, 0)
			g := guardAny("the slot is absent, or its timestamp can be encoded",
				guardCmp("absent", q(recv)+`\.BlockIDFlag`, "==", fmt.Sprint(c.mustConst("types", "BlockIDFlagAbsent"))),
				guardRe("encodable", `^nil\(github\.com/gogo/protobuf/types\.TimestampProto\(`+q(recv)+`\.Timestamp\)#1\)$`))
			c.Check(c.ge().ensures(f, g, 2), fk+" ensures "+g.Name, w.pos(f.Pos()), "success only behind this", "a present slot with a time outside the protobuf range passes validation and panics when its sign bytes are built")
		}
	})
	alias("C09", "R9", "C07", "R12", "headers from providers arrive as JSON: what the light client verifies must have been made safe to verify")
}
