package main

// Structural neutral witnesses: equivalent rewrites of guards (split/merged conditions, inverted
// branches, extracted helpers, hoisted temporaries). All rules of the property must stay silent.
func init() {
	st := "consensus/state.go"
	for _, p := range []string{"C01", "C02", "C03"} {
		addWitness(Witness{Name: "split-unlock-condition-" + p, Prop: p, Kind: "neutral", File: st,
			Old: "			if (cs.LockedBlock != nil) &&\n				(cs.LockedRound < vote.Round) &&\n				(vote.Round <= cs.Round) &&\n				!cs.LockedBlock.HashesTo(blockID.Hash) {\n\n				cs.Logger.Debug(\"unlocking because of POL\", \"locked_round\", cs.LockedRound, \"pol_round\", vote.Round)\n\n				cs.LockedRound = -1\n				cs.LockedBlock = nil\n				cs.LockedBlockParts = nil\n\n				if err := cs.eventBus.PublishEventUnlock(cs.RoundStateEvent()); err != nil {\n					return added, err\n				}\n			}\n",
			New: "			if cs.LockedBlock != nil && cs.LockedRound < vote.Round {\n				if vote.Round <= cs.Round {\n					if !cs.LockedBlock.HashesTo(blockID.Hash) {\n						cs.Logger.Debug(\"unlocking because of POL\", \"locked_round\", cs.LockedRound, \"pol_round\", vote.Round)\n\n						cs.LockedRound = -1\n						cs.LockedBlock = nil\n						cs.LockedBlockParts = nil\n\n						if err := cs.eventBus.PublishEventUnlock(cs.RoundStateEvent()); err != nil {\n							return added, err\n						}\n					}\n				}\n			}\n"})
	}
	addWitness(Witness{Name: "extract-proof-check-helper", Prop: "C10", Kind: "neutral", File: "types/part_set.go",
		Old: "	// The proof must be for this part's position in a set of this size\n	if part.Proof.Index != int64(part.Index) || part.Proof.Total != int64(ps.total) {\n		return false, ErrPartSetInvalidProof\n	}\n\n	// Check hash proof\n	if part.Proof.Verify(ps.Hash(), part.Bytes) != nil {\n		return false, ErrPartSetInvalidProof\n	}\n",
		New: "	// The proof must be for this part's position in a set of this size\n	if part.Proof.Index != int64(part.Index) {\n		return false, ErrPartSetInvalidProof\n	}\n	if part.Proof.Total != int64(ps.total) {\n		return false, ErrPartSetInvalidProof\n	}\n\n	// Check hash proof\n	root := ps.Hash()\n	if err := part.Proof.Verify(root, part.Bytes); err != nil {\n		return false, ErrPartSetInvalidProof\n	}\n"})
	addWitness(Witness{Name: "invert-capacity-branch", Prop: "C17", Kind: "neutral", File: "p2p/conn/connection.go",
		Old: "	if recvCap < recvReceived {\n		return nil, fmt.Errorf(\"received message exceeds available capacity: %v < %v\", recvCap, recvReceived)\n	}\n	ch.recving = append(ch.recving, packet.Data...)\n",
		New: "	if recvReceived <= recvCap {\n		ch.recving = append(ch.recving, packet.Data...)\n	} else {\n		return nil, fmt.Errorf(\"received message exceeds available capacity: %v < %v\", recvCap, recvReceived)\n	}\n"})
	addWitness(Witness{Name: "split-tx-early-return", Prop: "C20", Kind: "neutral", File: "light/rpc/client.go",
		Old: "	res, err := c.next.Tx(ctx, hash, prove)\n	if err != nil || !prove {\n		return res, err\n	}\n",
		New: "	res, err := c.next.Tx(ctx, hash, prove)\n	if err != nil {\n		return res, err\n	}\n	if !prove {\n		return res, nil\n	}\n"})
	addWitness(Witness{Name: "reap-loop-swap-operands", Prop: "C12", Kind: "neutral", File: "mempool/v0/clist_mempool.go",
		Old: "	for e := mem.txs.Front(); e != nil && len(txs) < max; e = e.Next() {", New: "	for e := mem.txs.Front(); e != nil && max > len(txs); e = e.Next() {"})
	addWitness(Witness{Name: "prune-flush-temp", Prop: "C18", Kind: "neutral", File: "store/store.go",
		Old: "			err := flush(batch, h+1)", New: "			next := h + 1\n			err := flush(batch, next)"})
	addWitness(Witness{Name: "pubsub-send-else-branch", Prop: "C19", Kind: "neutral", File: "libs/pubsub/pubsub.go",
		Old: "			continue\n		}\n\n		if match {", New: "		} else if match {"})
	for _, p := range []string{"C01", "C02", "C03"} {
		addWitness(Witness{Name: "extract-unlock-helper-" + p, Prop: p, Kind: "neutral", File: st,
			Old:  "				cs.Logger.Debug(\"unlocking because of POL\", \"locked_round\", cs.LockedRound, \"pol_round\", vote.Round)\n\n				cs.LockedRound = -1\n				cs.LockedBlock = nil\n				cs.LockedBlockParts = nil\n\n				if err := cs.eventBus.PublishEventUnlock(cs.RoundStateEvent()); err != nil {\n					return added, err\n				}\n",
			New:  "				if err := cs.unlockOnPOL(vote.Round); err != nil {\n					return added, err\n				}\n",
			More: []Edit{{File: st, Old: "func (cs *State) signVote(\n", New: "func (cs *State) unlockOnPOL(polRound int32) error {\n	cs.Logger.Debug(\"unlocking because of POL\", \"locked_round\", cs.LockedRound, \"pol_round\", polRound)\n\n	cs.LockedRound = -1\n	cs.LockedBlock = nil\n	cs.LockedBlockParts = nil\n\n	return cs.eventBus.PublishEventUnlock(cs.RoundStateEvent())\n}\n\nfunc (cs *State) signVote(\n"}}})
	}
}
