package main

import (
	"fmt"
	"go/constant"
	"go/token"
	"go/types"
	"regexp"
	"sort"
	"strings"

	"golang.org/x/tools/go/ssa"
)

func (c *Ctx) ge() *guardEnv {
	if c.W.genv == nil {
		c.W.genv = newGuardEnv(c.W)
	}
	return c.W.genv
}

// fn resolves an anchor function; an unresolved anchor is recorded as undecided (fail closed).
func (c *Ctx) fn(rel, name string) *ssa.Function {
	f := c.W.Fn(rel, name)
	if f == nil || f.Blocks == nil {
		c.Undecided("anchor:"+rel+"."+name, "-", "anchor function "+rel+"."+name+" not found: the code was restructured; the rule cannot be decided")
		return nil
	}
	return f
}

func q(s string) string { return regexp.QuoteMeta(s) }

// sinkKey builds a stable construct key for the n-th sink of a kind inside a function.
type keyer struct{ n map[string]int }

func newKeyer() *keyer { return &keyer{n: map[string]int{}} }
func (k *keyer) key(f *ssa.Function, sink string) string {
	base := funcKey(f) + " :: " + sink
	k.n[base]++
	if k.n[base] > 1 {
		return fmt.Sprintf("%s #%d", base, k.n[base])
	}
	return base
}

// guards evaluates each guard for target and records one obligation per guard.
func (c *Ctx) guards(f *ssa.Function, target ssa.Instruction, key string, lift int, gs ...Guard) bool {
	all := true
	for _, g := range gs {
		ok, why := c.ge().guarded(f, target, g, lift)
		if ok {
			c.OK(key+" <= "+g.Name, c.W.ipos(target), "guard holds on every path")
		} else {
			all = false
			c.Fail(key+" <= "+g.Name, c.W.ipos(target), "missing guard "+g.Name+": "+why)
		}
	}
	return all
}

// anyGuard: at least one of the alternatives holds on all paths (each alternative is a conjunction).
func (c *Ctx) anyGuards(f *ssa.Function, target ssa.Instruction, key, name string, lift int, alts ...[]Guard) bool {
	var whys []string
	for _, alt := range alts {
		ok := true
		for _, g := range alt {
			o, why := c.ge().guarded(f, target, g, lift)
			if !o {
				ok = false
				whys = append(whys, why)
				break
			}
		}
		if ok {
			c.OK(key+" <= "+name, c.W.ipos(target), "guard alternative holds on every path")
			return true
		}
	}
	c.Fail(key+" <= "+name, c.W.ipos(target), "no alternative of "+name+" holds: "+strings.Join(whys, " | "))
	return false
}

func flipOp(op token.Token) token.Token {
	switch op {
	case token.LSS:
		return token.GTR
	case token.GTR:
		return token.LSS
	case token.LEQ:
		return token.GEQ
	case token.GEQ:
		return token.LEQ
	}
	return op
}

// guardCmp matches a comparison atom "X op Y" in either orientation; ops is a space separated list
// of accepted operators for the orientation xRe op yRe.
func guardCmp(name, xRe, ops, yRe string) Guard {
	g := guardCmp1(name, xRe, ops, yRe)
	switch strings.TrimSpace(ops) {
	case "==":
		// x == y also holds behind x <= y and x >= y (e.g. two early returns for > and <)
		g.Split = []Guard{guardCmp1(name+" [<=]", xRe, "<=", yRe), guardCmp1(name+" [>=]", xRe, ">=", yRe)}
	case "<":
		// x < y also holds behind x <= y and x != y (early returns for == and >)
		g.Split = []Guard{guardCmp1(name+" [<=]", xRe, "<=", yRe), guardCmp1(name+" [!=]", xRe, "!=", yRe)}
	case ">":
		g.Split = []Guard{guardCmp1(name+" [>=]", xRe, ">=", yRe), guardCmp1(name+" [!=]", xRe, "!=", yRe)}
	}
	return g
}

func guardCmp1(name, xRe, ops, yRe string) Guard {
	xr := regexp.MustCompile("^(?:" + xRe + ")$")
	yr := regexp.MustCompile("^(?:" + yRe + ")$")
	okOps := map[string]bool{}
	for _, o := range strings.Fields(ops) {
		okOps[o] = true
		// a stronger comparison establishes the weaker one
		switch o {
		case "<=":
			okOps["<"], okOps["=="] = true, true
		case ">=":
			okOps[">"], okOps["=="] = true, true
		case "!=":
			okOps["<"], okOps[">"] = true, true
		}
	}
	return Guard{Name: name, Key: "cmp:" + xRe + " " + ops + " " + yRe, Match: func(w *World, f *ssa.Function, a Atom) bool {
		if a.Kind != "cmp" {
			return false
		}
		x, y := w.arith(a.X), w.arith(a.Y)
		try := func(op token.Token, x, y string) bool {
			if okOps[op.String()] && xr.MatchString(x) && yr.MatchString(y) {
				return true
			}
			return okOps[flipOp(op).String()] && xr.MatchString(y) && yr.MatchString(x)
		}
		if try(a.Op, x, y) {
			return true
		}
		// over the integers `v >= k` is `v > k-1` and `v <= k` is `v < k+1` (and the reverse): a bound
		// written with the neighbouring constant is the same bound
		alt := func(v ssa.Value, k int64, op token.Token, constOnRight bool) bool {
			if !isIntegral(v) {
				return false
			}
			// normalise to "v op k"
			if !constOnRight {
				op = flipOp(op)
			}
			var op2 token.Token
			var k2 int64
			switch op {
			case token.GEQ:
				op2, k2 = token.GTR, k-1
			case token.GTR:
				op2, k2 = token.GEQ, k+1
			case token.LEQ:
				op2, k2 = token.LSS, k+1
			case token.LSS:
				op2, k2 = token.LEQ, k-1
			default:
				return false
			}
			return try(op2, w.arith(v), fmt.Sprint(k2))
		}
		if k, isK := constInt(a.Y); isK {
			if _, xK := constInt(a.X); !xK && alt(a.X, k, a.Op, true) {
				return true
			}
		}
		if k, isK := constInt(a.X); isK {
			if _, yK := constInt(a.Y); !yK && alt(a.Y, k, a.Op, false) {
				return true
			}
		}
		return false
	}}
}

// arith renders a value like expr but with commutative operands in canonical order so that
// 2*T and T*2 are the same string.
func (w *World) arith(v ssa.Value) string {
	if b, ok := stripConv(v).(*ssa.BinOp); ok {
		x, y := w.arith(b.X), w.arith(b.Y)
		if b.Op == token.MUL || b.Op == token.ADD {
			_, xc := stripConv(b.X).(*ssa.Const)
			_, yc := stripConv(b.Y).(*ssa.Const)
			if (xc && !yc) || (!xc && !yc && x > y) {
				x, y = y, x
			}
		}
		return "(" + x + " " + b.Op.String() + " " + y + ")"
	}
	return w.expr(v)
}

// constVal returns the int64 value of a package-level constant (full or module-relative pkg path).
func (w *World) constVal(pkg, name string) (int64, bool) {
	var scope *types.Scope
	if p := w.Pkg(pkg); p != nil {
		scope = p.Pkg.Scope()
	} else if p := w.ByPath[pkg]; p != nil && p.Types != nil {
		scope = p.Types.Scope()
	}
	if scope == nil {
		return 0, false
	}
	c, ok := scope.Lookup(name).(*types.Const)
	if !ok {
		return 0, false
	}
	return constant.Int64Val(c.Val())
}

func (c *Ctx) mustConst(pkg, name string) int64 {
	v, ok := c.W.constVal(pkg, name)
	if !ok {
		c.Undecided("anchor:const:"+pkg+"."+name, "-", "constant not found")
		return -999999
	}
	return v
}

// mustConstString: the value of a string constant of the repository (undecided when it is not there).
func (c *Ctx) mustConstString(pkg, name string) string {
	var scope *types.Scope
	if p := c.W.Pkg(pkg); p != nil {
		scope = p.Pkg.Scope()
	} else if p := c.W.ByPath[pkg]; p != nil && p.Types != nil {
		scope = p.Types.Scope()
	}
	if scope != nil {
		if k, ok := scope.Lookup(name).(*types.Const); ok && k.Val().Kind() == constant.String {
			return constant.StringVal(k.Val())
		}
	}
	c.Undecided("anchor:const:"+pkg+"."+name, "-", "string constant not found")
	return "\x00missing"
}

// methodsOf lists in-scope functions whose receiver is the named type rel.typ (incl. closures inside).
func (w *World) methodsOf(rel, typ string) []*ssa.Function {
	var out []*ssa.Function
	for _, f := range w.Funcs {
		o := outermost(f)
		if o.Signature.Recv() == nil {
			continue
		}
		n := derefNamed(o.Signature.Recv().Type())
		if n != nil && n.Obj().Name() == typ && relPath(n.Obj().Pkg()) == rel {
			out = append(out, f)
		}
	}
	return out
}

func isMethodOf(f *ssa.Function, rel, typ string) bool {
	o := outermost(f)
	if o.Signature.Recv() == nil {
		return false
	}
	n := derefNamed(o.Signature.Recv().Type())
	return n != nil && n.Obj().Name() == typ && relPath(n.Obj().Pkg()) == rel
}

// onlyIn checks that every site lies in a function accepted by allow (K3) and records one obligation per site.
func (c *Ctx) onlyIn(what string, sites []Site, allow func(f *ssa.Function) (bool, string)) {
	k := newKeyer()
	for _, s := range sites {
		// a site inside a helper introduced later with a single call site belongs to the function the
		// helper was carved out of
		owner := transparentRoot(outermost(s.Fn))
		ok, why := allow(s.Fn)
		if !ok && owner != outermost(s.Fn) {
			ok, why = allow(owner)
		}
		key := k.key(owner, what)
		if ok {
			c.OK(key, c.W.ipos(s.Instr), "allowed: "+why)
		} else {
			c.Fail(key, c.W.ipos(s.Instr), what+" occurs in "+funcKey(s.Fn)+", which is not an allowed owner")
		}
	}
}

func sortedKeys(m map[string]bool) []string {
	var out []string
	for k := range m {
		out = append(out, k)
	}
	sort.Strings(out)
	return out
}

// storesNil reports whether the store writes the nil constant / zero.
func storesNil(st *ssa.Store) bool { return isNilConst(st.Val) }

// blockInstrs returns the instructions of the same basic block.
func sameBlockStores(st *ssa.Store) []*ssa.Store {
	var out []*ssa.Store
	for _, in := range st.Block().Instrs {
		if s, ok := in.(*ssa.Store); ok {
			out = append(out, s)
		}
	}
	return out
}

// callsMatching lists call instructions in f whose rendered form matches re.
func (w *World) callsMatching(f *ssa.Function, re string) []ssa.CallInstruction {
	rx := regexp.MustCompile(re)
	var out []ssa.CallInstruction
	for _, c := range callInstrs(f) {
		if rx.MatchString(w.callStr(c)) {
			out = append(out, c)
		}
	}
	return out
}

// funcsCalling lists in-scope functions of package rel (or all if rel=="") containing a call matching specs.
func (w *World) funcsCalling(rel string, specs ...string) []*ssa.Function {
	var out []*ssa.Function
	for _, f := range w.Funcs {
		if rel != "" && relPkg(f) != rel {
			continue
		}
		if len(w.callsTo(f, specs...)) > 0 {
			out = append(out, f)
		}
	}
	return out
}

// isCallInstr matcher helper for path predicates.
func (w *World) callPred(specs ...string) func(ssa.Instruction) bool {
	return func(in ssa.Instruction) bool {
		c, ok := in.(ssa.CallInstruction)
		if !ok {
			return false
		}
		if _, isDefer := in.(*ssa.Defer); isDefer {
			return false
		}
		if _, isGo := in.(*ssa.Go); isGo {
			return false
		}
		return w.isCallAny(c, specs...)
	}
}

// transitive "always calls": does every normal-return path of h execute a call matching specs
// (directly or through a callee that always does)?
func (w *World) alwaysCalls(h *ssa.Function, depth int, specs ...string) bool {
	if h == nil || h.Blocks == nil {
		return false
	}
	pred := w.callPredDeep(depth, specs...)
	q := &pathQ{kill: pred, target: isReturn}
	in, _ := q.reach(h.Blocks[0], 0)
	return in == nil
}

// callPredDeep: instruction is a call matching specs, or a static call to an in-module function that
// always (on every returning path) performs such a call.
func (w *World) callPredDeep(depth int, specs ...string) func(ssa.Instruction) bool {
	memo := map[*ssa.Function]int{}
	var always func(h *ssa.Function, d int) bool
	var pred func(d int) func(ssa.Instruction) bool
	pred = func(d int) func(ssa.Instruction) bool {
		return func(in ssa.Instruction) bool {
			c, ok := in.(ssa.CallInstruction)
			if !ok {
				return false
			}
			if _, isGo := in.(*ssa.Go); isGo {
				return false
			}
			if _, isDefer := in.(*ssa.Defer); isDefer {
				return false
			}
			if w.isCallAny(c, specs...) {
				return true
			}
			if d > 0 {
				if h := staticCallee(c); h != nil && h.Blocks != nil && strings.HasPrefix(pkgPathOf(h), modPath) {
					return always(h, d-1)
				}
			}
			return false
		}
	}
	always = func(h *ssa.Function, d int) bool {
		switch memo[h] {
		case 1:
			return true
		case 2, 3:
			return false
		}
		memo[h] = 3
		qq := &pathQ{kill: pred(d), target: isReturn}
		in, _ := qq.reach(h.Blocks[0], 0)
		if in == nil {
			memo[h] = 1
			return true
		}
		memo[h] = 2
		return false
	}
	return pred(depth)
}

// mayCallDeep: instruction is a call that may (transitively, statically) reach a call matching specs.
func (w *World) mayCallDeep(depth int, specs ...string) func(ssa.Instruction) bool {
	memo := map[*ssa.Function]int{}
	var may func(h *ssa.Function, d int) bool
	may = func(h *ssa.Function, d int) bool {
		if v, ok := memo[h]; ok {
			return v == 1
		}
		memo[h] = 2
		for _, c := range callInstrs(h) {
			if w.isCallAny(c, specs...) {
				memo[h] = 1
				return true
			}
			if d > 0 {
				if g := staticCallee(c); g != nil && g.Blocks != nil && strings.HasPrefix(pkgPathOf(g), modPath) && may(g, d-1) {
					memo[h] = 1
					return true
				}
			}
		}
		return false
	}
	return func(in ssa.Instruction) bool {
		c, ok := in.(ssa.CallInstruction)
		if !ok {
			return false
		}
		if w.isCallAny(c, specs...) {
			return true
		}
		if h := staticCallee(c); h != nil && h.Blocks != nil && strings.HasPrefix(pkgPathOf(h), modPath) {
			return may(h, depth)
		}
		return false
	}
}

// sliceElems returns the values stored into the backing array of a slice literal / varargs slice.
func sliceElems(v ssa.Value) []ssa.Value {
	v = stripConv(v)
	sl, ok := v.(*ssa.Slice)
	if !ok {
		return nil
	}
	al, ok := sl.X.(*ssa.Alloc)
	if !ok {
		return nil
	}
	var out []ssa.Value
	for _, r := range *al.Referrers() {
		ia, ok := r.(*ssa.IndexAddr)
		if !ok {
			continue
		}
		for _, rr := range *ia.Referrers() {
			if st, ok := rr.(*ssa.Store); ok && st.Addr == ia {
				out = append(out, st.Val)
			}
		}
	}
	return out
}

// deepCall is a call matched in f itself or in an in-module helper reached from f through static calls;
// site is the instruction of f through which it is reached (the call itself when it is in f), and args are
// rendered in f's terms (helper parameters replaced by the arguments passed at each level).
type deepCall struct {
	call ssa.CallInstruction
	site ssa.CallInstruction
	w    *World
	sub  map[ssa.Value]string
}

func (d deepCall) arg(i int) string {
	a := callArgs(d.call)
	if i >= len(a) {
		return ""
	}
	return d.w.exprWith(a[i], d.sub)
}

func (d deepCall) str() string {
	saved := d.w.subst
	d.w.subst = d.sub
	defer func() { d.w.subst = saved }()
	return d.w.callStr(d.call)
}

// exprWith renders v under a parameter substitution.
func (w *World) exprWith(v ssa.Value, sub map[ssa.Value]string) string {
	saved := w.subst
	w.subst = sub
	defer func() { w.subst = saved }()
	return w.expr(v)
}

// deepCallsTo lists the calls to specs made by f or, up to depth levels down, by in-module helpers f calls
// statically (extract-helper refactorings are transparent to rules that use it).
func (w *World) deepCallsTo(f *ssa.Function, depth int, specs ...string) []deepCall {
	var out []deepCall
	var walk func(g *ssa.Function, site ssa.CallInstruction, sub map[ssa.Value]string, d int, seen map[*ssa.Function]bool)
	walk = func(g *ssa.Function, site ssa.CallInstruction, sub map[ssa.Value]string, d int, seen map[*ssa.Function]bool) {
		for _, call := range rawCallInstrs(g) {
			s := site
			if g == f {
				s = call
			}
			if w.isCallAny(call, specs...) {
				out = append(out, deepCall{call: call, site: s, w: w, sub: sub})
				continue
			}
			if d <= 0 {
				continue
			}
			if _, isGo := call.(*ssa.Go); isGo {
				continue
			}
			h := staticCallee(call)
			if h == nil || h.Blocks == nil || seen[h] || !strings.HasPrefix(pkgPathOf(h), modPath) || pkgPathOf(h) != pkgPathOf(f) {
				continue
			}
			args := call.Common().Args
			if len(args) != len(h.Params) {
				continue
			}
			nsub := map[ssa.Value]string{}
			for i, p := range h.Params {
				nsub[p] = w.exprWith(args[i], sub)
			}
			seen[h] = true
			walk(h, s, nsub, d-1, seen)
			delete(seen, h)
		}
	}
	walk(f, nil, nil, depth, map[*ssa.Function]bool{f: true})
	return out
}

// deepCallsMatching: calls of f, or of helpers introduced later that f calls (any number of sites), whose
// rendering in f's terms matches re. site is the instruction of f that stands for the call in ordering and
// guard questions.
func (w *World) deepCallsMatching(f *ssa.Function, depth int, re string) []deepCall {
	rx := regexp.MustCompile(re)
	var out []deepCall
	var walk func(g *ssa.Function, site ssa.CallInstruction, sub map[ssa.Value]string, d int, seen map[*ssa.Function]bool)
	walk = func(g *ssa.Function, site ssa.CallInstruction, sub map[ssa.Value]string, d int, seen map[*ssa.Function]bool) {
		for _, call := range rawCallInstrs(g) {
			s := site
			if g == f {
				s = call
			}
			dc := deepCall{call: call, site: s, w: w, sub: sub}
			if rx.MatchString(dc.str()) {
				out = append(out, dc)
				continue
			}
			if d <= 0 {
				continue
			}
			if _, isGo := call.(*ssa.Go); isGo {
				continue
			}
			h := staticCallee(call)
			if h == nil || seen[h] || !isNewFunc(h) || len(call.Common().Args) != len(h.Params) {
				continue
			}
			nsub := map[ssa.Value]string{}
			for i, p := range h.Params {
				nsub[p] = w.exprWith(call.Common().Args[i], sub)
			}
			seen[h] = true
			walk(h, s, nsub, d-1, seen)
			delete(seen, h)
		}
	}
	walk(f, nil, nil, depth, map[*ssa.Function]bool{f: true})
	return out
}
