package main

import (
	"fmt"
	"go/ast"
	"go/token"
	"go/types"
	"os"
	"regexp"
	"strings"

	"golang.org/x/tools/go/ssa"
)

// varInitSource returns the source text of a package-level variable's initialiser (AST).
func (w *World) varInitSource(rel, name string) string {
	p := w.ByPath[modPath+"/"+rel]
	if p == nil {
		return ""
	}
	for _, f := range p.Syntax {
		for _, d := range f.Decls {
			gd, ok := d.(*ast.GenDecl)
			if !ok {
				continue
			}
			for _, sp := range gd.Specs {
				vs, ok := sp.(*ast.ValueSpec)
				if !ok {
					continue
				}
				for i, n := range vs.Names {
					if n.Name == name && i < len(vs.Values) {
						// source text (types.ExprString elides literal contents)
						a, b := w.Fset.Position(vs.Values[i].Pos()), w.Fset.Position(vs.Values[i].End())
						if src, err := os.ReadFile(a.Filename); err == nil && b.Offset <= len(src) {
							return string(src[a.Offset:b.Offset])
						}
						return types.ExprString(vs.Values[i])
					}
				}
			}
		}
	}
	return ""
}

func init() {
	// ------------------------------------------------------------------ C10.R1
	register("C10", "R1", "K1", "a part is stored (and counted) only if its proof is for its own index in a set of this size and verifies against the set's root", 14, func(c *Ctx) {
		w := c.W
		f := c.fn("types", "PartSet.AddPart")
		if f == nil {
			return
		}
		P := paramName(f, 1)
		S := paramName(f, 0)
		gs := []Guard{
			guardCmp("index within the set", q(P)+`\.Index`, "<", q(S)+`\.total`),
			guardRe("slot is empty", `^nil\(`+q(S)+`\.parts\[`+q(P)+`\.Index\]\)$`),
			guardCmp("proof index equals the part index", q(P)+`\.Proof\.Index`, "==", q(P)+`\.Index`),
			guardCmp("proof total equals the set total", q(P)+`\.Proof\.Total`, "==", q(S)+`\.total`),
			guardRe("proof verifies the part bytes against the set root", `^nil\(`+q(P)+`\.Proof\.Verify\(`+q(S)+`\.Hash\(\), `+q(P)+`\.Bytes\)\)$`),
		}
		n := 0
		for _, b := range f.Blocks {
			for _, in := range b.Instrs {
				st, ok := in.(*ssa.Store)
				if !ok {
					continue
				}
				dst := w.expr(st.Addr)
				switch {
				case dst == S+".parts["+P+".Index]":
					n++
					c.guards(f, st, funcKey(f)+" :: parts[index] = part", 0, gs...)
				case dst == S+".count" || dst == S+".byteSize":
					n++
					c.guards(f, st, funcKey(f)+" :: "+strings.TrimPrefix(dst, S+".")+" updated", 0, gs...)
				}
			}
		}
		c.Check(n == 3, funcKey(f)+" :: stores slot, count and byte size", w.pos(f.Pos()), "three updates found", fmt.Sprintf("%d of the three updates (slot, count, byteSize) found", n))
		// accepted (true) only after the store
		for _, v := range returnValues(f, 0) {
			_ = v
		}
		// PartSet.Hash is the header root the set was created for
		if h := c.fn("types", "PartSet.Hash"); h != nil {
			ok := false
			for _, v := range returnValues(h, 0) {
				if strings.HasSuffix(w.expr(v), ".hash") {
					ok = true
				}
			}
			c.Check(ok, "types.PartSet.Hash returns the root the set was created with", w.pos(h.Pos()), "returns ps.hash", "Hash() does not return the stored root")
		}
		if nf := c.fn("types", "NewPartSetFromHeader"); nf != nil {
			got := map[string]string{}
			for _, fs := range w.fieldStoresIn(nf, "types", "PartSet", "*") {
				got[fieldName(fs.Addr.X.Type(), fs.Addr.Field)] = w.expr(fs.Store.Val)
			}
			c.Check(got["total"] == "header.Total" && got["hash"] == "header.Hash", "types.NewPartSetFromHeader takes total and root from the header", w.pos(nf.Pos()), "total=header.Total hash=header.Hash", "total="+got["total"]+" hash="+got["hash"])
		}
	})

	// ------------------------------------------------------------------ C10.R2
	register("C10", "R2", "K5", "merkle domain separation and agreement between tree building, proof building and proof checking", 12, func(c *Ctx) {
		w := c.W
		lp, ip := w.varInitSource("crypto/merkle", "leafPrefix"), w.varInitSource("crypto/merkle", "innerPrefix")
		c.Check(lp != "" && ip != "" && lp != ip, "crypto/merkle leaf and inner prefixes are distinct constants", "crypto/merkle/hash.go", "leafPrefix="+lp+" innerPrefix="+ip, "prefixes are leafPrefix="+lp+" innerPrefix="+ip)
		if f := c.fn("crypto/merkle", "leafHash"); f != nil {
			rv := returnValues(f, 0)
			c.Check(len(rv) == 1 && w.expr(rv[0]) == "crypto/tmhash.Sum(append(crypto/merkle.leafPrefix, leaf))", "crypto/merkle.leafHash = H(leafPrefix || leaf)", w.pos(f.Pos()), "exact", "leafHash computes something else")
		}
		if f := c.fn("crypto/merkle", "innerHash"); f != nil {
			rv := returnValues(f, 0)
			c.Check(len(rv) == 1 && w.expr(rv[0]) == "crypto/tmhash.Sum(append(crypto/merkle.innerPrefix, append(left, right)))", "crypto/merkle.innerHash = H(innerPrefix || left || right)", w.pos(f.Pos()), "exact", "innerHash computes something else")
		}
		// no raw hashing in the tree/proof code
		raw := 0
		for _, f := range w.FuncsInPkg("crypto/merkle") {
			n := outermost(f).Name()
			if n == "leafHash" || n == "innerHash" || n == "emptyHash" || isMethodOf(f, "crypto/merkle", "ValueOp") || strings.HasPrefix(n, "init") {
				continue
			}
			raw += len(w.callsTo(f, "crypto/tmhash#Sum", "crypto/sha256#Sum256"))
		}
		c.Check(raw == 0, "crypto/merkle tree and proof code hash only through leafHash/innerHash/emptyHash", "crypto/merkle", "no raw tmhash.Sum outside the three helpers", fmt.Sprintf("%d raw hash calls outside the helpers", raw))
		// same split function, same leaf/inner construction in tree, trails and verification
		for _, name := range []string{"HashFromByteSlices", "trailsFromByteSlices", "computeHashFromAunts"} {
			f := c.fn("crypto/merkle", name)
			if f == nil {
				continue
			}
			c.Check(len(w.callsTo(f, "crypto/merkle#getSplitPoint")) >= 1, "crypto/merkle."+name+" splits with getSplitPoint", w.pos(f.Pos()), "uses getSplitPoint", "does not use getSplitPoint")
			c.Check(len(w.callsTo(f, "crypto/merkle#innerHash")) >= 1, "crypto/merkle."+name+" combines with innerHash", w.pos(f.Pos()), "uses innerHash", "does not use innerHash")
		}
		if f := c.fn("crypto/merkle", "HashFromByteSlices"); f != nil {
			ok := false
			for _, call := range w.callsTo(f, "crypto/merkle#innerHash") {
				if regexp.MustCompile(`^crypto/merkle\.innerHash\(crypto/merkle\.HashFromByteSlices\(items\[:K\]\), crypto/merkle\.HashFromByteSlices\(items\[K:\]\)\)$`).MatchString(strings.ReplaceAll(w.callStr(call), "crypto/merkle.getSplitPoint(len(items))", "K")) {
					ok = true
				}
			}
			c.Check(ok, "crypto/merkle.HashFromByteSlices = inner(H(items[:k]), H(items[k:]))", w.pos(f.Pos()), "left then right around the split point", "inner node is not built from the two halves in order")
			c.Check(len(w.callsMatching(f, `^crypto/merkle\.leafHash\(items\[0\]\)$`)) == 1, "crypto/merkle.HashFromByteSlices single item = leafHash(item)", w.pos(f.Pos()), "leaf", "single-item case does not use leafHash(items[0])")
		}
		if f := c.fn("crypto/merkle", "computeHashFromAunts"); f != nil {
			k := "crypto/merkle.getSplitPoint(total)"
			var got []string
			for _, call := range w.callsTo(f, "crypto/merkle#computeHashFromAunts") {
				got = append(got, strings.ReplaceAll(w.callStr(call), k, "K"))
			}
			want1 := "crypto/merkle.computeHashFromAunts(index, K, leafHash, innerHashes[:(len(innerHashes) - 1)])"
			want2 := "crypto/merkle.computeHashFromAunts((index - K), (total - K), leafHash, innerHashes[:(len(innerHashes) - 1)])"
			okRec := len(got) == 2 && (got[0] == want1 && got[1] == want2 || got[1] == want1 && got[0] == want2)
			c.Check(okRec, "crypto/merkle.computeHashFromAunts recursion follows index/total", w.pos(f.Pos()), "left: (index, k); right: (index-k, total-k); aunts shrink by one", "recursive calls are "+strings.Join(got, " ; "))
			for _, call := range w.callsTo(f, "crypto/merkle#computeHashFromAunts") {
				s := strings.ReplaceAll(w.callStr(call), k, "K")
				if s == want1 {
					c.guards(f, call, "crypto/merkle.computeHashFromAunts :: descend left", 0, guardCmp("index < split", "index", "<", q(k)))
				} else {
					c.guards(f, call, "crypto/merkle.computeHashFromAunts :: descend right", 0, guardCmp("index >= split", "index", ">=", q(k)))
				}
			}
			var inner []string
			for _, call := range w.callsTo(f, "crypto/merkle#innerHash") {
				// the sub-tree hash may be a merge of the two recursive results selected by the same condition
				// value that selects the side: resolve it under the conditions that dominate this call
				args := callArgs(call)
				parts := make([]string, len(args))
				for i, a := range args {
					parts[i] = w.expr(a)
					if phi, isPhi := a.(*ssa.Phi); isPhi {
						if e := phiUnder(phi, call.Block()); e != nil {
							parts[i] = w.expr(e)
						}
					}
				}
				inner = append(inner, strings.ReplaceAll("crypto/merkle.innerHash("+strings.Join(parts, ", ")+")", k, "K"))
			}
			a := "crypto/merkle.innerHash(" + want1 + ", innerHashes[(len(innerHashes) - 1)])"
			b := "crypto/merkle.innerHash(innerHashes[(len(innerHashes) - 1)], " + want2 + ")"
			okIn := len(inner) == 2 && (inner[0] == a && inner[1] == b || inner[0] == b && inner[1] == a)
			c.Check(okIn, "crypto/merkle.computeHashFromAunts puts the aunt on the correct side", w.pos(f.Pos()), "left subtree: inner(sub, aunt); right subtree: inner(aunt, sub)", "inner nodes are "+strings.Join(inner, " ; "))
		}
	})

	// ------------------------------------------------------------------ C10.R5
	register("C10", "R5", "K1", "reassembly reader: a part's byte reader is read directly only while it still holds at least the requested bytes, and end-of-stream is reported only after the last part (an exhausted or empty part is skipped, not mistaken for the end)", 3, func(c *Ctx) {
		w := c.W
		f := c.fn("types", "PartSetReader.Read")
		if f == nil {
			return
		}
		fk := funcKey(f)
		n := 0
		for _, call := range w.callsTo(f, "bytes#Reader.Read") {
			n++
			c.guards(f, call, fk+" :: read from the current part", 0, guardCmp("the current part still holds at least len(p) bytes", `psr\.reader\.Len\(\)`, ">=", `len\(p\)`))
		}
		c.Check(n >= 1, fk+" :: reads parts through their byte readers", w.pos(f.Pos()), fmt.Sprintf("%d direct reads", n), "no direct read found")
		for _, r := range returnsOf(f) {
			ret := r.(*ssa.Return)
			if strings.HasSuffix(w.expr(ret.Results[1]), "io.EOF") {
				c.guards(f, ret, fk+" :: report end of stream", 0, guardCmp("all parts were consumed", `psr\.i`, ">=", `len\(psr\.parts\)`))
			}
		}
		// moving to the next part continues through Read itself (which skips empty parts)
		for _, fs := range w.fieldStoresIn(f, "types", "PartSetReader", "reader") {
			ok, _, _ := mustFollow(fs.Store, func(in ssa.Instruction) bool {
				call, isCall := in.(*ssa.Call)
				return isCall && staticCallee(call) == f
			}, nil)
			c.Check(ok, fk+" :: after switching to the next part the read is retried on it", w.ipos(fs.Store), "Read(p) again", "after switching parts the function returns without retrying the read through Read")
		}
	})

	// ------------------------------------------------------------------ C10.R3
	register("C10", "R3", "K1", "a proof verifies only with matching leaf hash and recomputed root; the root is recomputed only for a valid (index,total,aunts) shape", 12, func(c *Ctx) {
		w := c.W
		if f := c.fn("crypto/merkle", "Proof.Verify"); f != nil {
			for _, g := range []Guard{
				guardCmp("total non-negative", `\w+\.Total`, ">=", "0"),
				guardCmp("index non-negative", `\w+\.Index`, ">=", "0"),
				guardRe("leaf hash equals H(leaf)", `^true\(bytes\.Equal\(\w+\.LeafHash, crypto/merkle\.leafHash\(leaf\)\)\)$`),
				guardRe("recomputed root equals the given root", `^true\(bytes\.Equal\((\w+\.ComputeRootHash\(\)|crypto/merkle\.computeHashFromAunts\(\w+\.Index, \w+\.Total, \w+\.LeafHash, \w+\.Aunts\)), rootHash\)\)$`),
			} {
				c.Check(c.ge().ensures(f, g, 2), "crypto/merkle.Proof.Verify ensures "+g.Name, w.pos(f.Pos()), "nil only behind this check", "Verify can return nil without: "+g.Name)
			}
		}
		if f := c.fn("crypto/merkle", "Proof.ComputeRootHash"); f != nil {
			rv := returnValues(f, 0)
			c.Check(len(rv) == 1 && regexp.MustCompile(`^crypto/merkle\.computeHashFromAunts\(\w+\.Index, \w+\.Total, \w+\.LeafHash, \w+\.Aunts\)$`).MatchString(w.expr(rv[0])), "crypto/merkle.Proof.ComputeRootHash uses the proof's own index, total, leaf hash and aunts", w.pos(f.Pos()), "exact", "root is recomputed from other inputs")
		}
		if f := c.fn("crypto/merkle", "computeHashFromAunts"); f != nil {
			k := newKeyer()
			for _, b := range f.Blocks {
				ret, ok := b.Instrs[len(b.Instrs)-1].(*ssa.Return)
				if !ok || isNilConst(ret.Results[0]) {
					continue
				}
				v := w.expr(ret.Results[0])
				key := k.key(f, "returns a hash")
				c.guards(f, ret, key, 0,
					guardCmp("index < total", "index", "<", "total"),
					guardCmp("index >= 0", "index", ">=", "0"),
					guardCmp("total > 0", "total", ">", "0"))
				if v == "leafHash" {
					c.guards(f, ret, key+" (leaf)", 0, guardCmp("single leaf", "total", "==", "1"), guardCmp("no aunts left over", `len\(innerHashes\)`, "==", "0"))
				} else {
					c.guards(f, ret, key+" (inner)", 0, guardCmp("more than one leaf", "total", "!=", "1"), guardCmp("an aunt is available", `len\(innerHashes\)`, "!=", "0"),
						guardRe("sub-tree hash was computable", `^nonnil\((crypto/merkle\.computeHashFromAunts\(.*\)|phi\(crypto/merkle\.computeHashFromAunts\(.*\)\|crypto/merkle\.computeHashFromAunts\(.*\)\))\)$`))
				}
			}
		}
	})

	// ------------------------------------------------------------------ C10.R7
	// F21: computeHashFromAunts answers nil when no root can be computed from (index, total, aunts). A
	// nil root equals an empty root under bytes.Equal, so every user of the recomputed root must reject
	// nil before comparing it or handing it on: otherwise any (item, index, total, path) verifies
	// against an empty root.
	register("C10", "R7", "K1", "a recomputed root that does not exist (nil: malformed path) is rejected before it is compared or passed on", 2, func(c *Ctx) {
		w := c.W
		k := newKeyer()
		for _, s := range w.allCallsTo("crypto/merkle#Proof.ComputeRootHash", "crypto/merkle#computeHashFromAunts") {
			f := transparentRoot(outermost(s.Fn))
			if relPkg(f) == "crypto/merkle" && (f.Name() == "ComputeRootHash" || f.Name() == "computeHashFromAunts") {
				continue // the recomputation itself (checked by R3)
			}
			root := q(w.callStr(s.Instr.(ssa.CallInstruction)))
			g := guardAny("the recomputed root exists",
				guardRe("non-nil", `^nonnil\(`+root+`\)$`),
				guardCmp("non-empty", `len\(`+root+`\)`, ">", "0"))
			c.Check(c.ge().ensures(f, g, 0), k.key(f, "succeeds only with a computable root"), w.ipos(s.Instr), "success only behind root != nil", funcKey(f)+" can succeed with a root that could not be computed (nil), which compares equal to an empty root")
		}
	})

	// ------------------------------------------------------------------ C10.R4
	register("C10", "R4", "K1+K5", "tx inclusion proofs: validated against the data hash; built from the same leaves as the data hash", 7, func(c *Ctx) {
		w := c.W
		if f := c.fn("types", "TxProof.Validate"); f != nil {
			for _, g := range []Guard{
				guardRe("proof root equals the data hash", `^true\(bytes\.Equal\(dataHash, \w+\.RootHash\)\)$`),
				guardRe("proof verifies the tx leaf against its root", `^nil\(\w+\.Proof\.Verify\(\w+\.RootHash, \w+\.Leaf\(\)\)\)$`),
				guardCmp("index non-negative", `\w+\.Proof\.Index`, ">=", "0"),
				guardCmp("total positive", `\w+\.Proof\.Total`, ">", "0"),
			} {
				c.Check(c.ge().ensures(f, g, 2), "types.TxProof.Validate ensures "+g.Name, w.pos(f.Pos()), "nil only behind this check", "Validate can return nil without: "+g.Name)
			}
		}
		leaf := ""
		if f := c.fn("types", "TxProof.Leaf"); f != nil {
			rv := returnValues(f, 0)
			if len(rv) == 1 {
				leaf = w.expr(rv[0])
			}
			c.Check(regexp.MustCompile(`^\w+\.Data\.Hash\(\)$`).MatchString(leaf), "types.TxProof.Leaf = Data.Hash()", w.pos(f.Pos()), leaf, "leaf is "+leaf)
		}
		for _, name := range []string{"Txs.Hash", "Txs.Proof"} {
			f := c.fn("types", name)
			if f == nil {
				continue
			}
			okLeaf := false
			// the leaves are filled in the function itself or in a helper it shares with its sibling
			for _, di := range w.deepInstrs(f, 1) {
				st, ok := di.in.(*ssa.Store)
				if !ok {
					continue
				}
				addr := w.exprWith(st.Addr, di.sub)
				if m := regexp.MustCompile(`^make\(\[\]\[\]byte,len\(txs\)\)\[(.*)\]$`).FindStringSubmatch(addr); m != nil {
					okLeaf = w.exprWith(st.Val, di.sub) == "txs["+m[1]+"].Hash()"
				}
			}
			c.Check(okLeaf, "types."+name+" leaves are tx.Hash() at the tx's own position", w.pos(f.Pos()), "leaf i = txs[i].Hash()", "leaves are not txs[i].Hash() at position i")
		}
		if f := c.fn("types", "Txs.Proof"); f != nil {
			got := map[string]string{}
			for _, b := range f.Blocks {
				for _, in := range b.Instrs {
					if st, ok := in.(*ssa.Store); ok {
						if fa, ok := st.Addr.(*ssa.FieldAddr); ok {
							got[fieldName(fa.X.Type(), fa.Field)] = w.expr(st.Val)
						}
					}
				}
			}
			ok := strings.HasSuffix(got["RootHash"], "#0") && got["Data"] == "txs[i]" && strings.HasSuffix(got["Proof"], "#1[i]")
			c.Check(ok, "types.Txs.Proof(i) = {root, txs[i], proofs[i]}", w.pos(f.Pos()), "fields tie tx i to proof i", fmt.Sprintf("RootHash=%s Data=%s Proof=%s", got["RootHash"], got["Data"], got["Proof"]))
		}
	})
}

// ------------------------------------------------------------------ C10.R6
// The root of the RFC 6962 style tree does not commit to the number of leaves: (index, total) of a proof only
// steer the shape of the path. "Verifies only for the item at the stated index of a tree with the stated
// number of leaves" therefore holds for a verifier only if it pins the proof's total (and index) to values
// it knows independently of the proof. Every in-scope verification site must do that.
func init() {
	register("C10", "R6", "K1", "every Merkle proof verification pins the proof's stated total to an independently known leaf count (the root does not commit to it)", 2, func(c *Ctx) {
		w := c.W
		n := 0
		for _, s := range w.allCallsTo("crypto/merkle#Proof.Verify", "crypto/merkle#Proof.ComputeRootHash") {
			if relPkg(s.Fn) == "crypto/merkle" && strings.HasSuffix(funcKey(s.Fn), ".Verify") {
				continue // Verify itself calling ComputeRootHash
			}
			n++
			recv := w.expr(callRecv(s.Instr.(ssa.CallInstruction)))
			key := funcKey(s.Fn) + " :: verify " + recv
			g := Guard{Name: "the proof's total equals a leaf count known from elsewhere", Match: func(w *World, f *ssa.Function, a Atom) bool {
				if a.Kind != "cmp" || a.Op != token.EQL {
					return false
				}
				x, y := w.expr(a.X), w.expr(a.Y)
				isTot := func(s string) bool {
					return strings.HasSuffix(s, recv+".Total") || strings.HasSuffix(s, ".Proof.Total") && strings.Contains(s, strings.TrimSuffix(recv, ".Proof"))
				}
				fromProof := func(s string) bool { return strings.Contains(s, recv) }
				return (isTot(x) && !fromProof(y)) || (isTot(y) && !fromProof(x))
			}}
			c.guards(s.Fn, s.Instr, key, 1, g)
		}
		c.Check(n >= 2, "Merkle proof verification sites found", "-", fmt.Sprintf("%d", n), fmt.Sprintf("only %d sites", n))
	})
}

// phiUnder resolves a phi to the single incoming value that is consistent with the branch decisions
// dominating block at: an incoming edge is inconsistent when its predecessor is only reachable through the
// opposite outcome of a condition *value* that also decides a branch dominating at (the same boolean
// computed once and tested twice).
func phiUnder(phi *ssa.Phi, at *ssa.BasicBlock) ssa.Value {
	type dec struct {
		cond ssa.Value
		pol  bool
	}
	var decs []dec
	for b := at; b != nil; b = b.Idom() {
		if len(b.Preds) != 1 {
			continue
		}
		p := b.Preds[0]
		if ifi, ok := p.Instrs[len(p.Instrs)-1].(*ssa.If); ok && len(p.Succs) == 2 && p.Succs[0] != p.Succs[1] {
			decs = append(decs, dec{ifi.Cond, p.Succs[0] == b})
		}
	}
	var keep []ssa.Value
	for i, e := range phi.Edges {
		pred := phi.Block().Preds[i]
		consistent := true
		for _, d := range decs {
			// is pred only reachable through the opposite outcome of d.cond?
			for _, blk := range phi.Parent().Blocks {
				ifi, ok := blk.Instrs[len(blk.Instrs)-1].(*ssa.If)
				if !ok || ifi.Cond != d.cond || len(blk.Succs) != 2 {
					continue
				}
				opp := blk.Succs[1]
				if !d.pol {
					opp = blk.Succs[0]
				}
				if len(opp.Preds) == 1 && opp.Dominates(pred) {
					consistent = false
				}
			}
		}
		if consistent {
			keep = append(keep, e)
		}
	}
	if len(keep) == 1 {
		return keep[0]
	}
	return nil
}

// ------------------------------------------------------------------ C10.R8
// Round-4 seeds: (a) the value operator of a proof chain (ABCI query proofs) may hand a root on only if the
// hash of <key, value> equals the proof's leaf hash — whatever total the proof states; skipping the check
// for a "single-leaf" proof lets any value verify, because the root then comes from the proof alone;
// (b) where a proven position is compared with a field of an answer, the comparison is made in the wider
// type: narrowing the proof's 64-bit index to the field's 32 bits lets index 2^32 pass for position 0.
func init() {
	register("C10", "R8", "K1", "the value operator binds <key, value> to the proof's leaf hash on every path; proven positions are never compared through a narrowing conversion", 3, func(c *Ctx) {
		w := c.W
		if f := c.fn("crypto/merkle", "ValueOp.Run"); f != nil {
			g := guardRe("hash of <key, value> equals the proof's leaf hash", `^true\(bytes\.Equal\(crypto/merkle\.leafHash\(.*\), \w+\.Proof\.LeafHash\)\)$`)
			c.Check(c.ge().ensures(f, g, 1), funcKey(f)+" ensures "+g.Name, w.pos(f.Pos()), "a root is handed on only behind it", "ValueOp.Run can hand a root on without having compared the value with the proof's leaf hash")
		}
		k := newKeyer()
		n := 0
		sizeOf := func(t types.Type) int64 {
			if b, ok := t.Underlying().(*types.Basic); ok && b.Info()&types.IsInteger != 0 {
				return w.sizes().Sizeof(t)
			}
			return 0
		}
		seenFn := map[*ssa.Function]bool{}
		for _, spec := range [][2]string{{"light/rpc", "Client.Tx"}, {"light/rpc", "Client.TxSearch"}, {"types", "TxProof.Validate"}, {"types", "PartSet.AddPart"}} {
			f0 := c.fn(spec[0], spec[1])
			if f0 == nil {
				continue
			}
			// the function and what it calls in its own package, two levels down (a check shared by two
			// callers lives in a helper with more than one call site)
			var all []ssa.Instruction
			for _, g := range pkgCallees(f0, 2) {
				if seenFn[g] {
					continue
				}
				seenFn[g] = true
				for _, b := range g.Blocks {
					all = append(all, b.Instrs...)
				}
			}
			f := f0
			for _, in := range all {
				b, ok := in.(*ssa.BinOp)
				if !ok || !(b.Op == token.EQL || b.Op == token.NEQ) {
					continue
				}
				for _, op := range []ssa.Value{b.X, b.Y} {
					cv, isConv := op.(*ssa.Convert)
					if !isConv {
						continue
					}
					from, to := sizeOf(cv.X.Type()), sizeOf(cv.Type())
					if from == 0 || to == 0 {
						continue
					}
					n++
					c.Check(to >= from, k.key(f, "position comparison is made in the wider type"), w.ipos(b), "no narrowing", fmt.Sprintf("%s is narrowed from %d to %d bytes before it is compared: positions that differ only in the dropped bits compare equal", w.expr(cv.X), from, to))
				}
			}
		}
		c.Check(n >= 1, "position comparisons with conversions found", "-", ">= 1", fmt.Sprintf("%d", n))
	})
}

func (w *World) sizes() types.Sizes { return types.SizesFor("gc", "amd64") }

// ------------------------------------------------------------------ C10.R9
// F55: the block id that consensus votes on names a part set header. Whoever later receives the block in one
// piece (block sync v0/v1/v2, SaveBlock's callers) derives the parts from the block with
// MakePartSet(BlockPartSizeBytes) and requires the commit to be for exactly that id. The proposer's header is
// therefore acceptable only if it is the header the block yields — the same bytes cut into parts of another
// size, or another protobuf encoding of the same block, reassemble to "the original block hash" but to a block
// id nobody else can reproduce (the height cannot be synced; one block gets two ids). Rule: the decoded
// proposal block becomes cs.ProposalBlock only behind
// block.MakePartSet(BlockPartSizeBytes).HasHeader(ProposalBlockParts.Header()).
func init() {
	register("C10", "R9", "K1", "a completed proposal block is accepted only if its part set header is the one the block itself yields with the standard part size", 2, func(c *Ctx) {
		w := c.W
		f := c.fn("consensus", "State.addProposalBlockPart")
		if f == nil {
			return
		}
		fk := funcKey(f)
		size := c.mustConst("types", "BlockPartSizeBytes")
		n := 0
		for _, fs := range w.fieldStoresIn(f, "consensus/types", "RoundState", "ProposalBlock") {
			v := w.expr(fs.Store.Val)
			if !strings.Contains(v, "BlockFromProto(") {
				continue
			}
			n++
			re := `^true\(` + regexp.QuoteMeta(v) + `\.MakePartSet\(` + fmt.Sprint(size) + `\)\.HasHeader\(\w+(?:\.RoundState)?\.ProposalBlockParts\.Header\(\)\)\)$`
			c.guards(fs.Fn, fs.Store, fk+" :: adopt the reassembled block as the proposal block", 0, guardRe("the parts received are the canonical parts of that block", re))
		}
		c.Check(n == 1, fk+" :: adoption of the reassembled block found", w.pos(f.Pos()), "1", fmt.Sprintf("%d", n))
	})
	alias("C13", "R13", "C10", "R9", "block sync recomputes the block id from the block: what consensus commits must be reproducible from the block alone")
}

// pkgCallees: f and the functions of f's own package it calls statically, depth levels down.
func pkgCallees(f *ssa.Function, depth int) []*ssa.Function {
	out := []*ssa.Function{f}
	seen := map[*ssa.Function]bool{f: true}
	var walk func(g *ssa.Function, d int)
	walk = func(g *ssa.Function, d int) {
		if d <= 0 {
			return
		}
		for _, call := range rawCallInstrs(g) {
			h := staticCallee(call)
			if h == nil || h.Blocks == nil || seen[h] || pkgPathOf(h) != pkgPathOf(f) {
				continue
			}
			seen[h] = true
			out = append(out, h)
			walk(h, d-1)
		}
	}
	walk(f, depth)
	return out
}
