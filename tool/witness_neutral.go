package main

// Neutral witnesses: behaviour-preserving refactorings (renames of parameters, receivers, loop and
// address-taken variables; operand swaps; extracted conditions) on which every rule of the property must
// stay silent. They guard the checker against "false alarm on an equivalent program".
func init() {
	n := func(name, prop string, rs ...Rename) {
		addWitness(Witness{Name: name, Prop: prop, Kind: "neutral", Renames: rs})
	}
	st := "consensus/state.go"
	for _, p := range []string{"C01", "C02", "C03"} {
		n("rename-addVote-params-"+p, p, Rename{st, "func (cs *State) addVote(vote *types.Vote, peerID p2p.ID) (added bool, err error) {", "vote", "vt"})
		n("rename-enterPrecommit-params-"+p, p, Rename{st, "func (cs *State) enterPrecommit(height int64, round int32) {", "round", "rnd"},
			Rename{st, "func (cs *State) enterPrecommit(height int64, round int32) {", "height", "hgt"})
		n("rename-state-receiver-setProposal-"+p, p, Rename{st, "func (cs *State) defaultSetProposal(proposal *types.Proposal) error {", "cs", "st"},
			Rename{st, "func (cs *State) defaultSetProposal(proposal *types.Proposal) error {", "proposal", "prop"})
	}
	n("rename-handleTimeout-params", "C03", Rename{st, "func (cs *State) handleTimeout(ti timeoutInfo, rs cstypes.RoundState) {", "ti", "tmo"})
	n("rename-decideProposal-local", "C03", Rename{st, "func (cs *State) defaultDecideProposal(height int64, round int32) {", "propBlockID", "pbid"})
	n("rename-timeouts-receiver", "C03", Rename{"config/config.go", "func (cfg *ConsensusConfig) Propose(round int32) time.Duration {", "cfg", "c"},
		Rename{"config/config.go", "func (cfg *ConsensusConfig) Propose(round int32) time.Duration {", "round", "r"})

	n("rename-filepv-signVote", "C04", Rename{"privval/file.go", "func (pv *FilePV) signVote(chainID string, vote *tmproto.Vote) error {", "vote", "v"},
		Rename{"privval/file.go", "func (pv *FilePV) signVote(chainID string, vote *tmproto.Vote) error {", "pv", "fpv"})
	n("rename-applyBlock", "C05", Rename{"state/execution.go", "func (blockExec *BlockExecutor) ApplyBlock(", "block", "blk"})
	n("rename-validateBlock", "C06", Rename{"state/validation.go", "func validateBlock(state State, block *types.Block) error {", "block", "b"})
	n("rename-verifyCommit", "C07", Rename{"types/validator_set.go", "func (vals *ValidatorSet) VerifyCommit(chainID string, blockID BlockID,", "vals", "vs"},
		Rename{"types/validator_set.go", "func (vals *ValidatorSet) VerifyCommit(chainID string, blockID BlockID,", "commit", "cmt"})
	n("rename-updateWithChangeSet", "C08", Rename{"types/validator_set.go", "func (vals *ValidatorSet) updateWithChangeSet(changes []*Validator, allowDeletes bool) error {", "changes", "chg"})
	n("rename-verifyNonAdjacent", "C09", Rename{"light/verifier.go", "func VerifyNonAdjacent(", "trustedHeader", "th"},
		Rename{"light/verifier.go", "func VerifyNonAdjacent(", "untrustedHeader", "uh"})
	n("rename-addPart", "C10", Rename{"types/part_set.go", "func (ps *PartSet) AddPart(part *Part) (bool, error) {", "part", "p"},
		Rename{"types/part_set.go", "func (ps *PartSet) AddPart(part *Part) (bool, error) {", "ps", "set"})
	n("rename-verifyDuplicateVote", "C11", Rename{"evidence/verify.go", "func VerifyDuplicateVote(e *types.DuplicateVoteEvidence, chainID string, valSet *types.ValidatorSet) error {", "e", "ev"},
		Rename{"evidence/verify.go", "func VerifyDuplicateVote(e *types.DuplicateVoteEvidence, chainID string, valSet *types.ValidatorSet) error {", "valSet", "vset"})
	n("rename-mempool-checkTx", "C12", Rename{"mempool/v0/clist_mempool.go", "func (mem *CListMempool) CheckTx(", "tx", "txn"})
	n("rename-bcv0-poolRoutine", "C13", Rename{"blockchain/v0/reactor.go", "func (bcR *BlockchainReactor) poolRoutine(stateSynced bool) {", "bcR", "r"})
	n("rename-statesync-sync", "C14", Rename{"statesync/syncer.go", "func (s *syncer) Sync(snapshot *snapshot, chunks *chunkQueue) (sm.State, *types.Commit, error) {", "chunks", "cq"})
	n("rename-wal-search", "C15", Rename{"consensus/wal.go", "func (wal *BaseWAL) SearchForEndHeight(", "wal", "w"})
	n("rename-secretconn-write", "C16", Rename{"p2p/conn/secret_connection.go", "func (sc *SecretConnection) Write(data []byte) (n int, err error) {", "sc", "conn"},
		Rename{"p2p/conn/secret_connection.go", "func (sc *SecretConnection) Write(data []byte) (n int, err error) {", "data", "buf"})
	n("rename-recvPacketMsg", "C17", Rename{"p2p/conn/connection.go", "func (ch *Channel) recvPacketMsg(packet tmp2p.PacketMsg) ([]byte, error) {", "packet", "pkt"},
		Rename{"p2p/conn/connection.go", "func (ch *Channel) recvPacketMsg(packet tmp2p.PacketMsg) ([]byte, error) {", "ch", "c"})
	n("rename-nextPacketMsg", "C17", Rename{"p2p/conn/connection.go", "func (ch *Channel) nextPacketMsg() tmp2p.PacketMsg {", "packet", "out"},
		Rename{"p2p/conn/connection.go", "func (ch *Channel) nextPacketMsg() tmp2p.PacketMsg {", "maxSize", "limit"})
	n("rename-bitarray-sub", "C17", Rename{"libs/bits/bit_array.go", "func (bA *BitArray) Sub(o *BitArray) *BitArray {", "o", "other"},
		Rename{"libs/bits/bit_array.go", "func (bA *BitArray) Sub(o *BitArray) *BitArray {", "bA", "b"})
	n("rename-consensus-receive", "C17", Rename{"consensus/reactor.go", "func (conR *Reactor) ReceiveEnvelope(e p2p.Envelope) {", "e", "env"},
		Rename{"consensus/reactor.go", "func (conR *Reactor) ReceiveEnvelope(e p2p.Envelope) {", "conR", "r"})
	n("rename-saveBlock", "C18", Rename{"store/store.go", "func (bs *BlockStore) SaveBlock(block *types.Block, blockParts *types.PartSet, seenCommit *types.Commit) {", "blockParts", "parts"},
		Rename{"store/store.go", "func (bs *BlockStore) SaveBlock(block *types.Block, blockParts *types.PartSet, seenCommit *types.Commit) {", "bs", "s"})
	n("rename-pruneBlocks", "C18", Rename{"store/store.go", "func (bs *BlockStore) PruneBlocks(height int64) (uint64, error) {", "h", "cur"},
		Rename{"store/store.go", "func (bs *BlockStore) PruneBlocks(height int64) (uint64, error) {", "height", "retain"})
	n("rename-pubsub-send", "C19", Rename{"libs/pubsub/pubsub.go", "func (state *state) send(msg interface{}, events map[string][]string, forget func(clientID, qStr string)) error {", "events", "evs"},
		Rename{"libs/pubsub/pubsub.go", "func (state *state) send(msg interface{}, events map[string][]string, forget func(clientID, qStr string)) error {", "msg", "m"})
	n("rename-lightrpc-tx", "C20", Rename{"light/rpc/client.go", "func (c *Client) Tx(ctx context.Context, hash []byte, prove bool) (*ctypes.ResultTx, error) {", "prove", "withProof"},
		Rename{"light/rpc/client.go", "func (c *Client) Tx(ctx context.Context, hash []byte, prove bool) (*ctypes.ResultTx, error) {", "c", "cl"})
	n("rename-lightrpc-abciquery", "C20", Rename{"light/rpc/client.go", "func (c *Client) ABCIQueryWithOptions(ctx context.Context, path string, data tmbytes.HexBytes,", "opts", "o"})

	// operand swaps / equivalent conditions
	addWitness(Witness{Name: "swap-capacity-comparison", Prop: "C17", Kind: "neutral", File: "p2p/conn/connection.go",
		Old: "	if recvCap < recvReceived {", New: "	if recvReceived > recvCap {"})
	addWitness(Witness{Name: "swap-eof-comparison", Prop: "C17", Kind: "neutral", File: "p2p/conn/connection.go",
		Old: "	if len(ch.sending) <= maxSize {", New: "	if maxSize >= len(ch.sending) {"})
	addWitness(Witness{Name: "swap-unlock-comparison", Prop: "C03", Kind: "neutral", File: st,
		Old: "				(vote.Round <= cs.Round) &&", New: "				(cs.Round >= vote.Round) &&"})
	addWitness(Witness{Name: "swap-valid-round-comparison", Prop: "C03", Kind: "neutral", File: st,
		Old: "	if hasTwoThirds && !blockID.IsZero() && (cs.ValidRound < cs.Round) {", New: "	if hasTwoThirds && !blockID.IsZero() && (cs.Round > cs.ValidRound) {"})
	addWitness(Witness{Name: "timeout-operand-order", Prop: "C03", Kind: "neutral", File: "config/config.go",
		Old: "		cfg.TimeoutPropose.Nanoseconds()+cfg.TimeoutProposeDelta.Nanoseconds()*int64(round),", New: "		int64(round)*cfg.TimeoutProposeDelta.Nanoseconds()+cfg.TimeoutPropose.Nanoseconds(),"})
}
