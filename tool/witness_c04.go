package main

func init() {
	pf := "privval/file.go"
	addWitness(Witness{Name: "signature-released-before-save", Prop: "C04", Rule: "C04.R1", Kind: "break", File: pf,
		Old: "	pv.saveSigned(height, round, step, signBytes, sig)\n	vote.Signature = sig\n	return nil",
		New: "	vote.Signature = sig\n	pv.saveSigned(height, round, step, signBytes, sig)\n	return nil"})
	addWitness(Witness{Name: "save-skipped-for-prevotes", Prop: "C04", Rule: "C04.R1", Kind: "break", File: pf,
		Old: "	pv.saveSigned(height, round, step, signBytes, sig)\n	vote.Signature = sig\n	return nil",
		New: "	if step != stepPrevote {\n		pv.saveSigned(height, round, step, signBytes, sig)\n	}\n	vote.Signature = sig\n	return nil"})
	addWitness(Witness{Name: "save-error-logged-not-fatal", Prop: "C04", Rule: "C04.R1", Kind: "break", File: pf,
		Old: "	err = tempfile.WriteFileAtomic(outFile, jsonBytes, 0o600)\n	if err != nil {\n		panic(err)\n	}\n}\n\n//-------------------------------------------------------------------------------\n\n// FilePV implements",
		New: "	err = tempfile.WriteFileAtomic(outFile, jsonBytes, 0o600)\n	if err != nil {\n		fmt.Println(err)\n	}\n}\n\n//-------------------------------------------------------------------------------\n\n// FilePV implements"})
	addWitness(Witness{Name: "atomic-write-in-place", Prop: "C04", Rule: "C04.R2", Kind: "break", File: "libs/tempfile/tempfile.go",
		Old: "	return os.Rename(f.Name(), filename)", New: "	_ = f.Name()\n	return os.WriteFile(filename, data, perm)"})
	addWitness(Witness{Name: "short-write-ignored", Prop: "C04", Rule: "C04.R2", Kind: "break", File: "libs/tempfile/tempfile.go",
		Old: "	} else if n < len(data) {\n		return io.ErrShortWrite\n	}", New: "	} else if n < len(data) {\n		_ = io.ErrShortWrite\n	}"})
	addWitness(Witness{Name: "own-message-write-not-synced", Prop: "C04", Rule: "C04.R3", Kind: "break", File: "consensus/state.go",
		Old: "			err := cs.wal.WriteSync(mi) // NOTE: fsync", New: "			err := cs.wal.Write(mi) // NOTE: fsync"})
	addWitness(Witness{Name: "sign-vote-without-wal-flush-on-error", Prop: "C04", Rule: "C04.R4", Kind: "break", File: "consensus/state.go",
		Old: "	if err := cs.wal.FlushAndSync(); err != nil {\n		return nil, err\n	}\n\n	if cs.privValidatorPubKey == nil {",
		New: "	if err := cs.wal.FlushAndSync(); err != nil {\n		cs.Logger.Error(\"flush\", \"err\", err)\n	}\n\n	if cs.privValidatorPubKey == nil {"})
	addWitness(Witness{Name: "foreign-writer-of-sign-state", Prop: "C04", Rule: "C04.R5", Kind: "break", File: "privval/utils.go",
		Old: "// IsConnTimeout returns a boolean indicating", New: "func rewindSignState(pv *FilePV) { pv.LastSignState.Height = pv.LastSignState.Height - 1 }\n\n// IsConnTimeout returns a boolean indicating"})
	addWitness(Witness{Name: "writesync-without-sync", Prop: "C04", Rule: "C04.R6", Kind: "break", File: "consensus/wal.go",
		Old: "	if err := wal.FlushAndSync(); err != nil {\n		wal.Logger.Error(`WriteSync failed to flush consensus wal.", New: "	if err := wal.group.FlushAndSync(); err != nil && wal.flushInterval == 0 {\n		wal.Logger.Error(`WriteSync failed to flush consensus wal."})
	addWitness(Witness{Name: "group-sync-skipped", Prop: "C04", Rule: "C04.R6", Kind: "break", File: "libs/autofile/group.go",
		Old: "	err := g.headBuf.Flush()\n	if err == nil {\n		err = g.Head.Sync()\n	}\n	return err\n}", New: "	err := g.headBuf.Flush()\n	if err == nil && g.headSizeLimit == 0 {\n		err = g.Head.Sync()\n	}\n	return err\n}"})
}
