package main

import (
	"fmt"
	"go/types"
	"regexp"
	"sort"
	"strings"

	"golang.org/x/tools/go/ssa"
)

// enumValues lists the int values of the package-level constants of a named type.
func (w *World) enumValues(pkg, typ string) map[int64]string {
	out := map[int64]string{}
	var scope *types.Scope
	if p := w.Pkg(pkg); p != nil {
		scope = p.Pkg.Scope()
	} else if p := w.ByPath[pkg]; p != nil && p.Types != nil {
		scope = p.Types.Scope()
	}
	if scope == nil {
		return out
	}
	for _, n := range scope.Names() {
		cst, ok := scope.Lookup(n).(*types.Const)
		if !ok {
			continue
		}
		if nt, ok := cst.Type().(*types.Named); ok && nt.Obj().Name() == typ {
			if v, ok := constInt64(cst); ok {
				out[v] = n
			}
		}
	}
	return out
}

func constInt64(c *types.Const) (int64, bool) {
	s := c.Val().ExactString()
	var v int64
	_, err := fmt.Sscan(s, &v)
	return v, err == nil
}

// casesOn collects the constants a function compares `expr`-suffix values against with ==.
func casesOn(w *World, f *ssa.Function, suffix string) map[int64]bool {
	out := map[int64]bool{}
	for _, ea := range condEdgesDeep(f) {
		if ea.A.Kind != "cmp" || ea.A.Op.String() != "==" {
			continue
		}
		if strings.HasSuffix(w.expr(ea.A.X), suffix) {
			if v, ok := constInt(ea.A.Y); ok {
				out[v] = true
			}
		}
	}
	return out
}

func init() {
	// ------------------------------------------------------------------ C14.R1
	register("C14", "R1", "K3+K5", "state provider: every datum comes from a light-verified block of the right height (H, H+1, H+2) or from the verifying RPC client", 18, func(c *Ctx) {
		w := c.W
		if f := c.fn("statesync", "lightClientStateProvider.State"); f != nil {
			fk := funcKey(f)
			lb := func(off string) string {
				h := "height"
				if off != "" {
					h = "(height + " + off + ")"
				}
				return `s\.lc\.VerifyLightBlockAtHeight\(ctx, ` + regexp.QuoteMeta(h) + `, time\.Now\(\)\)#0`
			}
			last, cur, next := lb(""), lb("1"), lb("2")
			got := storedFields(w, f, "State")
			for k, v := range storedFields(w, f, "Version") {
				got["Version."+k] = v
			}
			want := map[string]string{
				"LastBlockHeight":                  `^` + last + `\.SignedHeader\.Header\.Height$`,
				"LastBlockTime":                    `^` + last + `\.SignedHeader\.Header\.Time$`,
				"LastBlockID":                      `^` + last + `\.SignedHeader\.Commit\.BlockID$`,
				"LastValidators":                   `^` + last + `\.ValidatorSet$`,
				"AppHash":                          `^` + cur + `\.SignedHeader\.Header\.AppHash$`,
				"LastResultsHash":                  `^` + cur + `\.SignedHeader\.Header\.LastResultsHash$`,
				"Validators":                       `^` + cur + `\.ValidatorSet$`,
				"NextValidators":                   `^` + next + `\.ValidatorSet$`,
				"LastHeightValidatorsChanged":      `^` + next + `\.SignedHeader\.Header\.Height$`,
				"LastHeightConsensusParamsChanged": `^` + cur + `\.SignedHeader\.Header\.Height$`,
				"Version.Consensus":                `^` + cur + `\.SignedHeader\.Header\.Version$`,
			}
			keys := make([]string, 0, len(want))
			for k := range want {
				keys = append(keys, k)
			}
			sort.Strings(keys)
			for _, fld := range keys {
				c.Check(regexp.MustCompile(want[fld]).MatchString(got[fld]), fk+" :: State."+fld+" from the verified block of the right height", w.pos(f.Pos()), got[fld], "State."+fld+" is taken from "+got[fld])
			}
			c.Check(regexp.MustCompile(`\.ConsensusParams\(ctx, .*\)#0\.ConsensusParams$`).MatchString(got["ConsensusParams"]), fk+" :: consensus params from the verifying RPC client", w.pos(f.Pos()), got["ConsensusParams"], "ConsensusParams from "+got["ConsensusParams"])
			for _, call := range w.callsTo(f, "light/rpc#Client.ConsensusParams") {
				c.Check(strings.Contains(w.expr(callRecv(call)), "light/rpc.NewClient(") && regexp.MustCompile(cur+`\.SignedHeader\.Header\.Height`).MatchString(w.expr(callArgs(call)[1])), fk+" :: params requested through light/rpc at height H+1", w.ipos(call), w.callStr(call), w.callStr(call))
			}
			// success only after all three verifications and the params fetch succeeded
			for _, g := range []Guard{
				guardRe("block H verified", `^nil\(`+strings.TrimSuffix(last, "#0")+`#1\)$`),
				guardRe("block H+1 verified", `^nil\(`+strings.TrimSuffix(cur, "#0")+`#1\)$`),
				guardRe("block H+2 verified", `^nil\(`+strings.TrimSuffix(next, "#0")+`#1\)$`),
				guardRe("consensus params verified", `^nil\(.*\.ConsensusParams\(ctx, .*\)#1\)$`),
			} {
				c.Check(c.ge().ensures(f, g, 2), fk+" ensures "+g.Name, w.pos(f.Pos()), "state returned only behind it", "State() can return a state without: "+g.Name)
			}
		}
		if f := c.fn("statesync", "lightClientStateProvider.AppHash"); f != nil {
			fk := funcKey(f)
			rv := returnValues(f, 0)
			ok := false
			for _, v := range rv {
				if regexp.MustCompile(`^s\.lc\.VerifyLightBlockAtHeight\(ctx, \(height \+ 1\), time\.Now\(\)\)#0\.SignedHeader\.Header\.AppHash$`).MatchString(w.expr(v)) {
					ok = true
				} else if !isNilConst(v) {
					ok = false
					break
				}
			}
			c.Check(ok, fk+" :: app hash of height H is taken from the verified header H+1", w.pos(f.Pos()), "header(H+1).AppHash", "AppHash returns something else")
			c.Check(c.ge().ensures(f, guardRe("block H+1 verified", `^nil\(s\.lc\.VerifyLightBlockAtHeight\(ctx, \(height \+ 1\), time\.Now\(\)\)#1\)$`), 2), fk+" ensures block H+1 verified", w.pos(f.Pos()), "guarded", "app hash returned without verification")
		}
		if f := c.fn("statesync", "lightClientStateProvider.Commit"); f != nil {
			fk := funcKey(f)
			rv := returnValues(f, 0)
			ok := false
			for _, v := range rv {
				if regexp.MustCompile(`^s\.lc\.VerifyLightBlockAtHeight\(ctx, height, time\.Now\(\)\)#0\.SignedHeader\.Commit$`).MatchString(w.expr(v)) {
					ok = true
				}
			}
			c.Check(ok, fk+" :: commit is the verified commit of height H", w.pos(f.Pos()), "lightBlock(H).Commit", "Commit returns something else")
		}
		// no data is read from the raw RPC client
		raw := 0
		for _, f := range w.methodsOf("statesync", "lightClientStateProvider") {
			for _, call := range callInstrs(f) {
				if d, ok := describeCallee(call); ok && d.Pkg == "rpc/client/http" && d.Recv == "HTTP" {
					raw++
					c.Fail(funcKey(f)+" :: reads through the unverified RPC client", w.ipos(call), "call "+w.callStr(call)+" on the raw RPC client")
				}
			}
		}
		c.Check(raw == 0, "statesync.lightClientStateProvider never reads the raw RPC client", "statesync/stateprovider.go", "only light.Client and light/rpc are queried", "raw RPC reads present")
	})

	// ------------------------------------------------------------------ C14.R2
	register("C14", "R2", "K2", "Sync: trusted app hash, then offer with that hash, then state and commit, then chunks, then verify the app, then return exactly that state and commit", 14, func(c *Ctx) {
		w := c.W
		f := c.fn("statesync", "syncer.Sync")
		if f == nil {
			return
		}
		fk := funcKey(f)
		appHashOK := guardRe("light-verified app hash obtained", `^nil\(s\.stateProvider\.AppHash\(.*snapshot\.Height\)#1\)$`)
		offerOK := guardRe("application accepted the snapshot offer", `^nil\(s\.offerSnapshot\(snapshot\)\)$`)
		stateOK := guardRe("light-verified state obtained", `^nil\(s\.stateProvider\.State\(.*snapshot\.Height\)#1\)$`)
		commitOK := guardRe("light-verified commit obtained", `^nil\(s\.stateProvider\.Commit\(.*snapshot\.Height\)#1\)$`)
		chunksOK := guardRe("all chunks applied", `^nil\(s\.applyChunks\(chunks\)\)$`)
		verifyOK := guardRe("restored app verified", `^nil\(s\.verifyApp\(snapshot, .*\.Version\.Consensus\.App\)\)$`)
		one := func(spec string) ssa.CallInstruction {
			cs := w.callsTo(f, spec)
			if len(cs) == 1 {
				return cs[0]
			}
			c.Fail(fk+" :: single call of "+spec, w.pos(f.Pos()), fmt.Sprintf("%d calls of %s", len(cs), spec))
			return nil
		}
		if call := one("statesync#syncer.offerSnapshot"); call != nil {
			c.guards(f, call, fk+" :: offer snapshot", 0, appHashOK)
			// trustedAppHash is the provider's answer
			ok := false
			for _, b := range f.Blocks {
				for _, in := range b.Instrs {
					if st, isSt := in.(*ssa.Store); isSt && strings.HasSuffix(w.expr(st.Addr), ".trustedAppHash") && regexp.MustCompile(`\.stateProvider\.AppHash\(.*\)#0$`).MatchString(w.expr(st.Val)) {
						if okp, _ := mustPrecede(f, call, func(i ssa.Instruction) bool { return i == st }); okp {
							ok = true
						}
					}
				}
			}
			c.Check(ok, fk+" :: snapshot.trustedAppHash = light-verified app hash before the offer", w.ipos(call), "set before OfferSnapshot", "the offer is made without the trusted app hash having been recorded")
		}
		if call := one("statesync#syncer.applyChunks"); call != nil {
			c.guards(f, call, fk+" :: apply chunks", 0, appHashOK, offerOK, stateOK, commitOK)
		}
		if call := one("statesync#syncer.verifyApp"); call != nil {
			c.guards(f, call, fk+" :: verify restored app", 0, chunksOK)
			c.Check(regexp.MustCompile(`^s\.verifyApp\(snapshot, s\.stateProvider\.State\(.*\)#0\.Version\.Consensus\.App\)$`).MatchString(w.callStr(call)), fk+" :: app version checked against the light-verified state's", w.ipos(call), w.callStr(call), w.callStr(call))
		}
		for _, g := range []Guard{appHashOK, offerOK, stateOK, commitOK, chunksOK, verifyOK} {
			c.Check(c.ge().ensures(f, g, 2), fk+" ensures "+g.Name, w.pos(f.Pos()), "success only behind it", "Sync can report success without: "+g.Name)
		}
		// returned state/commit are the provider's
		for _, sp := range successPoints(w, f) {
			if st, ok := sp.at.(*ssa.Store); ok {
				var vals []string
				for _, in := range st.Block().Instrs {
					if s2, ok := in.(*ssa.Store); ok {
						vals = append(vals, w.expr(s2.Val))
					}
				}
				j := strings.Join(vals, " ; ")
				c.Check(regexp.MustCompile(`stateProvider\.State\(.*\)#0`).MatchString(j) && regexp.MustCompile(`stateProvider\.Commit\(.*\)#0`).MatchString(j), fk+" :: returns the light-verified state and commit", w.ipos(st), "state and commit from the state provider", "returns "+j)
			}
		}
	})

	// ------------------------------------------------------------------ C14.R3
	register("C14", "R3", "K1+K4", "verifyApp and the ABCI verdict switches", 14, func(c *Ctx) {
		w := c.W
		if f := c.fn("statesync", "syncer.verifyApp"); f != nil {
			info := `s\.connQuery\.InfoSync\(proxy\.RequestInfo\)#0`
			for _, g := range []Guard{
				guardCmp("app version equals the verified state's", info+`\.AppVersion`, "==", "appVersion"),
				guardRe("app hash equals the light-verified hash", `^true\(bytes\.Equal\(snapshot\.trustedAppHash, `+info+`\.LastBlockAppHash\)\)$`),
				guardCmp("app height equals the snapshot height", info+`\.LastBlockHeight`, "==", `snapshot\.Height`),
				guardRe("Info call succeeded", `^nil\(s\.connQuery\.InfoSync\(proxy\.RequestInfo\)#1\)$`),
			} {
				c.Check(c.ge().ensures(f, g, 2), funcKey(f)+" ensures "+g.Name, w.pos(f.Pos()), "nil only behind this check", "verifyApp can accept without: "+g.Name)
			}
		}
		if f := c.fn("statesync", "syncer.offerSnapshot"); f != nil {
			fk := funcKey(f)
			got := map[string]string{}
			for _, b := range f.Blocks {
				for _, in := range b.Instrs {
					if st, ok := in.(*ssa.Store); ok {
						if fa, ok := st.Addr.(*ssa.FieldAddr); ok {
							got[fieldName(fa.X.Type(), fa.Field)] = w.expr(st.Val)
						}
					}
				}
			}
			c.Check(got["AppHash"] == "snapshot.trustedAppHash", fk+" :: offer carries the light-verified app hash", w.pos(f.Pos()), "AppHash = snapshot.trustedAppHash", "offered AppHash is "+got["AppHash"])
			for _, fld := range []string{"Height", "Format", "Chunks", "Hash", "Metadata"} {
				c.Check(got[fld] == "snapshot."+fld, fk+" :: offer field "+fld, w.pos(f.Pos()), got[fld], "offered "+fld+" is "+got[fld])
			}
			enum := w.enumValues("abci/types", "ResponseOfferSnapshot_Result")
			cases := casesOn(w, f, ".Result")
			for v, name := range enum {
				if name == "ResponseOfferSnapshot_UNKNOWN" {
					continue
				}
				c.Check(cases[v], fk+" :: handles verdict "+name, w.pos(f.Pos()), "case present", "verdict "+name+" has no case (falls to the default)")
			}
			accept := c.mustConst("abci/types", "ResponseOfferSnapshot_ACCEPT")
			c.Check(c.ge().ensures(f, guardCmp("verdict is ACCEPT", `.*\.Result`, "==", fmt.Sprint(accept)), 2), fk+" :: nil only for ACCEPT", w.pos(f.Pos()), "success only on ACCEPT", "offerSnapshot can return nil for a verdict other than ACCEPT")
		}
		if f := c.fn("statesync", "syncer.applyChunks"); f != nil {
			fk := funcKey(f)
			enum := w.enumValues("abci/types", "ResponseApplySnapshotChunk_Result")
			cases := casesOn(w, f, ".Result")
			for v, name := range enum {
				if name == "ResponseApplySnapshotChunk_UNKNOWN" {
					continue
				}
				c.Check(cases[v], fk+" :: handles verdict "+name, w.pos(f.Pos()), "case present", "verdict "+name+" has no case")
			}
			// chunk fields handed to the app come from one chunk record
			got := map[string]string{}
			for _, di := range w.deepInstrs(f, 2) { // also in a per-chunk helper split off the loop
				if st, ok := di.in.(*ssa.Store); ok {
					if fa, ok := st.Addr.(*ssa.FieldAddr); ok {
						if n := derefNamed(fa.X.Type()); n != nil && n.Obj().Name() == "RequestApplySnapshotChunk" {
							got[fieldName(fa.X.Type(), fa.Field)] = w.exprWith(st.Val, di.sub)
						}
					}
				}
			}
			ok := got["Index"] == "chunks.Next()#0.Index" && got["Chunk"] == "chunks.Next()#0.Chunk" && got["Sender"] == "chunks.Next()#0.Sender"
			c.Check(ok, fk+" :: index, bytes and sender of one chunk record go to the app", w.pos(f.Pos()), "all three from chunks.Next()", fmt.Sprintf("Index=%s Chunk=%s Sender=%s", got["Index"], got["Chunk"], got["Sender"]))
			// refetch / reject-sender requests are honoured
			c.Check(len(w.callsMatching(f, `^chunks\.Discard\(.*RefetchChunks\[`)) == 1, fk+" :: refetch requests discard the chunk", w.pos(f.Pos()), "Discard(RefetchChunks[i])", "refetch requests are not honoured")
			c.Check(len(w.callsMatching(f, `^s\.snapshots\.RejectPeer\(.*RejectSenders\[`)) == 1 && len(w.callsMatching(f, `^chunks\.DiscardSender\(.*RejectSenders\[`)) == 1, fk+" :: rejected senders are banned and their chunks discarded", w.pos(f.Pos()), "RejectPeer + DiscardSender", "reject-sender requests are not fully honoured")
			retry := c.mustConst("abci/types", "ResponseApplySnapshotChunk_RETRY")
			for _, call := range w.callsTo(f, "statesync#chunkQueue.Retry") {
				c.guards(f, call, fk+" :: retry the same chunk", 0, guardCmp("verdict is RETRY", `.*\.Result`, "==", fmt.Sprint(retry)))
				c.Check(w.expr(callArgs(call)[0]) == "chunks.Next()#0.Index", fk+" :: retry index is the applied chunk's", w.ipos(call), "Retry(chunk.Index)", w.callStr(call))
			}
		}
	})

	// ------------------------------------------------------------------ C14.R5
	register("C14", "R5", "K1+K2", "blacklists: a rejected snapshot, format or sender is recorded on every path and never re-admitted", 9, func(c *Ctx) {
		w := c.W
		if f := c.fn("statesync", "snapshotPool.Add"); f != nil {
			fk := funcKey(f)
			gs := []Guard{
				guardRe("format not blacklisted", `^false\(p\.formatBlacklist\[snapshot\.Format\]\)$`),
				guardRe("peer not blacklisted", `^false\(p\.peerBlacklist\[peer\.ID\(\)\]\)$`),
				guardRe("snapshot not blacklisted", `^false\(p\.snapshotBlacklist\[snapshot\.Key\(\)\]\)$`),
			}
			n := 0
			for _, b := range f.Blocks {
				for _, in := range b.Instrs {
					if mu, ok := in.(*ssa.MapUpdate); ok && (w.expr(mu.Map) == "p.snapshots" || strings.HasPrefix(w.expr(mu.Map), "p.snapshotPeers")) {
						n++
						c.guards(f, mu, fmt.Sprintf("%s :: admit into %s", fk, strings.SplitN(w.expr(mu.Map), "[", 2)[0]), 0, gs...)
					}
				}
			}
			c.Check(n >= 2, fk+" :: admission sites", w.pos(f.Pos()), fmt.Sprintf("%d", n), "snapshot admission sites not found")
		}
		for _, spec := range []struct{ fn, m, skip string }{
			{"snapshotPool.Reject", "p.snapshotBlacklist", ""},
			{"snapshotPool.RejectFormat", "p.formatBlacklist", ""},
			{"snapshotPool.RejectPeer", "p.peerBlacklist", `peerID == ""`},
		} {
			f := c.fn("statesync", spec.fn)
			if f == nil {
				continue
			}
			blocked := map[Edge]bool{}
			for _, ea := range condEdges(f) {
				if spec.skip != "" && w.atomStr(ea.A) == spec.skip {
					blocked[ea.E] = true
				}
			}
			q := &pathQ{blocked: func(e Edge) bool { return blocked[e] }, kill: func(in ssa.Instruction) bool {
				mu, ok := in.(*ssa.MapUpdate)
				if !ok || w.expr(mu.Map) != spec.m {
					return false
				}
				v, isC := boolConst(mu.Value)
				return isC && v
			}, target: func(in ssa.Instruction) bool { return isReturn(in) && in.Block().Comment != "recover" }}
			hit, path := q.reach(f.Blocks[0], 0)
			c.Check(hit == nil, funcKey(f)+" :: the rejection is recorded on every path", w.pos(f.Pos()), spec.m+"[key] = true before every return", "a return is reachable without the blacklist entry being written: "+pathStr(w, path))
		}
		// the blacklists only grow: entries are written as true, never deleted, and the maps are only
		// (re)built by the pool's constructor — a rejected snapshot / format / sender that drops off a
		// blacklist (e.g. when the peer disconnects) is offered to the application again
		kb := newKeyer()
		nb := 0
		for _, f := range w.FuncsInPkg("statesync") {
			for _, b := range f.Blocks {
				for _, in := range b.Instrs {
					switch x := in.(type) {
					case *ssa.MapUpdate:
						m := w.expr(x.Map)
						if !strings.HasSuffix(m, "Blacklist") {
							continue
						}
						nb++
						v, isC := boolConst(x.Value)
						c.Check(isC && v, kb.key(f, "blacklist entries are only ever set"), w.ipos(x), m+"[k] = true", m+" entry written with "+w.expr(x.Value))
					case ssa.CallInstruction:
						if b, ok := x.Common().Value.(*ssa.Builtin); ok && b.Name() == "delete" && len(x.Common().Args) > 0 {
							m := w.expr(x.Common().Args[0])
							if strings.HasSuffix(m, "Blacklist") {
								c.Fail(kb.key(f, "blacklist entries are never deleted"), w.ipos(x), "delete from "+m+": the rejected key can be admitted again")
							}
						}
					}
				}
			}
			for _, fld := range []string{"formatBlacklist", "peerBlacklist", "snapshotBlacklist"} {
				for _, fs := range w.fieldStoresInRaw(f, "statesync", "snapshotPool", fld) {
					c.Check(f.Name() == "newSnapshotPool", kb.key(f, "blacklist maps are built only by the constructor"), w.ipos(fs.Store), "newSnapshotPool", fld+" is replaced in "+funcKey(f))
				}
			}
		}
		c.Check(nb >= 3, "statesync :: blacklist writes found", "-", ">= 3", fmt.Sprintf("%d", nb))
		// SyncAny maps the three rejections to the three blacklists
		if f := c.fn("statesync", "syncer.SyncAny"); f != nil {
			fk := funcKey(f)
			for _, m := range []struct{ err, call, what string }{
				{"errRejectSnapshot", "statesync#snapshotPool.Reject", "reject snapshot"},
				{"errRejectFormat", "statesync#snapshotPool.RejectFormat", "reject format"},
				{"errRejectSender", "statesync#snapshotPool.RejectPeer", "reject senders"},
			} {
				calls := w.callsTo(f, m.call)
				ok := false
				for _, call := range calls {
					for _, a := range w.atomsAt(call) {
						if strings.Contains(a, "statesync."+m.err) && strings.HasPrefix(a, "true(errors.Is(") {
							ok = true
						}
					}
				}
				c.Check(ok, fk+" :: "+m.what+" leads to its blacklist", w.pos(f.Pos()), m.err+" → "+m.call, "the "+m.what+" verdict is not recorded in its blacklist")
			}
			for _, call := range w.callsTo(f, "statesync#snapshotPool.RejectPeer") {
				c.Check(regexp.MustCompile(`\.GetPeers\(.*\)\[.*\]\.ID\(\)`).MatchString(w.callStr(call)), fk+" :: every peer of the rejected snapshot is banned", w.ipos(call), w.callStr(call), w.callStr(call))
			}
		}
	})

	// ------------------------------------------------------------------ C14.R9
	// The recorded sender of a chunk goes with the chunk: it may be forgotten only together with a chunk that
	// was not handed to the app yet (so that a refetched chunk gets its new sender). A chunk that was returned
	// stays in the queue and is handed out again after RETRY / RETRY_SNAPSHOT — with the sender it arrived from.
	register("C14", "R9", "K1", "a chunk's recorded sender is dropped only for a chunk not yet handed to the app", 1, func(c *Ctx) {
		w := c.W
		n := 0
		for _, f := range w.methodsOf("statesync", "chunkQueue") {
			for _, call := range rawCallsTo(w, f, "builtin#delete") {
				if !strings.HasSuffix(w.expr(call.Common().Args[0]), ".chunkSenders") {
					continue
				}
				n++
				key := q(w.expr(call.Common().Args[1]))
				c.guards(f, call, funcKey(f)+" :: forget a chunk's sender", 0,
					guardRe("the chunk was not handed to the app", `^false\(\w+\.chunkReturned\[`+key+`\]\)$`))
			}
		}
		c.Check(n >= 1, "statesync.chunkQueue :: sender deletions found", "-", ">= 1", fmt.Sprintf("%d", n))
	})

	// ------------------------------------------------------------------ C14.R10
	// F26: "a rejected sender is never used again" also for chunks: RejectPeer keeps a rejected sender's
	// snapshots out of the pool, but its chunks keep arriving. Every place a chunk from the network enters
	// the queue must be behind "sender not rejected".
	register("C14", "R10", "K1", "a chunk from the network enters the queue only if its sender was not rejected", 1, func(c *Ctx) {
		w := c.W
		n := 0
		for _, s := range w.allCallsTo("statesync#chunkQueue.Add") {
			if isMethodOf(s.Fn, "statesync", "chunkQueue") || strings.HasSuffix(w.Fset.Position(s.Instr.Pos()).Filename, "_test.go") {
				continue
			}
			n++
			call := s.Instr.(ssa.CallInstruction)
			ch := q(w.expr(callArgs(call)[0]))
			c.guards(s.Fn, call, funcKey(s.Fn)+" :: queue a chunk", 1, guardRe("its sender was not rejected", `^false\(.*\.IsPeerRejected\(`+ch+`\.Sender\)\)$|^false\(.*\.peerBlacklist\[`+ch+`\.Sender\]\)$`))
		}
		c.Check(n >= 1, "statesync :: chunk admission sites found", "-", ">= 1", fmt.Sprintf("%d", n))
	})

	// ------------------------------------------------------------------ C14.R11
	// F28: "retry requests are honoured": when the application asks to retry the snapshot, every chunk must be
	// obtainable again. RetryAll forgets which chunks were returned; it must also release the allocation of
	// every chunk that is not in the queue (its request died with the previous attempt's fetchers), or nobody
	// asks for it again and the retry ends in the chunk timeout.
	register("C14", "R11", "K2+K1", "a chunk fetcher that is stopped with its request outstanding gives the chunk's allocation back", 4, func(c *Ctx) {
		w := c.W
		// (a) the release step: forgets the allocation of a chunk that is not present
		nRel := 0
		var release *ssa.Function
		for _, f := range w.methodsOf("statesync", "chunkQueue") {
			if f.Parent() != nil || f.Name() == "discard" || f.Name() == "Discard" || f.Name() == "DiscardSender" || f.Name() == "Close" {
				continue
			}
			for _, call := range rawCallsTo(w, f, "builtin#delete") {
				if !strings.HasSuffix(w.expr(call.Common().Args[0]), ".chunkAllocated") {
					continue
				}
				nRel++
				release = f
				key := q(w.expr(call.Common().Args[1]))
				c.guards(f, call, funcKey(f)+" :: release an allocation", 0, guardCmp("the chunk is not in the queue", `\w+\.chunkFiles\[`+key+`\]`, "==", `""`))
			}
		}
		if !c.Check(nRel == 1 && release != nil, "statesync.chunkQueue :: a step that releases the allocation of an absent chunk exists", "-", "one release step", fmt.Sprintf("%d", nRel)) {
			return
		}
		// (b) the fetcher: from the moment it has requested a chunk, every way out of the routine passes the
		// release (or a new Allocate, which is only reached after the chunk arrived)
		f := c.fn("statesync", "syncer.fetchChunks")
		if f == nil {
			return
		}
		fk := funcKey(f)
		reqs := w.callsTo(f, "statesync#syncer.requestChunk")
		c.Check(len(reqs) >= 1, fk+" :: request site found", w.pos(f.Pos()), ">= 1", fmt.Sprintf("%d", len(reqs)))
		for _, rq := range reqs {
			q := &pathQ{kill: func(in ssa.Instruction) bool {
				call, ok := in.(ssa.CallInstruction)
				if !ok {
					return false
				}
				h := staticCallee(call)
				return h != nil && (h == release || h.Name() == "Allocate")
			}, target: func(in ssa.Instruction) bool { return isReturn(in) && in.Block().Comment != "recover" }}
			hit, path := q.reach(rq.Block(), instrIndex(rq)+1)
			c.Check(hit == nil, fk+" :: a stopped fetcher gives its outstanding chunk back", w.ipos(rq), "Release(index) before every exit with a request outstanding", "the fetcher can exit with its request outstanding and the chunk still allocated (nobody requests it again after RETRY_SNAPSHOT): "+pathStr(w, path))
		}
		// RetryAll still forgets which chunks were handed to the app
		if g := c.fn("statesync", "chunkQueue.RetryAll"); g != nil {
			reset := false
			for _, fs := range w.fieldStoresIn(g, "statesync", "chunkQueue", "chunkReturned") {
				if _, ok := stripConv(fs.Store.Val).(*ssa.MakeMap); ok {
					reset = true
				}
			}
			c.Check(reset, funcKey(g)+" :: forgets which chunks were handed to the app", w.pos(g.Pos()), "chunkReturned reset", "chunkReturned is not reset")
		}
	})

	// ------------------------------------------------------------------ C14.R6
	register("C14", "R6", "K1", "chunks: first arrival fixes bytes and sender; the app gets the lowest unreturned index with the recorded sender", 8, func(c *Ctx) {
		w := c.W
		if f := c.fn("statesync", "chunkQueue.Add"); f != nil {
			fk := funcKey(f)
			gs := []Guard{
				guardCmp("no chunk recorded yet for this index", `q\.chunkFiles\[chunk\.Index\]`, "==", `""`),
				guardCmp("chunk belongs to this snapshot height", `chunk\.Height`, "==", `q\.snapshot\.Height`),
				guardCmp("chunk belongs to this snapshot format", `chunk\.Format`, "==", `q\.snapshot\.Format`),
				guardCmp("index within the snapshot", `chunk\.Index`, "<", `q\.snapshot\.Chunks`),
			}
			n := 0
			for _, b := range f.Blocks {
				for _, in := range b.Instrs {
					if mu, ok := in.(*ssa.MapUpdate); ok && (w.expr(mu.Map) == "q.chunkSenders" || w.expr(mu.Map) == "q.chunkFiles") {
						n++
						c.guards(f, mu, fk+" :: record "+strings.TrimPrefix(w.expr(mu.Map), "q."), 0, gs...)
						if w.expr(mu.Map) == "q.chunkSenders" {
							c.Check(w.expr(mu.Key) == "chunk.Index" && w.expr(mu.Value) == "chunk.Sender", fk+" :: sender recorded under the chunk's index", w.ipos(mu), "chunkSenders[chunk.Index] = chunk.Sender", "records "+w.expr(mu.Key)+" → "+w.expr(mu.Value))
						}
					}
				}
			}
			c.Check(n == 2, fk+" :: records file and sender", w.pos(f.Pos()), "two map updates", fmt.Sprintf("%d recording sites", n))
		}
		if f := c.fn("statesync", "chunkQueue.load"); f != nil {
			got := map[string]string{}
			for _, b := range f.Blocks {
				for _, in := range b.Instrs {
					if st, ok := in.(*ssa.Store); ok {
						if fa, ok := st.Addr.(*ssa.FieldAddr); ok {
							got[fieldName(fa.X.Type(), fa.Field)] = w.expr(st.Val)
						}
					}
				}
			}
			ok := got["Index"] == "index" && got["Sender"] == "q.chunkSenders[index]" && strings.HasPrefix(got["Chunk"], "os.ReadFile(q.chunkFiles[index]")
			c.Check(ok, funcKey(f)+" :: a loaded chunk carries its own index, stored bytes and recorded sender", w.pos(f.Pos()), "Index/Chunk/Sender all keyed by index", fmt.Sprintf("Index=%s Chunk=%s Sender=%s", got["Index"], got["Chunk"], got["Sender"]))
		}
		if f := c.fn("statesync", "chunkQueue.nextUp"); f != nil {
			fk := funcKey(f)
			for _, b := range f.Blocks {
				ret, ok := b.Instrs[len(b.Instrs)-1].(*ssa.Return)
				if !ok || !isNilConst(ret.Results[1]) {
					continue
				}
				c.guards(f, ret, fk+" :: next index", 0, guardRe("index not yet returned", `^false\(q\.chunkReturned\[phi\(\(phi:i \+ 1\)\|0\)\]\)$`), guardCmp("index within the snapshot", `phi\(\(phi:i \+ 1\)\|0\)`, "<", `q\.snapshot\.Chunks`))
				c.Check(w.expr(ret.Results[0]) == "phi((phi:i + 1)|0)", fk+" :: scans upward from 0 (lowest unreturned index)", w.ipos(ret), "ascending scan", "returns "+w.expr(ret.Results[0]))
			}
		}
		if f := c.fn("statesync", "chunkQueue.Next"); f != nil {
			n := 0
			for _, di := range w.deepInstrs(f, 2) {
				if mu, ok := di.in.(*ssa.MapUpdate); ok && w.exprWith(mu.Map, di.sub) == "q.chunkReturned" {
					n++
					k := w.exprWith(mu.Key, di.sub)
					c.Check(k == "q.nextUp()#0", funcKey(f)+" :: marks the index it returns", w.ipos(mu), "chunkReturned[nextUp] = true", "marks "+k)
				}
			}
			c.Check(n >= 1, funcKey(f)+" :: returned chunks are marked", w.pos(f.Pos()), "marking present", "returned chunks are not marked as returned")
		}
	})

	// ------------------------------------------------------------------ C14.R7
	register("C14", "R7", "K2", "the node bootstraps exactly the state and commit the syncer returned", 3, func(c *Ctx) {
		w := c.W
		n := 0
		for _, f := range w.FuncsInPkg("node") {
			for _, call := range w.callsTo(f, "state#Store.Bootstrap") {
				n++
				a := w.expr(callArgs(call)[0])
				c.Check(regexp.MustCompile(`\.Sync\(.*\)#0$`).MatchString(a), funcKey(f)+" :: bootstraps the synced state", w.ipos(call), a, "Bootstrap is given "+a)
				c.guards(f, call, funcKey(f)+" :: bootstrap", 0, guardRe("state sync succeeded", `^nil\(.*\.Sync\(.*\)#2\)$`))
			}
			for _, call := range w.callsTo(f, "store#BlockStore.SaveSeenCommit") {
				n++
				a := callArgs(call)
				c.Check(regexp.MustCompile(`\.Sync\(.*\)#1$`).MatchString(w.expr(a[1])) && regexp.MustCompile(`\.Sync\(.*\)#0\.LastBlockHeight$`).MatchString(w.expr(a[0])), funcKey(f)+" :: stores the synced commit as seen commit of the synced height", w.ipos(call), w.callStr(call), w.callStr(call))
			}
		}
		c.Check(n >= 2, "node state-sync bootstrap sites", "node/node.go", fmt.Sprintf("%d", n), "bootstrap sites not found")
	})
}
