package main

import (
	"fmt"
	"go/ast"
	"go/token"
	"go/types"
	"os"
	"sort"
	"strings"
	"sync"
	"time"

	"golang.org/x/tools/go/packages"
	"golang.org/x/tools/go/ssa"
	"golang.org/x/tools/go/ssa/ssautil"
)

const modPath = "github.com/tendermint/tendermint"

// World is the resolved program: type-checked packages of /repo and their SSA form.
type World struct {
	RepoDir   string
	neverBusy map[*ssa.Function]bool // recursion guard of the never-nil helper test (classifyResult)
	Fset      *token.FileSet
	Roots     []*packages.Package
	ByPath    map[string]*packages.Package
	Prog      *ssa.Program
	SSAPkg    map[string]*ssa.Package
	Funcs     []*ssa.Function // every in-scope source function (incl. anonymous), sorted
	BuildCfg  string
	LoadS     float64

	genv       *guardEnv
	funcSet    map[*ssa.Function]bool
	nameCache  sync.Map
	transCache sync.Map
	subst      map[ssa.Value]string
	callers    map[*ssa.Function][]ssa.CallInstruction
	fieldFns   map[*types.Var][]*ssa.Function
	fnOfInstr  map[ssa.Instruction]*ssa.Function
	fileOf     map[*ast.File]*packages.Package
}

// Scope table (DESIGN §2): packages that are judged.
func inScopePkg(path string) bool {
	if path != modPath && !strings.HasPrefix(path, modPath+"/") {
		return false
	}
	rel := strings.TrimPrefix(strings.TrimPrefix(path, modPath), "/")
	for _, ex := range []string{"test", "abci/example", "abci/tests", "docs", "scripts"} {
		if rel == ex || strings.HasPrefix(rel, ex+"/") {
			return false
		}
	}
	if strings.HasSuffix(rel, "/mocks") || strings.HasSuffix(rel, "/mock") || rel == "mocks" {
		return false
	}
	return true
}

type LoadOpts struct {
	Dir     string
	Tags    string
	Env     []string
	Overlay map[string][]byte
	// Patterns defaults to ./...
	Patterns []string
}

func Load(o LoadOpts) (*World, error) {
	t0 := time.Now()
	fset := token.NewFileSet()
	env := append(os.Environ(), "GOFLAGS=-mod=mod", "GOPROXY=off", "GOSUMDB=off", "GOTOOLCHAIN=local", "GOWORK=off")
	env = append(env, o.Env...)
	cfg := &packages.Config{
		Mode: packages.NeedName | packages.NeedFiles | packages.NeedCompiledGoFiles | packages.NeedImports |
			packages.NeedTypes | packages.NeedTypesSizes | packages.NeedSyntax | packages.NeedTypesInfo | packages.NeedDeps | packages.NeedModule,
		Dir:     o.Dir,
		Fset:    fset,
		Env:     env,
		Tests:   false,
		Overlay: o.Overlay,
	}
	if o.Tags != "" {
		cfg.BuildFlags = []string{"-tags=" + o.Tags}
	}
	pats := o.Patterns
	if len(pats) == 0 {
		pats = []string{"./..."}
	}
	roots, err := packages.Load(cfg, pats...)
	if err != nil {
		return nil, fmt.Errorf("packages.Load: %w", err)
	}
	w := &World{RepoDir: o.Dir, Fset: fset, Roots: roots, ByPath: map[string]*packages.Package{}, SSAPkg: map[string]*ssa.Package{}}
	w.BuildCfg = fmt.Sprintf("tags=%q env=%v", o.Tags, o.Env)
	var errs []string
	packages.Visit(roots, nil, func(p *packages.Package) {
		w.ByPath[p.PkgPath] = p
		if strings.HasPrefix(p.PkgPath, modPath) {
			for _, e := range p.Errors {
				errs = append(errs, e.Error())
			}
		}
	})
	if len(errs) > 0 {
		return nil, fmt.Errorf("package errors (fail closed): %s", strings.Join(errs, "; "))
	}
	if len(o.Patterns) == 0 && len(roots) < 160 {
		return nil, fmt.Errorf("only %d root packages loaded, expected >= 160 (fail closed)", len(roots))
	}
	prog, pkgs := ssautil.AllPackages(roots, ssa.InstantiateGenerics)
	_ = pkgs
	w.Prog = prog
	// Build only in-module packages (bodies of external packages are never analysed).
	for _, p := range prog.AllPackages() {
		if strings.HasPrefix(p.Pkg.Path(), modPath) {
			p.Build()
			w.SSAPkg[p.Pkg.Path()] = p
		}
	}
	w.collectFuncs()
	w.LoadS = time.Since(t0).Seconds()
	return w, nil
}

func (w *World) collectFuncs() {
	seen := map[*ssa.Function]bool{}
	var add func(f *ssa.Function)
	add = func(f *ssa.Function) {
		if f == nil || seen[f] {
			return
		}
		seen[f] = true
		if f.Blocks != nil {
			w.Funcs = append(w.Funcs, f)
		}
		for _, a := range f.AnonFuncs {
			add(a)
		}
	}
	for path, p := range w.SSAPkg {
		if !inScopePkg(path) {
			continue
		}
		for _, m := range p.Members {
			switch m := m.(type) {
			case *ssa.Function:
				add(m)
			case *ssa.Type:
				for _, t := range []types.Type{m.Type(), types.NewPointer(m.Type())} {
					ms := w.Prog.MethodSets.MethodSet(t)
					for i := 0; i < ms.Len(); i++ {
						fn := w.Prog.MethodValue(ms.At(i))
						if fn != nil && fn.Synthetic == "" && fn.Pkg == p {
							add(fn)
						}
					}
				}
			}
		}
	}
	// drop generated protobuf files and test helpers
	out := w.Funcs[:0]
	for _, f := range w.Funcs {
		file := w.Fset.Position(f.Pos()).Filename
		if strings.HasSuffix(file, ".pb.go") || strings.HasSuffix(file, "_test.go") {
			continue
		}
		out = append(out, f)
	}
	w.Funcs = out
	sort.Slice(w.Funcs, func(i, j int) bool { return funcKey(w.Funcs[i]) < funcKey(w.Funcs[j]) })
	w.funcSet = map[*ssa.Function]bool{}
	for _, f := range w.Funcs {
		w.funcSet[f] = true
	}
	worldOfProg.Store(w.Prog, w)
}

// funcKey is the stable construct name of a function: pkg.(Recv).Name[$n]
func funcKey(f *ssa.Function) string {
	if f == nil {
		return "<nil>"
	}
	s := f.RelString(nil)
	s = strings.ReplaceAll(s, modPath+"/", "")
	return s
}

func (w *World) pos(p token.Pos) string {
	if !p.IsValid() {
		return "-"
	}
	ps := w.Fset.Position(p)
	f := strings.TrimPrefix(ps.Filename, w.RepoDir+"/")
	return fmt.Sprintf("%s:%d", f, ps.Line)
}

// Pkg returns the SSA package for a module-relative path ("consensus", "types", ...).
func (w *World) Pkg(rel string) *ssa.Package {
	p := w.SSAPkg[modPath+"/"+rel]
	if p == nil && rel == "" {
		p = w.SSAPkg[modPath]
	}
	return p
}

// Fn looks a function or method up by module-relative package path and name:
// Fn("consensus", "State.finalizeCommit") or Fn("types", "NewVoteSet").
// Returns nil if absent; callers must treat nil as an unresolved anchor.
func (w *World) Fn(rel, name string) *ssa.Function {
	p := w.Pkg(rel)
	if p == nil {
		return nil
	}
	if i := strings.Index(name, "."); i >= 0 {
		tn, mn := name[:i], name[i+1:]
		obj := p.Pkg.Scope().Lookup(tn)
		if obj == nil {
			return nil
		}
		for _, t := range []types.Type{obj.Type(), types.NewPointer(obj.Type())} {
			ms := w.Prog.MethodSets.MethodSet(t)
			for i := 0; i < ms.Len(); i++ {
				if ms.At(i).Obj().Name() == mn {
					fn := w.Prog.MethodValue(ms.At(i))
					if fn != nil && fn.Synthetic != "" {
						// promoted through embedding: resolve to the declared method
						if decl, ok := ms.At(i).Obj().(*types.Func); ok {
							if d := w.Prog.FuncValue(decl); d != nil {
								return d
							}
						}
					}
					return fn
				}
			}
		}
		return nil
	}
	return p.Func(name)
}

// NamedType returns the named type pkg.Name (module-relative path).
func (w *World) NamedType(rel, name string) types.Type {
	p := w.Pkg(rel)
	if p == nil {
		return nil
	}
	obj := p.Pkg.Scope().Lookup(name)
	if obj == nil {
		return nil
	}
	return obj.Type()
}

// FuncsInPkg lists in-scope functions whose package is rel (including closures).
func (w *World) FuncsInPkg(rel string) []*ssa.Function {
	var out []*ssa.Function
	for _, f := range w.Funcs {
		if f.Pkg != nil && f.Pkg.Pkg.Path() == modPath+"/"+rel {
			out = append(out, f)
		}
	}
	return out
}

func relPkg(f *ssa.Function) string {
	if f == nil || f.Pkg == nil {
		if f != nil && f.Parent() != nil {
			return relPkg(f.Parent())
		}
		return ""
	}
	return strings.TrimPrefix(strings.TrimPrefix(f.Pkg.Pkg.Path(), modPath), "/")
}

// outermost returns the named (non-anonymous) function enclosing f.
func outermost(f *ssa.Function) *ssa.Function {
	for f.Parent() != nil {
		f = f.Parent()
	}
	return f
}

func (w *World) inFuncs(f *ssa.Function) bool { return w.funcSet[f] }
