package main

import (
	"fmt"
	"os"
	"regexp"
	"sort"
	"strings"

	"go/token"
	"go/types"
	"golang.org/x/tools/go/ssa"
)

// C03 — termination. No static argument here decides termination. What is decided is a set of
// structural necessary conditions: each of the five anchored mechanisms (round skip, re-proposal of
// the valid block, proposer rotation, growing timeouts, commit-step wait) and the unlock/valid-block
// transitions is present, and is *enabled* under the published algorithm's condition and nothing
// stronger. "Enabled under" is decided as: the set of branch conditions that are necessary to reach
// the action (removing all edges carrying the condition makes the action unreachable) contains no
// condition outside the table confirmed by reading. A strengthened condition (== for <=, < 0 for
// < round, an extra conjunct) makes the action unreachable in a state where the algorithm needs it:
// that is the shape of a liveness bug. Weakened conditions are safety matters (C01/C02), not C03,
// except where the guard itself is what keeps the node live (listed under `require`).

// canonAtom renders an atom with comparison operands in canonical order and the embedded
// RoundState selector elided.
func (w *World) canonAtom(a Atom) string {
	var s string
	if a.Kind == "cmp" {
		x, y := w.arith(a.X), w.arith(a.Y)
		op := a.Op
		// integers: `h > p+1` and `h >= p+2` are the same condition; the form with the smaller offset is
		// the canonical one
		if isIntegral(a.X) && isIntegral(a.Y) {
			abs := func(k int64) int64 {
				if k < 0 {
					return -k
				}
				return k
			}
			if base, k, ok := splitOffset(a.Y); ok { // x op e+k
				d, nop := int64(0), op
				switch op {
				case token.LSS: // x < e+k == x <= e+k-1
					d, nop = -1, token.LEQ
				case token.GTR: // x > e+k == x >= e+k+1
					d, nop = 1, token.GEQ
				case token.LEQ: // x <= e+k == x < e+k+1
					d, nop = 1, token.LSS
				case token.GEQ: // x >= e+k == x > e+k-1
					d, nop = -1, token.GTR
				}
				if d != 0 && abs(k+d) < abs(k) {
					y, op = w.renderOffset(base, k+d), nop
				}
			} else if base, k, ok := splitOffset(a.X); ok { // e+k op y
				d, nop := int64(0), op
				switch op {
				case token.LSS: // e+k < y == e+k+1 <= y
					d, nop = 1, token.LEQ
				case token.GTR: // e+k > y == e+k-1 >= y
					d, nop = -1, token.GEQ
				case token.LEQ: // e+k <= y == e+k-1 < y
					d, nop = -1, token.LSS
				case token.GEQ: // e+k >= y == e+k+1 > y
					d, nop = 1, token.GTR
				}
				if d != 0 && abs(k+d) < abs(k) {
					x, op = w.renderOffset(base, k+d), nop
				}
			}
		}
		if x > y {
			x, y = y, x
			op = flipOp(op)
		}
		s = x + " " + op.String() + " " + y
	} else {
		s = w.atomStr(a)
	}
	return strings.ReplaceAll(s, ".RoundState.", ".")
}

// necessaryAtoms: the canonical atoms a such that every path from the entry of f to target crosses
// an edge labelled a.
func (w *World) necessaryAtoms(f *ssa.Function, target ssa.Instruction) []string {
	if target.Parent() != f {
		// the instruction lives in a helper carved out of f: what is necessary to get there is what is
		// necessary inside the helper plus what is necessary for the call, at every level of the chain
		chain := siteChain(f, target)
		if chain == nil {
			return []string{"<unreachable from " + funcKey(f) + ">"}
		}
		set := map[string]bool{}
		for _, l := range chain {
			for _, a := range w.necessaryAtoms(l.fn, l.at) {
				set[a] = true
			}
		}
		var out []string
		for a := range set {
			out = append(out, a)
		}
		sort.Strings(out)
		return out
	}
	by := map[string]map[Edge]bool{}
	for _, ea := range condEdges(f) {
		s := w.canonAtom(ea.A)
		if by[s] == nil {
			by[s] = map[Edge]bool{}
		}
		by[s][ea.E] = true
	}
	var out []string
	for s, edges := range by {
		if r, _ := reachFromEntry(f, edges, nil, target); !r {
			out = append(out, s)
		}
	}
	sort.Strings(out)
	return out
}

type c03action struct {
	fn      string
	name    string
	find    func(w *World, f *ssa.Function) []ssa.Instruction
	allowed []string // every necessary condition must be one of these
	require []string // these must be necessary (the guard itself is what keeps the node live)
	min     int
}

func findStore(addr, val string) func(w *World, f *ssa.Function) []ssa.Instruction {
	return func(w *World, f *ssa.Function) []ssa.Instruction {
		var out []ssa.Instruction
		for _, b := range f.Blocks {
			for _, in := range b.Instrs {
				if st, ok := in.(*ssa.Store); ok {
					a := strings.ReplaceAll(w.expr(st.Addr), ".RoundState.", ".")
					v := strings.ReplaceAll(w.expr(st.Val), ".RoundState.", ".")
					if a == addr && regexp.MustCompile("^(?:"+val+")$").MatchString(v) {
						out = append(out, in)
					}
				}
			}
		}
		return out
	}
}

func findCall(re string) func(w *World, f *ssa.Function) []ssa.Instruction {
	rx := regexp.MustCompile(re)
	return func(w *World, f *ssa.Function) []ssa.Instruction {
		var out []ssa.Instruction
		for _, call := range callInstrs(f) {
			if rx.MatchString(strings.ReplaceAll(w.callStr(call), ".RoundState.", ".")) {
				out = append(out, call)
			}
		}
		return out
	}
}

// findCallOwn: as findCall, but only calls written in the function itself (not in helpers it calls).
func findCallOwn(re string) func(w *World, f *ssa.Function) []ssa.Instruction {
	inner := findCall(re)
	return func(w *World, f *ssa.Function) []ssa.Instruction {
		if w.subst != nil {
			return nil // we are inside a helper of the anchored function
		}
		return inner(w, f)
	}
}

func init() {
	const maj = `cs.Votes.Prevotes(vote.Round).TwoThirdsMajority()`
	const pmaj = `cs.Votes.Precommits(vote.Round).TwoThirdsMajority()`
	// conditions under which addVote processes a vote of the current height at all
	addVoteCtx := []string{
		"cs.Height == vote.Height",
		"true(cs.Votes.AddVote(vote, peerID)#0)",
		"nil(cs.eventBus.PublishEventVote(&complit))",
	}
	prevoteCtx := append([]string{"1 == vote.Type"}, addVoteCtx...)
	precommitCtx := append([]string{"2 == vote.Type", "1 != vote.Type"}, addVoteCtx...)
	polkaCtx := append([]string{"true(" + maj + "#1)"}, prevoteCtx...)
	// "this is not the round-skip case" (the first case of the switch did not match)
	const notSkip = "false(phi(cs.Votes.Prevotes(vote.Round).HasTwoThirdsAny()|false))"
	cat := func(a []string, b ...string) []string { return append(append([]string{}, a...), b...) }
	// the gossip routines run while reactor and peer do
	gossipCtx := []string{"true(conR.BaseReactor.BaseService.IsRunning())", "true(peer.IsRunning())"}

	actions := []c03action{
		// ---- unlock on a later polka (seeded: `vote.Round == cs.Round`)
		{fn: "State.addVote", name: "unlock on a polka for another block from a round in (LockedRound, Round]",
			find: findStore("cs.LockedBlock", "nil"),
			allowed: cat(polkaCtx, "nonnil(cs.LockedBlock)", "cs.LockedRound < vote.Round", "cs.Round >= vote.Round",
				"false(cs.LockedBlock.HashesTo("+maj+"#0.Hash))"), min: 1},
		// ---- valid block follows the polka of the current round
		{fn: "State.addVote", name: "valid block := proposal block on a polka of the current round",
			find: findStore("cs.ValidBlock", `cs\.ProposalBlock`),
			allowed: cat(polkaCtx, "0 != len("+maj+"#0.Hash)", "cs.ValidRound < vote.Round", "cs.Round == vote.Round",
				"true(cs.ProposalBlock.HashesTo("+maj+"#0.Hash))"), min: 1},
		{fn: "State.addVote", name: "start collecting the parts of the polka block we do not have",
			find: findStore("cs.ProposalBlockParts", `types\.NewPartSetFromHeader\(.*\)`),
			allowed: cat(polkaCtx, "0 != len("+maj+"#0.Hash)", "cs.ValidRound < vote.Round", "cs.Round == vote.Round",
				"false(cs.ProposalBlockParts.HasHeader("+maj+"#0.PartSetHeader))"), min: 1},
		// ---- round skip
		{fn: "State.addVote", name: "skip to a later round on +2/3 prevotes of any kind from it",
			find: findCall(`^cs\.enterNewRound\(cs\.Height, vote\.Round\)$`),
			allowed: cat(prevoteCtx, "cs.Round < vote.Round", "true(cs.Votes.Prevotes(vote.Round).HasTwoThirdsAny())",
				// the two precommit sites
				"2 == vote.Type", "1 != vote.Type", "true("+pmaj+"#1)", "false("+pmaj+"#1)", "cs.Round <= vote.Round", "true(cs.Votes.Precommits(vote.Round).HasTwoThirdsAny())"), min: 3},
		{fn: "State.addVote", name: "precommit on a polka of the current round (or +2/3 nil)",
			find:    findCall(`^cs\.enterPrecommit\(cs\.Height, vote\.Round\)$`),
			allowed: cat(polkaCtx, "cs.Round == vote.Round", "4 <= cs.Step", notSkip, "2 == vote.Type", "1 != vote.Type", "true("+pmaj+"#1)"), min: 2},
		{fn: "State.addVote", name: "wait for more prevotes once +2/3 of any kind arrived",
			find:    findCall(`^cs\.enterPrevoteWait\(cs\.Height, vote\.Round\)$`),
			allowed: cat(prevoteCtx, "cs.Round == vote.Round", "4 <= cs.Step", notSkip, "true(cs.Votes.Prevotes(vote.Round).HasTwoThirdsAny())"), min: 1},
		{fn: "State.addVote", name: "prevote once the proposal's POL round has its polka",
			find: findCall(`^cs\.enterPrevote\(cs\.Height, cs\.Round\)$`),
			allowed: cat(prevoteCtx, "nonnil(cs.Proposal)", "0 <= cs.Proposal.POLRound", "cs.Proposal.POLRound == vote.Round", "true(cs.isProposalComplete())",
				"false(phi((4 <= cs.Step)|false))", notSkip), min: 1},
		{fn: "State.addVote", name: "commit on +2/3 precommits for a block",
			find:    findCall(`^cs\.enterCommit\(cs\.Height, vote\.Round\)$`),
			allowed: cat(precommitCtx, "true("+pmaj+"#1)", "0 != len("+pmaj+"#0.Hash)"), min: 1},
		{fn: "State.addVote", name: "wait for more precommits",
			find:    findCall(`^cs\.enterPrecommitWait\(cs\.Height, vote\.Round\)$`),
			allowed: cat(precommitCtx, "true("+pmaj+"#1)", "0 == len("+pmaj+"#0.Hash)", "false("+pmaj+"#1)", "cs.Round <= vote.Round", "true(cs.Votes.Precommits(vote.Round).HasTwoThirdsAny())"), min: 2},
		// ---- complete proposal (seeded: `cs.ValidRound < 0`)
		{fn: "State.handleCompleteProposal", name: "valid block := proposal block when the block arrives after its polka",
			find: findStore("cs.ValidBlock", `cs\.ProposalBlock`),
			allowed: []string{"true(cs.Votes.Prevotes(cs.Round).TwoThirdsMajority()#1)", "false(cs.Votes.Prevotes(cs.Round).TwoThirdsMajority()#0.IsZero())", "cs.Round > cs.ValidRound",
				"true(cs.ProposalBlock.HashesTo(cs.Votes.Prevotes(cs.Round).TwoThirdsMajority()#0.Hash))"}, min: 1},
		{fn: "State.handleCompleteProposal", name: "prevote as soon as the proposal is complete",
			find:    findCall(`^cs\.enterPrevote\(blockHeight, cs\.Round\)$`),
			allowed: []string{"3 >= cs.Step", "true(cs.isProposalComplete())"}, min: 1},
		{fn: "State.handleCompleteProposal", name: "finalize once the decided block is complete (commit step waits for the block)",
			find:    findCall(`^cs\.tryFinalizeCommit\(blockHeight\)$`),
			allowed: []string{"8 == cs.Step"}, min: 1},
		// ---- proposal reception (seeded: part set clobbered)
		{fn: "State.defaultSetProposal", name: "a proposal starts a part set only when none is being collected",
			find:    findStore("cs.ProposalBlockParts", `types\.NewPartSetFromHeader\(proposal\.BlockID\.PartSetHeader\)`),
			allowed: nil, require: []string{"nil(cs.ProposalBlockParts)"}, min: 1},
		// ---- vote gossip serves a peer at every lag (seeded: a peer exactly two heights behind is served by no branch)
		{fn: "Reactor.gossipVotesRoutine", name: "votes are gossiped to a peer at the same height",
			find:    findCall(`^conR\.gossipVotesForHeight\(`),
			allowed: cat(gossipCtx, "conR.getRoundState().Height == ps.GetRoundState().Height"), min: 1},
		{fn: "Reactor.gossipVotesRoutine", name: "the last commit is sent to a peer one height behind",
			find:    findCallOwn(`^ps\.PickSendVote\(conR\.getRoundState\(\)\.LastCommit\)$`),
			allowed: cat(gossipCtx, "(ps.GetRoundState().Height + 1) == conR.getRoundState().Height", "0 != ps.GetRoundState().Height"), min: 1},
		{fn: "Reactor.gossipVotesRoutine", name: "the stored commit is looked up for a peer two or more heights behind (and within the store)",
			find: findCallOwn(`^conR\.conS\.blockStore\.LoadBlockCommit\(ps\.GetRoundState\(\)\.Height\)$`),
			allowed: cat(gossipCtx, "(ps.GetRoundState().Height + 1) < conR.getRoundState().Height", "0 != ps.GetRoundState().Height",
				"0 < conR.conS.blockStore.Base()", "conR.conS.blockStore.Base() <= ps.GetRoundState().Height"), min: 1},
		{fn: "Reactor.gossipVotesRoutine", name: "the stored commit is sent to a peer two or more heights behind",
			find: findCallOwn(`^ps\.PickSendVote\(conR\.conS\.blockStore\.LoadBlockCommit\(ps\.GetRoundState\(\)\.Height\)\)$`),
			allowed: cat(gossipCtx, "(ps.GetRoundState().Height + 1) < conR.getRoundState().Height", "0 != ps.GetRoundState().Height",
				"0 < conR.conS.blockStore.Base()", "conR.conS.blockStore.Base() <= ps.GetRoundState().Height",
				"nonnil(conR.conS.blockStore.LoadBlockCommit(ps.GetRoundState().Height))"), min: 1},
	}

	// ------------------------------------------------------------------ C03.R1
	register("C03", "R1", "K11", "transition enabling conditions: each liveness-critical transition of the vote/proposal handlers is reachable under the algorithm's condition and nothing stronger", 20, func(c *Ctx) {
		w := c.W
		dump := os.Getenv("TMVERIF_C03_DUMP") != ""
		for _, a := range actions {
			f := c.fn("consensus", a.fn)
			if f == nil {
				continue
			}
			fk := funcKey(f)
			// the transition may sit in f itself or in a same-package helper f calls (extract-helper is transparent):
			// its necessary conditions are those of the call site in f plus those inside the helper, in f's terms
			type site struct {
				at  ssa.Instruction
				nec []string
			}
			var ts []site
			var walk func(g *ssa.Function, outer []string, sub map[ssa.Value]string, d int, seen map[*ssa.Function]bool)
			walk = func(g *ssa.Function, outer []string, sub map[ssa.Value]string, d int, seen map[*ssa.Function]bool) {
				saved := w.subst
				w.subst = sub
				found := a.find(w, g)
				var necs [][]string
				for _, t := range found {
					necs = append(necs, w.necessaryAtoms(g, t))
				}
				w.subst = saved
				for i, t := range found {
					ts = append(ts, site{t, append(append([]string{}, outer...), necs[i]...)})
				}
				if d <= 0 {
					return
				}
				for _, call := range callInstrs(g) {
					if _, isCall := call.(*ssa.Call); !isCall {
						continue
					}
					h := staticCallee(call)
					if h == nil || h.Blocks == nil || seen[h] || pkgPathOf(h) != pkgPathOf(f) || len(call.Common().Args) != len(h.Params) {
						continue
					}
					// only helpers that are not transitions of their own (the enter* functions are separate anchors)
					if strings.HasPrefix(h.Name(), "enter") || strings.HasPrefix(h.Name(), "handle") || strings.HasPrefix(h.Name(), "try") || strings.HasPrefix(h.Name(), "finalize") || strings.HasPrefix(h.Name(), "update") || strings.HasPrefix(h.Name(), "sign") {
						continue
					}
					w.subst = sub
					nsub := map[ssa.Value]string{}
					for i, p := range h.Params {
						nsub[p] = w.expr(call.Common().Args[i])
					}
					cn := w.necessaryAtoms(g, call)
					w.subst = saved
					seen[h] = true
					walk(h, append(append([]string{}, outer...), cn...), nsub, d-1, seen)
					delete(seen, h)
				}
			}
			walk(f, nil, nil, 1, map[*ssa.Function]bool{f: true})
			c.Check(len(ts) >= a.min, fk+" :: "+a.name+" :: present", w.pos(f.Pos()), fmt.Sprintf("%d sites", len(ts)), fmt.Sprintf("transition not found (%d sites, expected at least %d): the node can no longer make this step", len(ts), a.min))
			allowed := map[string]bool{}
			for _, s := range a.allowed {
				allowed[s] = true
			}
			for _, tsite := range ts {
				t := tsite.at
				nec := uniq(tsite.nec)
				if dump {
					fmt.Printf("C03DUMP %s :: %s @%s\n", fk, a.name, w.ipos(t))
					for _, s := range nec {
						fmt.Printf("    %q\n", s)
					}
				}
				if a.allowed != nil {
					var extra []string
					for _, s := range nec {
						// (an event that could not be published aborts the handler in every form of the code: that
						// the publication succeeded is not a condition on the protocol state)
						if !allowed[s] && !regexp.MustCompile(`^nil\(\w+\.eventBus\.Publish\w+\(.*\)\)$`).MatchString(s) {
							extra = append(extra, s)
						}
					}
					c.Check(len(extra) == 0, fk+" :: "+a.name+" :: enabled whenever the algorithm's condition holds", w.ipos(t), fmt.Sprintf("%d necessary conditions, all in the table", len(nec)), "the transition additionally requires ["+strings.Join(extra, " ; ")+"]: in a state where the algorithm takes this step and that does not hold, the node stays put")
				}
				has := map[string]bool{}
				for _, s := range nec {
					has[s] = true
				}
				for _, r := range a.require {
					c.Check(has[r], fk+" :: "+a.name+" <= "+r, w.ipos(t), "guard present", "the step is taken without ["+r+"]: state another transition relies on is overwritten")
				}
			}
		}
	})

	// ------------------------------------------------------------------ C03.R2
	register("C03", "R2", "K5", "timeouts grow with the round: Propose/Prevote/Precommit(round) = base + delta*round, and each wait is scheduled with the round being waited in", 9, func(c *Ctx) {
		w := c.W
		for _, n := range []string{"Propose", "Prevote", "Precommit"} {
			f := c.fn("config", "ConsensusConfig."+n)
			if f == nil {
				continue
			}
			fk := funcKey(f)
			vals := returnValues(f, 0)
			c.Check(len(vals) == 1, fk+" :: single result", w.pos(f.Pos()), "1", fmt.Sprintf("%d return values", len(vals)))
			for _, v := range vals {
				s := w.arith(v)
				// (base + (delta * round)) * 1ns in any operand order
				ok := growsWithRound(v, "Timeout"+n, "Timeout"+n+"Delta")
				c.Check(ok, fk+" = Timeout"+n+" + Timeout"+n+"Delta*round", w.pos(f.Pos()), s, "timeout is "+s+": it does not grow linearly with the round from the configured base, so rounds never become long enough for a slow network")
			}
		}
		sched := []struct{ fn, cfg, step string }{
			{"State.enterPropose", "Propose", "RoundStepPropose"},
			{"State.enterPrevoteWait", "Prevote", "RoundStepPrevoteWait"},
			{"State.enterPrecommitWait", "Precommit", "RoundStepPrecommitWait"},
		}
		for _, s := range sched {
			f := c.fn("consensus", s.fn)
			if f == nil {
				continue
			}
			fk := funcKey(f)
			step := c.mustConst("consensus/types", s.step)
			calls := w.callsTo(f, "consensus#State.scheduleTimeout")
			c.Check(len(calls) == 1, fk+" schedules its timeout", w.pos(f.Pos()), "1 scheduleTimeout", fmt.Sprintf("%d scheduleTimeout calls", len(calls)))
			for _, call := range calls {
				want := fmt.Sprintf("cs.scheduleTimeout(cs.config.%s(round), height, round, %d)", s.cfg, step)
				c.Check(w.callStr(call) == want, fk+" :: timeout for this round and step", w.ipos(call), want, "scheduled as "+w.callStr(call))
				// scheduled on every path that enters the step (after the stale-call early return)
				for _, st := range w.fieldStoresIn(f, "consensus/types", "RoundState", "Step") {
					_ = st
				}
			}
		}
		// the timeout handler moves on for every step that waits
		if f := c.fn("consensus", "State.handleTimeout"); f != nil {
			fk := funcKey(f)
			type tr struct {
				step string
				next []string
			}
			for _, t := range []tr{
				{"RoundStepNewHeight", []string{`^cs\.enterNewRound\(ti\.Height, 0\)$`}},
				{"RoundStepNewRound", []string{`^cs\.enterPropose\(ti\.Height, 0\)$`}},
				{"RoundStepPropose", []string{`^cs\.enterPrevote\(ti\.Height, ti\.Round\)$`}},
				{"RoundStepPrevoteWait", []string{`^cs\.enterPrecommit\(ti\.Height, ti\.Round\)$`}},
				{"RoundStepPrecommitWait", []string{`^cs\.enterPrecommit\(ti\.Height, ti\.Round\)$`, `^cs\.enterNewRound\(ti\.Height, \(ti\.Round \+ 1\)\)$`}},
			} {
				step := c.mustConst("consensus/types", t.step)
				want := fmt.Sprintf("%d == ti.Step", step)
				var edge *Edge
				for _, ea := range condEdges(f) {
					if w.canonAtom(ea.A) == want {
						e := ea.E
						edge = &e
					}
				}
				if edge == nil {
					c.Fail(fk+" :: handles timeout of "+t.step, w.pos(f.Pos()), "no case for step "+t.step+": a node waiting in that step never moves on")
					continue
				}
				blk := edge.From.Succs[edge.Succ]
				for _, re := range t.next {
					rx := regexp.MustCompile(re)
					pred := func(in ssa.Instruction) bool {
						call, ok := in.(ssa.CallInstruction)
						return ok && rx.MatchString(w.callStr(call))
					}
					q := &pathQ{kill: pred, target: isReturn}
					in, path := q.reach(blk, 0)
					c.Check(in == nil, fk+" :: "+t.step+" timeout ⇒ "+strings.Trim(re, `^$`), w.ipos(blk.Instrs[0]), "called on every path", "after the "+t.step+" timeout the handler can return without the transition: "+pathStr(w, path))
				}
			}
			// stale-timeout filter is exactly "older height/round/step"
			conds := w.condAtomsDeep(f)
			for _, need := range []string{"rs.Height != ti.Height", "rs.Round > ti.Round", "rs.Round == ti.Round", "rs.Step > ti.Step"} {
				c.Check(conds[need], fk+" :: stale filter has "+need, w.pos(f.Pos()), "present", "the filter that discards timeouts no longer compares "+need)
			}
		}
	})

	// ------------------------------------------------------------------ C03.R3
	register("C03", "R3", "K1+K5", "proposer rotation: entering a later round advances proposer priority by exactly the number of rounds skipped; the proposer test reads that set", 7, func(c *Ctx) {
		w := c.W
		f := c.fn("consensus", "State.enterNewRound")
		if f == nil {
			return
		}
		fk := funcKey(f)
		// the rotation: IncrementProposerPriority on a copy, spelled out or through the library's
		// CopyIncrementProposerPriority (whose body is then held to the same shape)
		calls := w.callsTo(f, "types#ValidatorSet.IncrementProposerPriority")
		want := "cs.Validators.Copy().IncrementProposerPriority(libs/math.SafeSubInt32(round, cs.Round))"
		rotated := "cs.RoundState.Validators.Copy()"
		if len(calls) == 0 {
			if calls = w.callsTo(f, "types#ValidatorSet.CopyIncrementProposerPriority"); len(calls) == 1 {
				want = "cs.Validators.CopyIncrementProposerPriority(libs/math.SafeSubInt32(round, cs.Round))"
				rotated = "cs.RoundState.Validators.CopyIncrementProposerPriority("
				if g := c.fn("types", "ValidatorSet.CopyIncrementProposerPriority"); g != nil {
					gk := funcKey(g)
					in := w.callsTo(g, "types#ValidatorSet.IncrementProposerPriority")
					okc := len(in) == 1 && w.callStr(in[0]) == "vals.Copy().IncrementProposerPriority(times)"
					c.Check(okc, gk+" :: advances a copy by `times`", w.pos(g.Pos()), "vals.Copy().IncrementProposerPriority(times)", "the copying rotation is not Copy() followed by IncrementProposerPriority(times)")
					rv := returnValues(g, 0)
					c.Check(len(rv) == 1 && w.expr(rv[0]) == "vals.Copy()", gk+" :: returns the rotated copy", w.pos(g.Pos()), "vals.Copy()", "returns something else")
					if len(in) == 1 {
						okr := true
						for _, b := range g.Blocks {
							if r, isR := b.Instrs[len(b.Instrs)-1].(*ssa.Return); isR {
								if p, _ := mustPrecede(g, r, w.callPred("types#ValidatorSet.IncrementProposerPriority")); !p {
									okr = false
								}
							}
						}
						c.Check(okr, gk+" :: rotates before returning", w.pos(g.Pos()), "rotation precedes every return", "a return without the rotation")
					}
				}
			}
		}
		c.Check(len(calls) == 1, fk+" rotates the proposer", w.pos(f.Pos()), "IncrementProposerPriority", fmt.Sprintf("%d calls", len(calls)))
		for _, call := range calls {
			s := strings.ReplaceAll(w.callStr(call), ".RoundState.", ".")
			c.Check(s == want, fk+" :: advance by round - cs.Round on a copy", w.ipos(call), s, "rotation is "+s)
			nec := w.necessaryAtoms(f, call)
			for _, n := range nec {
				ok := n == "cs.Round < round" || n == "cs.Height == height" || strings.Contains(n, "cs.Step") || n == "cs.Round <= round"
				c.Check(ok, fk+" :: rotation happens whenever the round advances", w.ipos(call), n, "rotation additionally requires "+n)
			}
		}
		n := 0
		for _, fs := range w.fieldStoresIn(f, "consensus/types", "RoundState", "Validators") {
			n++
			v := w.expr(fs.Store.Val)
			c.Check(strings.Contains(v, rotated) && strings.HasPrefix(v, "phi("), fk+" :: the rotated copy becomes the round's validator set", w.ipos(fs.Store), v, "Validators = "+v)
		}
		c.Check(n == 1, fk+" :: stores the round's validator set", w.pos(f.Pos()), "1", fmt.Sprintf("%d stores", n))
		// round and step are advanced
		c.Check(len(w.callsMatching(f, `^cs\.updateRoundStep\(round, 2\)$`)) == 1, fk+" :: moves to (round, NewRound)", w.pos(f.Pos()), "updateRoundStep(round, NewRound)", "round/step not advanced")
		// IncrementProposerPriority: `times` single steps, the last one's proposer is stored
		if g := c.fn("types", "ValidatorSet.IncrementProposerPriority"); g != nil {
			gk := funcKey(g)
			// the single step is recognised by its selection of the validator with the most priority — in the
			// step helper or, when that was inlined, in the loop itself
			var inc []ssa.CallInstruction
			for _, dc := range w.deepCallsTo(g, 3, "types#ValidatorSet.getValWithMostPriority") {
				inc = append(inc, dc.site)
			}
			c.Check(len(inc) == 1 && loopOf(inc[0]) != nil, gk+" :: one priority step per round", w.pos(g.Pos()), "loop", "no loop of single steps")
			if len(inc) == 1 && loopOf(inc[0]) != nil {
				trips, okT := unitLoopTrips(w, inc[0])
				c.Check(okT && trips == "times", gk+" :: steps exactly `times` times", w.ipos(inc[0]), "`times` iterations", "the step runs "+trips+" times")
			}
			ok := false
			for _, fs := range w.fieldStoresIn(g, "types", "ValidatorSet", "Proposer") {
				if v := w.expr(fs.Store.Val); strings.Contains(v, "incrementProposerPriority()") || strings.Contains(v, "getValWithMostPriority()") {
					ok = true
				}
			}
			c.Check(ok, gk+" :: the last step's winner becomes Proposer", w.pos(g.Pos()), "stored", "Proposer is not updated from the priority steps")
		}
		// isProposer reads the round's validator set
		if g := c.fn("consensus", "State.isProposer"); g != nil {
			vals := returnValues(g, 0)
			ok := len(vals) == 1 && strings.ReplaceAll(w.expr(vals[0]), ".RoundState.", ".") == "bytes.Equal(cs.Validators.GetProposer().Address, address)"
			c.Check(ok, funcKey(g)+" compares with the round's proposer", w.pos(g.Pos()), "cs.Validators.GetProposer().Address", "isProposer changed")
		}
	})

	// ------------------------------------------------------------------ C03.R4
	register("C03", "R4", "K1+K5", "re-proposal: the proposer proposes its valid block (with its valid round as POL round) when it has one, and a fresh block only otherwise", 5, func(c *Ctx) {
		w := c.W
		f := c.fn("consensus", "State.defaultDecideProposal")
		if f == nil {
			return
		}
		fk := funcKey(f)
		np := w.callsTo(f, "types#NewProposal")
		c.Check(len(np) == 1, fk+" builds one proposal", w.pos(f.Pos()), "1", fmt.Sprintf("%d", len(np)))
		for _, call := range np {
			args := callArgs(call)
			c.Check(len(args) == 4 && strings.ReplaceAll(w.expr(args[2]), ".RoundState.", ".") == "cs.ValidRound", fk+" :: POL round of the proposal is the valid round", w.ipos(call), "NewProposal(height, round, cs.ValidRound, id)", "POL round is "+w.expr(args[2]))
			c.Check(len(args) == 4 && w.expr(args[0]) == "height" && w.expr(args[1]) == "round", fk+" :: proposal is for this height and round", w.ipos(call), "height, round", w.callStr(call))
		}
		for _, call := range w.callsTo(f, "consensus#State.createProposalBlock") {
			nec := w.necessaryAtoms(f, call)
			has := false
			for _, s := range nec {
				if s == "nil(cs.ValidBlock)" {
					has = true
				}
			}
			c.Check(has, fk+" :: a fresh block is built only when there is no valid block", w.ipos(call), "nil(cs.ValidBlock)", "a fresh block can be proposed although a valid block exists: the locked nodes will not prevote it")
		}
		// the block proposed is phi(valid block | fresh block), and all of its parts are sent
		okHash := false
		for _, t := range findStore("&propBlockID.Hash", `phi\(cs\.ValidBlock\|cs\.createProposalBlock\(\)#0\)\.Hash\(\)`)(w, f) {
			okHash = true
			_ = t
		}
		c.Check(okHash, fk+" :: the proposed block id is the valid block's when there is one", w.pos(f.Pos()), "phi(ValidBlock | fresh).Hash()", "the proposal's block id is not derived from the valid block")
		sends := w.callsTo(f, "consensus#State.sendInternalMessage")
		c.Check(len(sends) == 2, fk+" :: proposal and its parts are sent to ourselves", w.pos(f.Pos()), "2 sends", fmt.Sprintf("%d sends", len(sends)))
		for _, call := range sends {
			if h := loopOf(call); h != nil {
				nec := w.necessaryAtoms(f, call)
				found := false
				for _, s := range nec {
					if regexp.MustCompile(`^phi\(.*\) < phi\(cs\.ValidBlockParts\|cs\.createProposalBlock\(\)#1\)\.Total\(\)$`).MatchString(s) {
						found = true
					}
				}
				c.Check(found, fk+" :: every part of the proposed block is sent", w.ipos(call), "i < parts.Total()", "part loop bound changed: "+strings.Join(nec, " ; "))
			}
		}
		// enterPropose: the proposer decides a proposal
		if g := c.fn("consensus", "State.enterPropose"); g != nil {
			ds := w.callsMatching(g, `^dyn:cs\.decideProposal\(height, round\)$`)
			c.Check(len(ds) == 1, funcKey(g)+" :: the proposer proposes", w.pos(g.Pos()), "decideProposal(height, round)", "decideProposal is not called")
			for _, call := range ds {
				nec := w.necessaryAtoms(g, call)
				for _, s := range nec {
					ok := strings.Contains(s, "isProposer(") || strings.Contains(s, "cs.privValidator") || strings.Contains(s, "cs.Height") || strings.Contains(s, "cs.Round") || strings.Contains(s, "cs.Step") || strings.Contains(s, "privValidatorPubKey") || strings.Contains(s, "HasAddress")
					c.Check(ok, funcKey(g)+" :: proposing requires only being the proposer", w.ipos(call), s, "proposing additionally requires "+s)
				}
			}
		}
	})

	// ------------------------------------------------------------------ C03.R5
	register("C03", "R5", "K2", "commit step: entering commit keeps the round, records the commit round, starts collecting the decided block when it is not the one at hand, and always tries to finalize", 6, func(c *Ctx) {
		w := c.W
		f := c.fn("consensus", "State.enterCommit")
		if f == nil {
			return
		}
		fk := funcKey(f)
		n := 0
		for _, fs := range w.fieldStores("consensus/types", "RoundState", "CommitRound") {
			if fs.Fn == f || fs.Fn.Parent() == f {
				n++
				c.Check(w.expr(fs.Store.Val) == "commitRound", fk+" :: CommitRound = commitRound", w.ipos(fs.Store), "commitRound", "CommitRound = "+w.expr(fs.Store.Val))
			}
		}
		c.Check(n == 1, fk+" records the commit round", w.pos(f.Pos()), "1 store", fmt.Sprintf("%d stores", n))
		// updateRoundStep(cs.Round, Commit) and tryFinalizeCommit(height) run on exit (deferred closure)
		all := []*ssa.Function{f}
		all = append(all, f.AnonFuncs...)
		step, fin := 0, 0
		for _, g := range all {
			for _, call := range callInstrs(g) {
				s := strings.ReplaceAll(w.callStr(call), ".RoundState.", ".")
				if s == "cs.updateRoundStep(cs.Round, 8)" {
					step++
				}
				if s == "cs.tryFinalizeCommit(height)" {
					fin++
				}
			}
		}
		c.Check(step == 1, fk+" :: step becomes Commit in the current round (round is kept)", w.pos(f.Pos()), "updateRoundStep(cs.Round, Commit)", "the round is changed or the step is not set when committing")
		c.Check(fin == 1, fk+" :: always tries to finalize", w.pos(f.Pos()), "tryFinalizeCommit(height)", "enterCommit no longer tries to finalize")
		// decided block not at hand ⇒ start collecting its parts
		ts := findStore("cs.ProposalBlockParts", `types\.NewPartSetFromHeader\(.*TwoThirdsMajority\(\)#0\.PartSetHeader\)`)(w, f)
		c.Check(len(ts) == 1, fk+" :: starts collecting the decided block's parts", w.pos(f.Pos()), "1 site", fmt.Sprintf("%d sites", len(ts)))
		for _, t := range ts {
			nec := w.necessaryAtoms(f, t)
			for _, s := range nec {
				ok := strings.HasPrefix(s, "false(cs.ProposalBlock.HashesTo(") || strings.HasPrefix(s, "false(cs.ProposalBlockParts.HasHeader(") || strings.Contains(s, "cs.Height") || strings.Contains(s, "cs.Step") || strings.HasPrefix(s, "true(cs.Votes.Precommits(commitRound).TwoThirdsMajority()#1)")
				c.Check(ok, fk+" :: collecting the decided block requires only not having it", w.ipos(t), s, "collecting the decided block additionally requires "+s)
			}
		}
		// tryFinalizeCommit finalizes when the block at hand is the decided one
		if g := c.fn("consensus", "State.tryFinalizeCommit"); g != nil {
			for _, call := range w.callsTo(g, "consensus#State.finalizeCommit") {
				nec := w.necessaryAtoms(g, call)
				for _, s := range nec {
					ok := strings.Contains(s, "TwoThirdsMajority()#1") || strings.Contains(s, "len(") || strings.HasPrefix(s, "true(cs.ProposalBlock.HashesTo(") || strings.Contains(s, "cs.Height")
					c.Check(ok, funcKey(g)+" :: finalizing requires only the decision and its block", w.ipos(call), s, "finalizing additionally requires "+s)
				}
			}
		}
	})
	_ = token.ADD
}

func returnsOf(f *ssa.Function) []ssa.Instruction {
	var out []ssa.Instruction
	for _, b := range f.Blocks {
		if len(b.Instrs) > 0 {
			if r, ok := b.Instrs[len(b.Instrs)-1].(*ssa.Return); ok {
				out = append(out, r)
			}
		}
	}
	return out
}

// loopOf returns the header of the innermost loop containing the instruction, if any.
func loopOf(in ssa.Instruction) *ssa.BasicBlock {
	b := in.Block()
	var best *ssa.BasicBlock
	bestN := 1 << 30
	for _, h := range b.Parent().Blocks {
		isHdr := false
		for _, p := range h.Preds {
			if h.Dominates(p) {
				isHdr = true
			}
		}
		if !isHdr {
			continue
		}
		if lb := loopBlocks(h); lb[b] && len(lb) < bestN {
			best, bestN = h, len(lb)
		}
	}
	return best
}

// growsWithRound: v is (base.Nanoseconds() + delta.Nanoseconds()*int64(round)) * const, in any order.
func growsWithRound(v ssa.Value, base, delta string) bool {
	v = stripConv(v)
	if b, ok := v.(*ssa.BinOp); ok && b.Op == token.MUL {
		if _, c := stripConv(b.Y).(*ssa.Const); c {
			return growsWithRound(b.X, base, delta)
		}
		if _, c := stripConv(b.X).(*ssa.Const); c {
			return growsWithRound(b.Y, base, delta)
		}
	}
	add, ok := v.(*ssa.BinOp)
	if !ok || add.Op != token.ADD {
		return false
	}
	isBase := func(x ssa.Value) bool {
		c := valueCall(x)
		return c != nil && strings.HasSuffix(calleeName(c), "Duration.Nanoseconds") && strings.HasSuffix(fieldOfRecv(c), "."+base)
	}
	isDelta := func(x ssa.Value) bool {
		m, ok := stripConv(x).(*ssa.BinOp)
		if !ok || m.Op != token.MUL {
			return false
		}
		one := func(d, r ssa.Value) bool {
			c := valueCall(d)
			if c == nil || !strings.HasSuffix(calleeName(c), "Duration.Nanoseconds") || !strings.HasSuffix(fieldOfRecv(c), "."+delta) {
				return false
			}
			p, ok := stripConv(r).(*ssa.Parameter)
			return ok && canonParamName(p) == "round"
		}
		return one(m.X, m.Y) || one(m.Y, m.X)
	}
	return (isBase(add.X) && isDelta(add.Y)) || (isBase(add.Y) && isDelta(add.X))
}

// fieldOfRecv renders the receiver of a method call (e.g. "cfg.TimeoutPropose").
func fieldOfRecv(c ssa.CallInstruction) string {
	r := callRecv(c)
	if r == nil {
		return ""
	}
	return exprD(r, 0, &ectx{m: map[ssa.Value]bool{}})
}

// ------------------------------------------------------------------ C03.R7
// The timeout ticker keeps one pending timeout. A new tick replaces it exactly when it is for a later
// (height, round, step) — or when nothing is pending — and is dropped otherwise. Both directions matter for
// termination: if an earlier step's tick may replace a later step's pending timeout (e.g. a prevote-wait
// tick cancelling the precommit-wait timeout, which is scheduled only once per round), that timeout never
// fires and the node never leaves the round; if a later tick may be dropped, its timeout never fires either.
// The two struct values compared are loop-carried locals, so they are told apart structurally (the value
// received from the tick channel vs the variable it is copied into), not by name.
func init() {
	register("C03", "R7", "K11+K1", "timeout ticker: the pending timeout is replaced only by a tick for a later (height, round, step), and a tick is dropped only if it is not later", 7, func(c *Ctx) {
		w := c.W
		f := c.fn("consensus", "timeoutTicker.timeoutRoutine")
		if f == nil {
			return
		}
		fk := funcKey(f)
		// the received tick: extract #2 of the select (possibly spilled into its own alloc); the pending one: the
		// alloc that is assigned from it
		var newAlloc, oldAlloc *ssa.Alloc
		var newVal ssa.Value
		for _, b := range f.Blocks {
			for _, in := range b.Instrs {
				st, ok := in.(*ssa.Store)
				if !ok {
					continue
				}
				a, isA := st.Addr.(*ssa.Alloc)
				if !isA {
					continue
				}
				if ex, isEx := st.Val.(*ssa.Extract); isEx {
					if _, isSel := ex.Tuple.(*ssa.Select); isSel {
						newAlloc, newVal = a, ex
					}
				}
			}
		}
		for _, b := range f.Blocks {
			for _, in := range b.Instrs {
				st, ok := in.(*ssa.Store)
				if !ok {
					continue
				}
				a, isA := st.Addr.(*ssa.Alloc)
				if !isA || a == newAlloc {
					continue
				}
				if ld, isLd := st.Val.(*ssa.UnOp); isLd && ld.Op == token.MUL && newAlloc != nil && ld.X == ssa.Value(newAlloc) {
					oldAlloc = a
				} else if newVal != nil && st.Val == newVal {
					oldAlloc = a
				}
			}
		}
		if oldAlloc == nil && newAlloc != nil {
			// the received value is not kept in a slot of its own: the only slot it is stored into is the
			// pending timeout (`ti = <-tickChan's value`)
			oldAlloc, newAlloc = newAlloc, nil
		}
		if !c.Check((newAlloc != nil || newVal != nil) && oldAlloc != nil, fk+" :: received tick and pending timeout identified", w.pos(f.Pos()), "tick := <-tickChan; pending = tick", "the shape of the routine changed: re-confirm by reading") {
			return
		}
		// decide the filter exhaustively over the orderings of (height, round, step) of the two ticks and
		// of the pending step against zero (absint_order.go): the code only compares these fields
		sideOfBase := func(base ssa.Value, fr *ordFrame) (string, bool) {
			switch x := base.(type) {
			case *ssa.Alloc:
				if newAlloc != nil && x == newAlloc {
					return "new", true
				}
				if x == oldAlloc {
					return "old", true
				}
				// a by-value record parameter spilled to a slot
				var src ssa.Value
				nst := 0
				for _, r := range *x.Referrers() {
					if st, ok := r.(*ssa.Store); ok && st.Addr == ssa.Value(x) {
						src, nst = st.Val, nst+1
					}
				}
				if p, ok := src.(*ssa.Parameter); ok && nst == 1 {
					side, ok := fr.params[p]
					return side, ok
				}
			case *ssa.Parameter:
				side, ok := fr.params[x]
				return side, ok
			}
			return "", false
		}
		var classOf func(v ssa.Value, fr *ordFrame) (string, string, bool)
		classOf = func(v ssa.Value, fr *ordFrame) (string, string, bool) {
			v = stripConv(v)
			switch x := v.(type) {
			case *ssa.UnOp:
				if x.Op != token.MUL {
					return "", "", false
				}
				if fa, ok := x.X.(*ssa.FieldAddr); ok {
					side, ok := sideOfBase(fa.X, fr)
					return side, fieldName(fa.X.Type(), fa.Field), ok
				}
				side, ok := sideOfBase(x.X, fr) // the whole record
				return side, "", ok
			case *ssa.Field:
				side, _, ok := classOf(x.X, fr)
				return side, fieldName(x.X.Type(), x.Field), ok
			case *ssa.Extract:
				if newVal != nil && v == newVal {
					return "new", "", true
				}
			case *ssa.Parameter:
				side, ok := fr.params[x]
				return side, "", ok
			}
			return "", "", false
		}
		// the tick case starts where the received value is bound
		var start *ssa.BasicBlock
		for _, b := range f.Blocks {
			for _, in := range b.Instrs {
				if st, ok := in.(*ssa.Store); ok && newAlloc != nil && st.Addr == ssa.Value(newAlloc) {
					start = b
				}
			}
		}
		if start == nil && newVal != nil {
			for _, r := range *newVal.Referrers() {
				if start == nil || r.Block().Index < start.Index {
					start = r.Block()
				}
			}
		}
		if !c.Check(start != nil, fk+" :: tick case found", w.pos(f.Pos()), "block binding the received tick", "not found") {
			return
		}
		stop := func(in ssa.Instruction, blk *ssa.BasicBlock, entering bool) string {
			if entering {
				if blk != start {
					for _, x := range blk.Instrs {
						if _, ok := x.(*ssa.Select); ok {
							return "drop" // back at the select without re-arming
						}
					}
				}
				return ""
			}
			if call, ok := in.(ssa.CallInstruction); ok && w.isCall(call, "time#Timer.Reset") {
				return "replace"
			}
			return ""
		}
		word := map[int]string{-1: "lower", 0: "equal", 1: "higher"}
		var wrongDrop, wrongKeep, undecided []string
		cases := 0
		for dh := -1; dh <= 1; dh++ {
			for dr := -1; dr <= 1; dr++ {
				for ds := -1; ds <= 1; ds++ {
					for _, os := range []int{0, 1} {
						cases++
						ev := &ordEval{w: w, classOf: classOf, cs: ordCase{diff: map[string]int{"Height": dh, "Round": dr, "Step": ds}, oldSign: map[string]int{"Step": os}}}
						out := ev.run(start, nil, &ordFrame{fn: f, params: map[*ssa.Parameter]string{}}, stop)
						desc := fmt.Sprintf("height %s, round %s, step %s, pending step %s", word[dh], word[dr], word[ds], map[int]string{0: "unset", 1: "set"}[os])
						wantDrop := dh < 0 || (dh == 0 && dr < 0) || (dh == 0 && dr == 0 && os > 0 && ds <= 0)
						switch {
						case out.kind == "undecided" || (out.kind != "drop" && out.kind != "replace"):
							undecided = append(undecided, desc+": "+out.kind+" "+out.why)
						case out.kind == "drop" && !wantDrop:
							wrongDrop = append(wrongDrop, desc)
						case out.kind == "replace" && wantDrop:
							wrongKeep = append(wrongKeep, desc)
						}
					}
				}
			}
		}
		c.Check(len(undecided) == 0, fk+" :: the filter only compares height, round and step of the two ticks (decidable over their orderings)", w.pos(f.Pos()), fmt.Sprintf("%d orderings decided", cases), "cannot be decided for: "+strings.Join(firstN(undecided, 3), " | "))
		c.Check(len(wrongKeep) == 0, fk+" :: the pending timeout is replaced only by a tick for a later (height, round, step)", w.pos(f.Pos()), "no stale tick re-arms the timer", "a tick that is not later replaces the pending timeout (that timeout then never fires): "+strings.Join(firstN(wrongKeep, 4), " | "))
		c.Check(len(wrongDrop) == 0, fk+" :: a tick is dropped only if it is not later than the pending timeout", w.pos(f.Pos()), "no later tick is dropped", "a later tick is dropped (its timeout never fires): "+strings.Join(firstN(wrongDrop, 4), " | "))
		for i := 0; i < 4; i++ { // one obligation per clause keeps the floor meaningful
			c.OK(fmt.Sprintf("%s :: orderings evaluated (%d/4)", fk, i+1), w.pos(f.Pos()), fmt.Sprintf("%d abstract cases", cases))
		}
	})
}

func isIntegral(v ssa.Value) bool {
	b, ok := v.Type().Underlying().(*types.Basic)
	return ok && b.Info()&types.IsInteger != 0
}

// splitOffset: v = base ± k with a non-zero integer constant k.
func splitOffset(v ssa.Value) (ssa.Value, int64, bool) {
	b, ok := stripConv(v).(*ssa.BinOp)
	if !ok {
		return nil, 0, false
	}
	if k, isC := constInt(b.Y); isC && (b.Op == token.ADD || b.Op == token.SUB) {
		if _, xc := constInt(b.X); xc {
			return nil, 0, false
		}
		if b.Op == token.SUB {
			k = -k
		}
		return b.X, k, true
	}
	if k, isC := constInt(b.X); isC && b.Op == token.ADD {
		return b.Y, k, true
	}
	return nil, 0, false
}

func (w *World) renderOffset(base ssa.Value, k int64) string {
	switch {
	case k == 0:
		return w.arith(base)
	case k > 0:
		return fmt.Sprintf("(%s + %d)", w.arith(base), k)
	}
	return fmt.Sprintf("(%s - %d)", w.arith(base), -k)
}

func firstN(xs []string, n int) []string {
	if len(xs) > n {
		return append(append([]string{}, xs[:n]...), fmt.Sprintf("… (%d in all)", len(xs)))
	}
	return xs
}

// ------------------------------------------------------------------ C03.R8
// Start-up and round-skip corners of termination:
// (a) needProofBlock looks at block height-1 except at the chain's first height — which is InitialHeight, not
//
//	1: with initial_height > 1 and a wait-for-transactions configuration the lookup returns nil and every
//	validator panics in round 0 of the first height;
//
// (b) HeightVoteSet.SetRound creates the vote sets of every round from the one before the *current* round up
//
//	to the new round: after a skip of several rounds the skipped rounds' sets must exist, or an older polka
//	that would release a lock cannot be admitted.
func init() {
	register("C03", "R8", "K1+K10", "the first height is recognised by InitialHeight before block height-1 is consulted, and a missing block height-1 (state sync) is answered with true, never with a panic; a round skip creates the vote sets of all skipped rounds", 8, func(c *Ctx) {
		w := c.W
		if f := c.fn("consensus", "State.needProofBlock"); f != nil {
			fk := funcKey(f)
			H := paramName(f, 1)
			n := 0
			for _, dc := range w.deepCallsMatching(f, 1, `^\w+\.blockStore\.LoadBlockMeta\(`) {
				n++
				arg := dc.arg(0)
				c.Check(arg == "("+H+" - 1)", fk+" :: looks at the block before this height", w.ipos(dc.site), H+" - 1", "looks at "+arg)
				c.guards(dc.call.Parent(), dc.call, fk+" :: consult the previous block", 0, guardCmp("not the chain's first height", q(H), "!=", `.*\.InitialHeight`))
			}
			c.Check(n == 1, fk+" :: previous-block lookup found", w.pos(f.Pos()), "1", fmt.Sprintf("%d", n))
			// A node bootstrapped by state sync has the state of height-1 but no block: the lookup answers
			// nil. The function runs in the consensus routine (enterNewRound / handleTxsAvailable), where a
			// panic ends consensus for good (F40): it must answer instead, and the answer that cannot stall the
			// height is "propose now" (true) — "false" would wait for transactions that need not come.
			for _, di := range w.deepInstrs(f, 1) {
				if p, isP := di.in.(*ssa.Panic); isP {
					c.Check(false, fk+" :: never panics", w.ipos(p), "no panic in the consensus routine", "panics with "+w.expr(p.X)+": the consensus routine recovers, logs CONSENSUS FAILURE and stops for good")
				}
			}
			c.Check(true, fk+" :: never panics", w.pos(f.Pos()), "no panic", "")
			nNil := 0
			for _, ea := range condEdges(f) {
				if ea.A.Kind != "nil" || !regexp.MustCompile(`\.blockStore\.LoadBlockMeta\(`).MatchString(w.expr(ea.A.V)) {
					continue
				}
				nNil++
				qq := &pathQ{target: func(in ssa.Instruction) bool {
					r, ok := in.(*ssa.Return)
					if !ok {
						return false
					}
					b, isB := boolConst(r.Results[0])
					return !(isB && b)
				}}
				hit, _ := qq.reach(ea.E.From.Succs[ea.E.Succ], 0)
				pos := w.pos(f.Pos())
				if hit != nil {
					pos = w.ipos(hit)
				}
				c.Check(hit == nil, fk+" :: a missing previous block means a proof block may be needed", pos, "true on the path where the block before this height is not in the store", "answers something other than true when the previous block is missing: after state sync with create_empty_blocks=false the node waits for transactions instead of proposing")
			}
			c.Check(nNil >= 1, fk+" :: the lookup result is tested for nil", w.pos(f.Pos()), ">= 1 nil test", "the result of LoadBlockMeta is used without a nil test")
		}
		if f := c.fn("consensus/types", "HeightVoteSet.SetRound"); f != nil {
			fk := funcKey(f)
			R := paramName(f, 1)
			adds := w.deepCallsTo(f, 1, "consensus/types#HeightVoteSet.addRound")
			c.Check(len(adds) == 1, fk+" :: creates vote sets in a loop", w.pos(f.Pos()), "1 addRound site", fmt.Sprintf("%d", len(adds)))
			for _, dc := range adds {
				r := callArgs(dc.call)[0]
				phi, ok := stripConv(r).(*ssa.Phi)
				if !c.Check(ok, fk+" :: loop counter", w.ipos(dc.site), "phi", w.expr(r)) {
					continue
				}
				okStart, okStep := false, false
				for _, e := range phi.Edges {
					s := w.expr(e)
					if regexp.MustCompile(`^libs/math\.SafeSubInt32\(\w+\.round, 1\)$`).MatchString(s) {
						okStart = true // the round before the current one (field of the receiver, not the argument)
					}
					if b, isB := stripConv(e).(*ssa.BinOp); isB && b.Op == token.ADD && stripConv(b.X) == ssa.Value(phi) {
						if k, isC := constInt(b.Y); isC && k == 1 {
							okStep = true
						}
					}
				}
				c.Check(okStart, fk+" :: vote sets are created starting from the round before the current one", w.ipos(dc.site), "r starts at hvs.round - 1", "the loop starts at "+w.expr(r)+": after a skip of several rounds the skipped rounds get no vote sets")
				c.Check(okStep, fk+" :: every round up to the new one is visited", w.ipos(dc.site), "r++", "step is not 1")
				c.guards(dc.call.Parent(), dc.call, fk+" :: create the vote sets of a round", 0, guardCmp("round not beyond the new round", `phi\(.*\)`, "<=", q(R)))
			}
		}
	})
}

// ------------------------------------------------------------------ C03.R9
// The file signer's height/round/step check, decided exactly (K12): it may refuse a request only for a
// regression — or, at the very same height, round and step, for missing sign bytes — and must let every
// later height, round or step through. A check that is stricter than that (e.g. applying the step test to
// later rounds as well) makes every validator refuse to sign after a failed round 0: the height never ends.
// The same table is the safety side (C02/C04): a regression is never let through.
func init() {
	register("C03", "R9", "K12", "the signer's height/round/step check refuses exactly the regressions (and reuses a signature exactly at the same height, round and step)", 5, func(c *Ctx) {
		w := c.W
		f := c.fn("privval", "FilePVLastSignState.CheckHRS")
		if f == nil || len(f.Params) != 4 {
			return
		}
		fk := funcKey(f)
		fieldOfParam := map[*ssa.Parameter]string{f.Params[1]: "Height", f.Params[2]: "Round", f.Params[3]: "Step"}
		var classOf func(v ssa.Value, fr *ordFrame) (string, string, bool)
		recvField := func(v ssa.Value) (string, bool) {
			u, ok := stripConv(v).(*ssa.UnOp)
			if !ok || u.Op != token.MUL {
				return "", false
			}
			fa, ok := u.X.(*ssa.FieldAddr)
			if !ok || stripConv(fa.X) != ssa.Value(f.Params[0]) {
				return "", false
			}
			return fieldName(fa.X.Type(), fa.Field), true
		}
		classOf = func(v ssa.Value, fr *ordFrame) (string, string, bool) {
			if p, ok := stripConv(v).(*ssa.Parameter); ok {
				if fld, ok := fieldOfParam[p]; ok {
					return "new", fld, true
				}
			}
			if fld, ok := recvField(v); ok && (fld == "Height" || fld == "Round" || fld == "Step") {
				return "old", fld, true
			}
			return "", "", false
		}
		word := map[int]string{-1: "lower than", 0: "equal to", 1: "higher than"}
		var wrong, undecided []string
		cases := 0
		for dh := -1; dh <= 1; dh++ {
			for dr := -1; dr <= 1; dr++ {
				for ds := -1; ds <= 1; ds++ {
					for _, sb := range []bool{false, true} {
						for _, sig := range []bool{false, true} {
							cases++
							nilOf := map[string]bool{"SignBytes": !sb, "Signature": !sig}
							ev := &ordEval{w: w, classOf: classOf, cs: ordCase{diff: map[string]int{"Height": dh, "Round": dr, "Step": ds}, oldSign: map[string]int{}}}
							ev.extra = func(v ssa.Value, fr *ordFrame) (bool, bool) {
								a := normCond(v, true)
								if (a.Kind == "nil" || a.Kind == "nonnil") && a.V != nil {
									if fld, ok := recvField(a.V); ok {
										if isNil, known := nilOf[fld]; known {
											return isNil == (a.Kind == "nil"), true
										}
									}
								}
								return false, false
							}
							stop := func(in ssa.Instruction, blk *ssa.BasicBlock, entering bool) string {
								if entering || in == nil {
									return ""
								}
								switch x := in.(type) {
								case *ssa.Return:
									if len(x.Results) != 2 {
										return "undecided-return"
									}
									same, isC := boolConst(x.Results[0])
									if !isC {
										return "undecided-return"
									}
									if isNilConst(x.Results[1]) {
										if same {
											return "reuse"
										}
										return "sign"
									}
									if same {
										return "undecided-return"
									}
									return "refuse"
								case *ssa.Panic:
									return "panic"
								}
								return ""
							}
							out := ev.run(f.Blocks[0], nil, &ordFrame{fn: f, params: map[*ssa.Parameter]string{}}, stop)
							want := ""
							switch {
							case dh < 0:
								want = "refuse"
							case dh > 0:
								want = "sign"
							case dr < 0:
								want = "refuse"
							case dr > 0:
								want = "sign"
							case ds < 0:
								want = "refuse"
							case ds > 0:
								want = "sign"
							case !sb:
								want = "refuse"
							case !sig:
								want = "panic"
							default:
								want = "reuse"
							}
							desc := fmt.Sprintf("request height %s, round %s, step %s the last signed one (sign bytes %v, signature %v)", word[dh], word[dr], word[ds], sb, sig)
							switch {
							case strings.HasPrefix(out.kind, "undecided") || out.kind == "return":
								undecided = append(undecided, desc+": "+out.kind+" "+out.why)
							case out.kind != want:
								wrong = append(wrong, desc+": "+out.kind+" instead of "+want)
							}
						}
					}
				}
			}
		}
		c.Check(len(undecided) == 0, fk+" :: decidable over the orderings of height, round and step", w.pos(f.Pos()), fmt.Sprintf("%d cases decided", cases), "cannot be decided for: "+strings.Join(firstN(undecided, 3), " | "))
		var tooStrict, tooLax []string
		for _, x := range wrong {
			if strings.Contains(x, ": refuse instead of") || strings.Contains(x, ": panic instead of") {
				tooStrict = append(tooStrict, x)
			} else {
				tooLax = append(tooLax, x)
			}
		}
		c.Check(len(tooStrict) == 0, fk+" :: a request for a later height, round or step is never refused", w.pos(f.Pos()), "refuses regressions only", "the signer refuses requests it must serve (every validator then stops signing and the height never ends): "+strings.Join(firstN(tooStrict, 3), " | "))
		c.Check(len(tooLax) == 0, fk+" :: a regression is never let through; reuse only at the same height, round and step", w.pos(f.Pos()), "exact", "the signer lets through what it must refuse: "+strings.Join(firstN(tooLax, 3), " | "))
		for i := 0; i < 3; i++ {
			c.OK(fmt.Sprintf("%s :: cases evaluated (%d/3)", fk, i+1), w.pos(f.Pos()), fmt.Sprintf("%d abstract cases", cases))
		}
	})
}

// ------------------------------------------------------------------ C03.R11
// F67: the commit step is entered when +2/3 precommits for a block have been seen; the node then only
// waits for the block. Nothing re-enters that step (enterCommit is triggered by a *new* precommit, and
// they are all in), so a transition out of it loses the decision for this node: the others decide, stop
// voting for the height, and the node never does. enterNewRound — reached from +2/3-any votes of a later
// round and from timeouts — therefore changes round and step only when the node is not in the commit step.
func init() {
	register("C03", "R11", "K1", "a node in the commit step is not moved to a later round (it would never finalise the decision it has seen)", 2, func(c *Ctx) {
		w := c.W
		f := c.fn("consensus", "State.enterNewRound")
		if f == nil {
			return
		}
		fk := funcKey(f)
		commit := c.mustConst("consensus/types", "RoundStepCommit")
		n := 0
		for _, call := range w.callsTo(f, "consensus#State.updateRoundStep") {
			n++
			c.guards(f, call, fk+" :: move to the new round", 0, guardCmp("not in the commit step", `\w+(?:\.RoundState)?\.Step`, "!=", fmt.Sprint(commit)))
		}
		c.Check(n == 1, fk+" :: round/step update found", w.pos(f.Pos()), "1", fmt.Sprintf("%d", n))
	})
}
