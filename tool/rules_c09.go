package main

import (
	"fmt"
	"go/token"
	"os"
	"regexp"
	"strings"

	"golang.org/x/tools/go/ssa"
)

// sendRange computes the min/max number of sends on channels matching `match` over all paths from entry
// to a normal return, saturating at 2 (K8).
func sendRange(f *ssa.Function, match func(*ssa.Send) bool) (lo, hi int) {
	type mm struct{ lo, hi int }
	in := map[*ssa.BasicBlock]*mm{}
	sat := func(x int) int {
		if x > 2 {
			return 2
		}
		return x
	}
	in[f.Blocks[0]] = &mm{0, 0}
	lo, hi = 3, -1
	changed := true
	for it := 0; changed && it < 100; it++ {
		changed = false
		for _, b := range f.Blocks {
			cur, ok := in[b]
			if !ok {
				continue
			}
			n := 0
			terminated := false
			for _, instr := range b.Instrs {
				if s, ok := instr.(*ssa.Send); ok && match(s) {
					n++
				}
				if isNoReturnCall(instr) {
					terminated = true
				}
				if _, ok := instr.(*ssa.Panic); ok {
					terminated = true
				}
			}
			out := mm{sat(cur.lo + n), sat(cur.hi + n)}
			if terminated {
				continue
			}
			if len(b.Instrs) > 0 {
				if _, ok := b.Instrs[len(b.Instrs)-1].(*ssa.Return); ok && b.Comment != "recover" {
					if out.lo < lo {
						lo = out.lo
					}
					if out.hi > hi {
						hi = out.hi
					}
				}
			}
			for _, s := range b.Succs {
				t, ok := in[s]
				if !ok {
					in[s] = &mm{out.lo, out.hi}
					changed = true
					continue
				}
				if out.lo < t.lo {
					t.lo = out.lo
					changed = true
				}
				if out.hi > t.hi {
					t.hi = out.hi
					changed = true
				}
			}
		}
	}
	return lo, hi
}

func ruleLightVerifiers(c *Ctx) {
	w := c.W
	type spec struct {
		fn string
		gs []Guard
	}
	U, T := `untrustedHeader`, `trustedHeader`
	newHeaderChecks := []Guard{
		guardRe("untrusted header is well formed for the trusted chain id", `^nil\(`+U+`\.ValidateBasic\(`+T+`\.Header\.ChainID\)\)$`),
		guardCmp("height increases", U+`\.Header\.Height`, ">", T+`\.Header\.Height`),
		guardRe("time increases", `^true\(`+U+`\.Header\.Time\.After\(`+T+`\.Header\.Time\)\)$`),
		guardRe("not from the future (now + max clock drift)", `^true\(`+U+`\.Header\.Time\.Before\(now\.Add\(maxClockDrift\)\)\)$`),
		guardRe("validator set matches the header's ValidatorsHash", `^true\(bytes\.Equal\(`+U+`\.Header\.ValidatorsHash, untrustedVals\.Hash\(\)\)\)$`),
	}
	notExpired := guardRe("trusted header within the trusting period", `^false\(light\.HeaderExpired\(`+T+`, trustingPeriod, now\)\)$`)
	ownCommit := guardRe("+2/3 of the new validator set signed exactly this header", `^nil\(untrustedVals\.VerifyCommitLight\(`+T+`\.Header\.ChainID, `+U+`\.Commit\.BlockID, `+U+`\.Header\.Height, `+U+`\.Commit\)\)$`)
	specs := []spec{
		{"VerifyAdjacent", append([]Guard{
			guardCmp("heights are adjacent", U+`\.Header\.Height`, "==", `\(`+T+`\.Header\.Height \+ 1\)`),
			notExpired,
			guardRe("validators hash equals the trusted next-validators hash", `^true\(bytes\.Equal\(`+U+`\.Header\.ValidatorsHash, `+T+`\.Header\.NextValidatorsHash\)\)$`),
			ownCommit}, newHeaderChecks...)},
		{"VerifyNonAdjacent", append([]Guard{
			guardCmp("heights are not adjacent", U+`\.Header\.Height`, "!=", `\(`+T+`\.Header\.Height \+ 1\)`),
			notExpired,
			guardRe("trust-level fraction of the trusted validators signed the new commit", `^nil\(trustedVals\.VerifyCommitLightTrusting\(`+T+`\.Header\.ChainID, `+U+`\.Commit, trustLevel\)\)$`),
			ownCommit}, newHeaderChecks...)},
		{"VerifyBackwards", []Guard{
			guardRe("header is well formed", `^nil\(`+U+`\.ValidateBasic\(\)\)$`),
			guardCmp("same chain", U+`\.ChainID`, "==", T+`\.ChainID`),
			guardRe("time decreases", `^true\(`+U+`\.Time\.Before\(`+T+`\.Time\)\)$`),
			guardRe("hash equals the trusted header's LastBlockID hash", `^true\(bytes\.Equal\(`+U+`\.Hash\(\), `+T+`\.LastBlockID\.Hash\)\)$`)}},
	}
	for _, s := range specs {
		f := c.fn("light", s.fn)
		if f == nil {
			continue
		}
		for _, g := range s.gs {
			ok := c.ge().ensures(f, g, 3)
			c.Check(ok, "light."+s.fn+" ensures "+g.Name, w.pos(f.Pos()), "every nil return is behind this check", "light."+s.fn+" can return nil (accept) without: "+g.Name)
		}
	}
	// HeaderExpired = !(h.Time + period > now)
	if f := c.fn("light", "HeaderExpired"); f != nil {
		rv := returnValues(f, 0)
		ok := len(rv) == 1 && regexp.MustCompile(`^!\w+\.Header\.Time\.Add\(trustingPeriod\)\.After\(now\)$`).MatchString(w.expr(rv[0]))
		c.Check(ok, "light.HeaderExpired = !(time + trustingPeriod).After(now)", w.pos(f.Pos()), "expiry computed from the header's own time", "HeaderExpired is computed differently: "+fmt.Sprint(len(rv)))
	}
	// Verify dispatches on adjacency and passes its arguments through in order
	if f := c.fn("light", "Verify"); f != nil {
		for _, call := range w.callsTo(f, "light#VerifyNonAdjacent") {
			c.guards(f, call, "light.Verify → VerifyNonAdjacent", 0, guardCmp("not adjacent", U+`\.Header\.Height`, "!=", `\(`+T+`\.Header\.Height \+ 1\)`))
			c.Check(w.callStr(call) == "light.VerifyNonAdjacent(trustedHeader, trustedVals, untrustedHeader, untrustedVals, trustingPeriod, now, maxClockDrift, trustLevel)", "light.Verify → VerifyNonAdjacent arguments", w.ipos(call), "passed through in order", w.callStr(call))
		}
		for _, call := range w.callsTo(f, "light#VerifyAdjacent") {
			c.guards(f, call, "light.Verify → VerifyAdjacent", 0, guardCmp("adjacent", U+`\.Header\.Height`, "==", `\(`+T+`\.Header\.Height \+ 1\)`))
			c.Check(w.callStr(call) == "light.VerifyAdjacent(trustedHeader, untrustedHeader, untrustedVals, trustingPeriod, now, maxClockDrift)", "light.Verify → VerifyAdjacent arguments", w.ipos(call), "passed through in order", w.callStr(call))
		}
		rv := returnValues(f, 0)
		okRet := len(rv) == 2
		for _, v := range rv {
			if valueCall(v) == nil {
				okRet = false
			}
		}
		c.Check(okRet, "light.Verify returns the verifier's verdict", w.pos(f.Pos()), "both returns are the callee's result", "Verify does not return the verifier's result on every path")
	}
	// trust level bounds
	if f := c.fn("light", "ValidateTrustLevel"); f != nil {
		for _, g := range []Guard{
			guardCmp("trust level >= 1/3", `\(\w+\.Numerator \* 3\)`, ">=", `\w+\.Denominator`),
			guardCmp("trust level <= 1", `\w+\.Numerator`, "<=", `\w+\.Denominator`),
			guardCmp("denominator non-zero", `\w+\.Denominator`, "!=", "0"),
		} {
			c.Check(c.ge().ensures(f, g, 2), "light.ValidateTrustLevel ensures "+g.Name, w.pos(f.Pos()), "nil only behind this comparison", "ValidateTrustLevel accepts without: "+g.Name)
		}
		sites := 0
		for _, s := range w.allCallsTo("light#ValidateTrustLevel") {
			if relPkg(s.Fn) == "light" {
				sites++
			}
		}
		c.Check(sites >= 1, "light client construction validates the trust level", w.pos(f.Pos()), fmt.Sprintf("%d call sites in package light", sites), "ValidateTrustLevel is never called when building a client")
	}
}

func ruleLightTrustUpdate(c *Ctx) {
	w := c.W
	k := newKeyer()
	// ownership of the trusted store
	var owner *ssa.Function
	sites := filterSites(w.allCallsTo("light/store#Store.SaveLightBlock"), func(s Site) bool { return relPkg(s.Fn) == "light" })
	c.onlyIn("write to the trusted store", sites, func(f *ssa.Function) (bool, string) {
		if len(sites) == 1 || owner == nil || f == owner {
			owner = f
			return true, "single trusted-update function"
		}
		return false, ""
	})
	if owner == nil {
		c.Undecided("trusted-update function", "-", "no SaveLightBlock call in package light")
		return
	}
	for _, st := range w.allCallsTo("light/store#Store.SaveLightBlock") {
		c.Check(relPkg(st.Fn) == "light" || strings.HasPrefix(relPkg(st.Fn), "light/store") || strings.HasPrefix(relPkg(st.Fn), "cmd/") || relPkg(st.Fn) == "statesync" && false, k.key(st.Fn, "SaveLightBlock outside the client"), w.ipos(st.Instr), "inside light", "the trusted store is written from outside the light client")
	}
	// every call of the update function is behind a successful verification
	for _, cs := range w.callersOf(owner) {
		f := cs.Parent()
		if strings.HasSuffix(w.Fset.Position(cs.Pos()).Filename, "_test.go") {
			continue
		}
		arg := w.expr(cs.Common().Args[1])
		key := k.key(f, "trust "+arg)
		if len(w.callsTo(f, "light#Client.lightBlockFromPrimary")) > 0 && strings.Contains(arg, "lightBlockFromPrimary") {
			// initialisation from the trust options
			L := q(arg)
			c.guards(f, cs, key, 0,
				guardRe("block is well formed for the chain id", `^nil\(`+L+`\.ValidateBasic\(c\.chainID\)\)$`),
				guardRe("header hash equals the trust option hash", `^true\(bytes\.Equal\(`+L+`\.SignedHeader\.Header\.Hash\(\), options\.Hash\)\)$`),
				guardRe("+2/3 of its own validator set signed it", `^nil\(`+L+`\.ValidatorSet\.VerifyCommitLight\(c\.chainID, `+L+`\.SignedHeader\.Commit\.BlockID, `+L+`\.SignedHeader\.Header\.Height, `+L+`\.SignedHeader\.Commit\)\)$`),
				guardRe("witnesses agree on the first header", `^nil\(c\.compareFirstHeaderWithWitnesses\(ctx, `+L+`\.SignedHeader\)\)$`),
				guardRe("primary delivered the block", `^nil\(c\.lightBlockFromPrimary\(ctx, options\.Height\)#1\)$`))
			continue
		}
		// verification path: the error of the chosen verification function is nil
		allowed := map[string]bool{"verifySequential": true, "verifySkippingAgainstPrimary": true, "backwards": true}
		g := Guard{Name: "verification (sequential / skipping / backwards) of exactly this block returned nil", Match: func(w *World, f *ssa.Function, a Atom) bool {
			if a.Kind != "nil" {
				return false
			}
			vals := []ssa.Value{a.V}
			if phi, ok := a.V.(*ssa.Phi); ok {
				vals = phi.Edges
			}
			for _, v := range vals {
				call := valueCall(v)
				if call == nil {
					return false
				}
				names := calleeNames(call)
				if len(names) == 0 {
					return false
				}
				for _, n := range names {
					if !allowed[n] {
						return false
					}
				}
				// the verified block is the one being trusted
				found := false
				for _, a := range call.Common().Args {
					e := w.expr(a)
					if e == arg || e == arg+".SignedHeader.Header" {
						found = true
					}
				}
				if !found {
					return false
				}
			}
			return true
		}}
		c.guards(f, cs, key, 0, g)
	}
}

// calleeNames lists the possible callee names of a call: static, or a phi of bound methods.
func calleeNames(call ssa.CallInstruction) []string {
	if f := staticCallee(call); f != nil {
		return []string{f.Name()}
	}
	var out []string
	var walk func(v ssa.Value, d int)
	walk = func(v ssa.Value, d int) {
		if d > 4 {
			return
		}
		switch x := v.(type) {
		case *ssa.Phi:
			for _, e := range x.Edges {
				walk(e, d+1)
			}
		case *ssa.MakeClosure:
			if fn := funcOfValue(x); fn != nil {
				out = append(out, fn.Name())
			}
		case *ssa.Function:
			out = append(out, unwrapSynthetic(x).Name())
		default:
			out = append(out, "?")
		}
	}
	walk(call.Common().Value, 0)
	return out
}

func ruleLightDetector(c *Ctx) {
	w := c.W
	// forward verification succeeds only through the witness cross-check
	for _, name := range []string{"Client.verifySequential", "Client.verifySkippingAgainstPrimary"} {
		f := c.fn("light", name)
		if f == nil {
			continue
		}
		ok := true
		pts := successPoints(w, f)
		for _, sp := range pts {
			if sp.viaCallee != nil && (sp.viaCallee.Name() == "detectDivergence" || sp.viaCallee == f) {
				continue
			}
			if g, _ := c.ge().guardedLocal(f, sp.at, guardCallOK("detectDivergence = nil", "light#Client.detectDivergence"), 2); !g {
				ok = false
			}
		}
		c.Check(ok && len(pts) > 0, "light."+name+" succeeds only if detectDivergence = nil", w.pos(f.Pos()), "every nil return is behind the witness cross-check", "a nil return is reachable without detectDivergence having returned nil")
	}
	// detectDivergence: nil only if a witness matched; matched only on a nil verdict
	if f := c.fn("light", "Client.detectDivergence"); f != nil {
		var flag *ssa.Phi
		for _, b := range f.Blocks {
			for _, in := range b.Instrs {
				if p, ok := in.(*ssa.Phi); ok && p.Comment == "headerMatched" {
					hasFalse := false
					for _, e := range p.Edges {
						if v, ok := boolConst(e); ok && !v {
							hasFalse = true
						}
					}
					if hasFalse {
						flag = p
					}
				}
			}
		}
		if c.Check(flag != nil, "light.Client.detectDivergence tracks whether a witness matched", w.pos(f.Pos()), "flag found", "cannot find the matched-flag: function restructured") {
			g := Guard{Name: "some witness returned the identical header", Match: func(w *World, f *ssa.Function, a Atom) bool {
				p, ok := a.V.(*ssa.Phi)
				return ok && a.Kind == "true" && p.Comment == "headerMatched"
			}}
			c.Check(c.ge().ensures(f, g, 2), "light.Client.detectDivergence returns nil only if a witness matched", w.pos(f.Pos()), "nil is behind headerMatched", "detectDivergence can return nil although no witness confirmed the header")
			// every place the flag becomes true is on the nil-verdict edge
			okSet := true
			nSet := 0
			for _, b := range f.Blocks {
				for _, in := range b.Instrs {
					p, ok := in.(*ssa.Phi)
					if !ok || p.Comment != "headerMatched" {
						continue
					}
					for i, e := range p.Edges {
						if v, ok := boolConst(e); ok && v {
							nSet++
							pred := p.Block().Preds[i]
							found := false
							nilVerdict := Guard{Name: "the verdict received from the witness is nil", Match: func(w *World, f *ssa.Function, a Atom) bool {
								return a.Kind == "nil" && strings.HasPrefix(w.expr(a.V), "<-")
							}}
							for _, a := range dominatingAtoms(pred) {
								if nilVerdict.Match(w, f, a) {
									found = true
								}
								// `matched, … := c.handle(<-errc, …); if matched {flag = true}`: the helper's result is
								// true only where it saw a nil verdict
								if a.Kind == "true" {
									if ex, isEx := a.V.(*ssa.Extract); isEx {
										if call, isCall := ex.Tuple.(*ssa.Call); isCall {
											if h := staticCallee(call); h != nil && h.Blocks != nil && isNewFunc(h) {
												all := true
												for _, r := range returnsOf(h) {
													ret := r.(*ssa.Return)
													if b, isC := boolConst(ret.Results[ex.Index]); isC && !b {
														continue
													}
													if ok, _ := c.ge().guardedLocal(h, ret, nilVerdict, 2); !ok {
														all = false
													}
												}
												if all {
													found = true
												}
											}
										}
									}
								}
							}
							if !found {
								okSet = false
							}
						}
					}
				}
			}
			c.Check(okSet && nSet >= 1, "light.Client.detectDivergence marks a match only for a nil verdict", w.pos(f.Pos()), fmt.Sprintf("%d set sites, all on the nil-verdict edge", nSet), "the matched flag is set on a path that is not the nil-verdict case")
		}
		// one verdict is awaited per witness
		okLoop := false
		for _, ea := range condEdges(f) {
			if ea.A.Kind == "cmp" && strings.Contains(w.expr(ea.A.Y), "cap(make(chan error") || ea.A.Kind == "cmp" && strings.Contains(w.expr(ea.A.X), "cap(make(chan error") {
				okLoop = true
			}
		}
		c.Check(okLoop, "light.Client.detectDivergence awaits one verdict per witness", w.pos(f.Pos()), "loop bound is the channel capacity (= number of witnesses)", "verdict loop is not bounded by the number of witnesses")
	}
	// per-witness comparison: exactly one verdict; nil only for the identical hash
	if f := c.fn("light", "Client.compareNewHeaderWithWitness"); f != nil {
		ch := paramName(f, 2)
		lo, hi := sendRange(f, func(s *ssa.Send) bool { return w.expr(s.Chan) == ch })
		c.Check(lo == 1 && hi == 1, "light.Client.compareNewHeaderWithWitness sends exactly one verdict", w.pos(f.Pos()), "min=max=1 sends on the verdict channel over all paths",
			fmt.Sprintf("number of verdicts sent per call ranges over [%d,%d] (2 = two or more): a witness can be counted twice or never", lo, hi))
		for _, b := range f.Blocks {
			for _, in := range b.Instrs {
				if s, ok := in.(*ssa.Send); ok && w.expr(s.Chan) == ch && isNilConst(s.X) {
					c.guards(f, s, "light.Client.compareNewHeaderWithWitness :: send nil verdict", 0,
						guardRe("witness header hash equals the primary's", `^true\(bytes\.Equal\(`+q(paramName(f, 3))+`\.(Header\.)?Hash\(\), .*\.Hash\(\)\)\)$`))
				}
			}
		}
	}
	// handleConflictingHeaders: the attack error only after evidence against the primary reached the witness
	if f := c.fn("light", "Client.handleConflictingHeaders"); f != nil {
		send := w.callPred("light#Client.sendEvidence")
		n := 0
		for _, b := range f.Blocks {
			ret, ok := b.Instrs[len(b.Instrs)-1].(*ssa.Return)
			if !ok || !strings.Contains(w.expr(ret.Results[0]), "ErrLightClientAttack") {
				continue
			}
			n++
			okp, path := mustPrecede(f, ret, send)
			c.Check(okp, fmt.Sprintf("light.Client.handleConflictingHeaders :: attack error #%d after evidence was sent", n), w.ipos(ret), "sendEvidence precedes the attack error", "ErrLightClientAttack returned without evidence having been sent: "+pathStr(w, path))
		}
		c.Check(n >= 1, "light.Client.handleConflictingHeaders returns the attack error", w.pos(f.Pos()), fmt.Sprintf("%d returns", n), "no return of ErrLightClientAttack")
		// evidence against the primary goes to the witness, evidence against the witness to the primary
		var recv []string
		for _, call := range w.callsTo(f, "light#Client.sendEvidence") {
			recv = append(recv, w.expr(callArgs(call)[2]))
		}
		okR := len(recv) == 2 && strings.HasPrefix(recv[0], "c.witnesses[") && recv[1] == "c.primary"
		c.Check(okR, "light.Client.handleConflictingHeaders evidence receivers", w.pos(f.Pos()), "witness first, then primary", "evidence receivers are "+strings.Join(recv, ", "))
		// a witness that cannot back its header is not an attack: nil only when examining against the primary trace failed
		for _, sp := range successPoints(w, f) {
			c.guards(f, sp.at, "light.Client.handleConflictingHeaders :: return nil (witness removed)", 0, guardRe("witness could not back its conflicting header", `^nonnil\(c\.examineConflictingHeaderAgainstTrace\(.*\)#2\)$`))
		}
	}
	// examineConflictingHeaderAgainstTrace: a divergence is reported only (a) strictly beyond the target height or (b) at a verified, differing block
	if f := c.fn("light", "Client.examineConflictingHeaderAgainstTrace"); f != nil {
		n := 0
		for _, sp := range successPoints(w, f) {
			n++
			c.anyGuards(f, sp.at, fmt.Sprintf("light.Client.examineConflictingHeaderAgainstTrace :: divergence #%d", n), "trace block strictly above the target (forward lunatic), or a source-verified block whose hash differs", 0,
				[]Guard{guardCmp("above", `.*\.Height`, ">", `targetBlock\.SignedHeader\.Header\.Height`)},
				[]Guard{guardRe("differs", `^false\(bytes\.Equal\(.*\.Hash\(\), .*\.Hash\(\)\)\)$`), guardRe("verified", `^nil\(c\.verifySkipping\(.*\)#1\)$`)})
		}
		c.Check(n >= 2, "light.Client.examineConflictingHeaderAgainstTrace has both divergence exits", w.pos(f.Pos()), fmt.Sprintf("%d success exits", n), "expected two success exits")
		// the first block of the trace must equal the source's
		okFirst := false
		for _, ea := range condEdges(f) {
			if ea.A.Kind == "cmp" && ea.A.Op == token.EQL {
				if v, ok := constInt(ea.A.Y); ok && v == 0 && regexp.MustCompile("^"+fwdIdx+"$").MatchString(w.expr(ea.A.X)) {
					okFirst = true
				}
			}
		}
		c.Check(okFirst, "light.Client.examineConflictingHeaderAgainstTrace anchors on the common first block", w.pos(f.Pos()), "idx == 0 case present", "no idx == 0 anchoring")
	}
	// first header: a conflicting witness is an error, not a confirmation
	if f := c.fn("light", "Client.compareFirstHeaderWithWitnesses"); f != nil {
		okC := true
		for _, sp := range successPoints(w, f) {
			// nil only after the verdict loop ran to completion
			if g, _ := c.ge().guardedLocal(f, sp.at, guardCmp("all verdicts read", `.*`, ">=", `cap\(make\(chan error\)\)`), 2); !g {
				okC = false
			}
		}
		c.Check(okC, "light.Client.compareFirstHeaderWithWitnesses returns nil only after all verdicts were read", w.pos(f.Pos()), "nil after the loop", "nil return before all witnesses were consulted")
	}
}

func init() {
	register("C09", "R1", "K3+K1", "the trusted store is written only by the trusted-update function, which is called only behind a successful verification of exactly that block", 8, ruleLightTrustUpdate)
	register("C09", "R2", "K1", "adjacent / non-adjacent / backwards verification ensure their full check lists; Verify dispatches correctly; trust level bounded", 30, ruleLightVerifiers)
	register("C09", "R3", "K1+K8+K2", "witness cross-check: success only through a matching witness; exactly one verdict per witness; attack error only after evidence; divergence exits", 14, ruleLightDetector)
	register("C09", "R8", "K1+K11", "commit verification used by the light client (same rule as C07.R1)", 26, ruleCommitTally)
}

// ------------------------------------------------------------------ C09.R4
// The examination of a conflicting header may give up (return an error, which makes the caller drop the
// witness instead of reporting an attack) only for the reasons confirmed by reading: each error return's
// necessary branch conditions must come from this table. A strengthened or inverted sanity check shows up
// as a condition outside it.
func init() {
	register("C09", "R4", "K11", "divergence examination gives up only for the listed reasons (an extra or tightened failure condition lets a witness's conflicting header go unreported)", 6, func(c *Ctx) {
		w := c.W
		f := c.fn("light", "Client.examineConflictingHeaderAgainstTrace")
		if f == nil {
			return
		}
		fk := funcKey(f)
		idxRe := regexp.MustCompile(fwdIdx)
		isAllowed := func(s string) bool {
			s = idxRe.ReplaceAllString(s, "IDX")
			for _, re := range c09ExamineAllowed {
				if re.MatchString(s) {
					return true
				}
			}
			return false
		}
		dump := os.Getenv("TMVERIF_C09_DUMP") != ""
		n := 0
		for _, r := range returnsOf(f) {
			ret := r.(*ssa.Return)
			if isNilConst(ret.Results[2]) {
				continue
			}
			n++
			nec := w.necessaryAtoms(f, ret)
			var extra []string
			for _, s := range nec {
				if dump {
					fmt.Printf("C09DUMP %s %q\n", w.ipos(ret), s)
				}
				if !isAllowed(s) {
					extra = append(extra, s)
				}
			}
			c.Check(len(extra) == 0, fmt.Sprintf("%s :: failure exit #%d only for a listed reason", fk, n), w.ipos(ret), fmt.Sprintf("%d necessary conditions, all listed", len(nec)), "the examination also gives up when ["+strings.Join(extra, " ; ")+"]: the witness is then dropped and its conflicting header is never reported")
		}
		c.Check(n >= 5, fk+" :: failure exits found", w.pos(f.Pos()), fmt.Sprintf("%d", n), fmt.Sprintf("only %d failure exits", n))
	})
}

// confirmed by reading light/detector.go against the detection algorithm (ADR-047): the examination fails
// when the target is below the trusted height, on a forward-lunatic trace block whose time is *after* the
// target's, when the source cannot back its own intermediate headers (LightBlock / verifySkipping errors),
// when the first trace block differs from the source's, and when the trace is exhausted.
var c09ExamineAllowed = []*regexp.Regexp{
	regexp.MustCompile(`^targetBlock\.SignedHeader\.Header\.Height (<|>=|!=) trace\[(0|IDX)\]\.SignedHeader\.Header\.Height$`),
	regexp.MustCompile(`^IDX (<|>=) len\(trace\)$`),
	regexp.MustCompile(`^IDX (==|!=) 0$`),
	regexp.MustCompile(`^(true|false)\(trace\[IDX\]\.SignedHeader\.Header\.Time\.After\(targetBlock\.SignedHeader\.Header\.Time\)\)$`),
	regexp.MustCompile(`^nonnil\(c\.verifySkipping\(.*\)#1\)$`),
	regexp.MustCompile(`^nonnil\(source\.LightBlock\(ctx, trace\[IDX\]\.SignedHeader\.Header\.Height\)#1\)$`),
	regexp.MustCompile(`^.*\.SignedHeader\.Header\.Height != targetBlock\.SignedHeader\.Header\.Height$`),
	regexp.MustCompile(`^false\(bytes\.Equal\(.*\.Hash\(\), trace\[IDX\]\.SignedHeader\.Header\.Hash\(\)\)\)$`),
}

// ------------------------------------------------------------------ C09.R5
// (a) verifySkippingAgainstPrimary(trusted, target) answers for its own target: the caller trusts exactly the
// block it passed. Inside, every verification call must therefore verify that parameter, or a block
// shown hash-equal to it (the block a replacement primary returned after the old one was dropped).
// (b) a header needs a witness other than the primary: wherever a client is built from one provider list,
// the witnesses are a slice of the list that cannot contain the element chosen as primary.
func init() {
	register("C09", "R5", "K1+K3", "skipping verification succeeds only for its own target (or a block proven hash-equal to it); constructors never hand the primary over as one of its own witnesses", 5, func(c *Ctx) {
		w := c.W
		k := newKeyer()
		if f := c.fn("light", "Client.verifySkippingAgainstPrimary"); f != nil {
			fk := funcKey(f)
			target := "newLightBlock"
			n := 0
			for _, dc := range w.deepCallsTo(f, 2, "light#Client.verifySkipping", "light#Client.verifySkippingAgainstPrimary") {
				idx := 3 // verifySkipping(ctx, source, trusted, new, now)
				if callee := staticCallee(dc.call); callee != nil && callee.Name() == "verifySkippingAgainstPrimary" {
					idx = 2
				}
				arg := dc.arg(idx)
				n++
				if arg == target {
					c.OK(k.key(f, "verifies its own target"), w.ipos(dc.site), "target passed through")
					continue
				}
				A := q(arg)
				c.guards(f, dc.site, k.key(f, "verifies another block in place of the target"), 0,
					guardRe("that block has the target's hash", `^true\(bytes\.Equal\(`+A+`(\.SignedHeader\.Header)?\.Hash\(\), `+target+`(\.SignedHeader\.Header)?\.Hash\(\)\)\)$`))
			}
			c.Check(n >= 2, fk+" :: verification calls found", w.pos(f.Pos()), "verifySkipping and the retry", fmt.Sprintf("%d verification calls", n))
		}
		// (c) when a witness is promoted, the provider put (back) among the witnesses is the *old* primary: it
		// is read before c.primary is overwritten, and the promoted witness's index is handed to removal
		if f := c.fn("light", "Client.findNewPrimary"); f != nil {
			fk := funcKey(f)
			var primStores, wappends []ssa.Instruction
			for _, di := range w.deepInstrs(f, 1) {
				st, ok := di.in.(*ssa.Store)
				if !ok {
					continue
				}
				fa, ok := st.Addr.(*ssa.FieldAddr)
				if !ok {
					continue
				}
				switch fieldName(fa.X.Type(), fa.Field) {
				case "primary":
					primStores = append(primStores, st)
				case "witnesses":
					if strings.HasPrefix(w.expr(st.Val), "append(") && strings.Contains(w.expr(st.Val), "varargs") {
						wappends = append(wappends, st)
					}
				}
			}
			c.Check(len(primStores) >= 1, fk+" :: promotion found", w.pos(f.Pos()), "c.primary = witness", "no store to c.primary")
			// F54: the promoted witness must have left the witness list before it is the primary: the removal
			// can be refused (no witness would be left), and a provider that is primary *and* witness confirms
			// its own headers. The store to c.primary is reached only behind a successful removeWitnesses.
			for _, ps := range primStores {
				st := ps.(*ssa.Store)
				c.guards(st.Parent(), st, k.key(f, "promote a witness to primary"), 0, guardRe("the promoted witness (and the bad ones) were taken off the witness list", `^nil\(c\.removeWitnesses\(.*\)\)$`))
			}
			for _, ap := range wappends {
				bad := false
				for _, ps := range primStores {
					if ps.Parent() != ap.Parent() {
						continue
					}
					q := &pathQ{target: func(in ssa.Instruction) bool { return in == ap }}
					if hit, _ := q.reach(ps.Block(), instrIndex(ps)+1); hit != nil {
						bad = true
					}
				}
				c.Check(!bad, k.key(f, "the provider re-added as a witness is read before the primary is replaced"), w.ipos(ap), "append(witnesses, old primary) precedes c.primary = promoted", "c.primary is overwritten before it is appended to the witnesses: the promoted witness ends up in its own witness list and confirms itself")
			}
		}
		// (d) the client hands each of its configured limits to the verifier parameter of the same meaning
		// (two of them are time.Durations: the clock-drift bound must not be fed from the block-lag setting)
		role := map[string]string{"maxClockDrift": "maxClockDrift", "trustingPeriod": "trustingPeriod", "trustLevel": "trustLevel"}
		nRole := 0
		for _, s := range w.allCallsTo("light#Verify", "light#VerifyAdjacent", "light#VerifyNonAdjacent", "light#VerifyBackwards") {
			if !isMethodOf(s.Fn, "light", "Client") || strings.HasSuffix(w.Fset.Position(s.Instr.Pos()).Filename, "_test.go") {
				continue
			}
			call := s.Instr.(ssa.CallInstruction)
			callee := staticCallee(call)
			if callee == nil {
				continue
			}
			for i, p := range callee.Params {
				fld, ok := role[p.Name()]
				if !ok || i >= len(call.Common().Args) {
					continue
				}
				nRole++
				got := w.expr(call.Common().Args[i])
				c.Check(got == "c."+fld, k.key(s.Fn, "verifier parameter "+p.Name()+" is fed from the client's "+fld), w.ipos(call), "c."+fld, callee.Name()+"'s "+p.Name()+" is given "+got)
			}
		}
		c.Check(nRole >= 5, "light.Client :: verifier limit arguments found", "-", ">= 5", fmt.Sprintf("%d", nRole))
		for _, s := range w.allCallsTo("light#NewClient", "light#NewClientFromTrustedStore") {
			if strings.HasSuffix(w.Fset.Position(s.Instr.Pos()).Filename, "_test.go") {
				continue
			}
			call := s.Instr.(ssa.CallInstruction)
			var prim, wit ssa.Value
			for _, a := range call.Common().Args {
				switch a.Type().String() {
				case "github.com/tendermint/tendermint/light/provider.Provider":
					prim = a
				case "[]github.com/tendermint/tendermint/light/provider.Provider":
					wit = a
				}
			}
			if prim == nil || wit == nil {
				c.Undecided(k.key(s.Fn, "client construction"), w.ipos(s.Instr), "primary / witnesses arguments not identified")
				continue
			}
			key := k.key(transparentRoot(outermost(s.Fn)), "primary is not among the witnesses handed over")
			sl, isSlice := stripConv(wit).(*ssa.Slice)
			var ia *ssa.IndexAddr
			if ld, ok := stripConv(prim).(*ssa.UnOp); ok {
				ia, _ = ld.X.(*ssa.IndexAddr)
			}
			if !isSlice || ia == nil || w.expr(sl.X) != w.expr(ia.X) {
				c.OK(key, w.ipos(s.Instr), "primary and witnesses come from different sources")
				continue
			}
			disjoint := false
			if sl.Low == nil && sl.High != nil && w.expr(sl.High) == w.expr(ia.Index) {
				disjoint = true // list[:i] and list[i]
			}
			if sl.Low != nil {
				if lo, ok := constInt(sl.Low); ok {
					if i, ok2 := constInt(ia.Index); ok2 && i < lo {
						disjoint = true // list[i] and list[lo:], i < lo
					}
				}
			}
			c.Check(disjoint, key, w.ipos(s.Instr), "witnesses = list without the primary's position", "the witnesses "+w.expr(wit)+" include the primary "+w.expr(prim)+": its own reply then counts as a witness's confirmation")
		}
	})
}

// ------------------------------------------------------------------ C09.R10
// F59: what a provider hands to the light client was decoded from an RPC server's JSON and is the
// input of a liar as much as of an honest node; the requests to the witnesses run in goroutines nothing
// recovers. The provider turns malformed answers into ErrBadLightBlock, it does not panic on them:
//   - the height is read through the header pointer of a /commit answer only where that pointer was tested;
//   - ValidatorSetFromExistingValidators (the constructor for /validators answers) reaches the code written
//     for internally built sets — updateTotalVotingPower, which panics above the maximum, and
//     findPreviousProposer, which panics on a repeated member — only after bounding the sum and refusing
//     repeated addresses with error returns.
func init() {
	register("C09", "R10", "K1", "the HTTP provider and the validator-set constructor it uses refuse malformed answers with errors (nil header, total power above the maximum, repeated member)", 4, func(c *Ctx) {
		w := c.W
		if f := c.fn("light/provider/http", "http.LightBlock"); f != nil {
			fk := funcKey(f)
			n := 0
			ky := newKeyer()
			for _, b := range f.Blocks {
				for _, in := range b.Instrs {
					fa, ok := in.(*ssa.FieldAddr)
					if !ok {
						continue
					}
					ld, ok := fa.X.(*ssa.UnOp)
					if !ok || ld.Op != token.MUL || !strings.HasSuffix(w.expr(ld), "#0.Header") {
						continue
					}
					n++
					c.guards(f, fa, ky.key(f, "read "+fieldName(fa.X.Type(), fa.Field)+" through the answer's header"), 0, guardNonNil("the answer carries a header", ld))
				}
			}
			c.Check(n >= 1, fk+" :: reads through the header found", w.pos(f.Pos()), ">= 1", fmt.Sprintf("%d", n))
		}
		if f := c.fn("types", "ValidatorSetFromExistingValidators"); f != nil {
			fk := funcKey(f)
			max := c.mustConst("types", "MaxTotalVotingPower")
			var bound, dup *ssa.BasicBlock
			for _, ea := range condEdges(f) {
				succ := ea.E.From.Succs[ea.E.Succ]
				switch {
				case ea.A.Kind == "cmp" && (ea.A.Op == token.GTR || ea.A.Op == token.LSS):
					// sum > max, or the same comparison written max < sum
					big, small := ea.A.X, ea.A.Y
					if ea.A.Op == token.LSS {
						big, small = small, big
					}
					if k, isC := constInt(small); isC && k == max {
						if call := valueCall(big); call != nil && w.isCall(call, "types#safeAddClip") && edgeOnlyFails(w, f, succ) {
							bound = ea.E.From
						}
					}
				case ea.A.Kind == "true":
					// `_, ok := seen[string(val.Address)]; ok` → error
					if ex, isEx := stripConv(ea.A.V).(*ssa.Extract); isEx && ex.Index == 1 {
						if lk, isLk := ex.Tuple.(*ssa.Lookup); isLk && strings.Contains(w.expr(lk.Index), ".Address") && edgeOnlyFails(w, f, succ) {
							dup = ea.E.From
						}
					}
				}
			}
			after := func(test *ssa.BasicBlock, call ssa.CallInstruction) bool {
				if test == nil {
					return false
				}
				if test.Dominates(call.Block()) {
					return true
				}
				for d := test; d != nil; d = d.Idom() {
					if isLoopHead(d) && d.Dominates(call.Block()) && !loopBlocks(d)[call.Block()] {
						return true
					}
				}
				return false
			}
			n := 0
			for _, call := range w.callsTo(f, "types#ValidatorSet.updateTotalVotingPower", "types#ValidatorSet.TotalVotingPower") {
				n++
				c.Check(after(bound, call), fk+" :: the panicking total is computed only after the sum was bounded with an error return", w.ipos(call), "sum > MaxTotalVotingPower → error, first", "the total (which panics above the maximum) is computed over members from an RPC answer without the sum having been checked")
			}
			for _, call := range w.callsTo(f, "types#ValidatorSet.findPreviousProposer") {
				n++
				c.Check(after(dup, call), fk+" :: members are compared only after repeated addresses were refused with an error", w.ipos(call), "address seen before → error, first", "findPreviousProposer (which panics on identical validators) runs over a list that may name a validator twice")
			}
			c.Check(n == 2, fk+" :: total and proposer computations found", w.pos(f.Pos()), "2", fmt.Sprintf("%d", n))
		}
	})
}

// ------------------------------------------------------------------ C09.R6
// F53: backwards verification proves a chain of hash links from a trusted header down to *some* header of the
// target height — one it has just fetched. The caller stores the light block it had before. The step is only
// a verification of that block if the two are the same header: every successful exit of `backwards` lies
// behind the comparison of the last linked header's hash with the target's, and the retry with another primary
// is entered only with a target that is hash-equal to the original one.
func init() {
	register("C09", "R6", "K1", "backwards verification succeeds only if the header reached by the hash links is the header it was asked to verify", 2, func(c *Ctx) {
		w := c.W
		f := c.fn("light", "Client.backwards")
		if f == nil {
			return
		}
		fk := funcKey(f)
		target := paramName(f, 3)
		nOK, nRetry := 0, 0
		for _, r := range returnsOf(f) {
			ret := r.(*ssa.Return)
			if len(ret.Results) != 1 {
				continue
			}
			if isNilConst(ret.Results[0]) {
				nOK++
				c.guards(f, ret, fk+" :: report success", 0, guardRe("the linked header of the target height is the target header", `^true\(bytes\.Equal\(.*\.Hash\(\), `+q(target)+`\.Hash\(\)\)\)$`))
				continue
			}
			if call := valueCall(ret.Results[0]); call != nil && staticCallee(call) == f {
				nRetry++
				nt := w.expr(callArgs(call)[2])
				c.guards(f, ret, fk+" :: retry with another primary", 0, guardRe("the new primary's header of the target height is hash-equal to the target", `^true\(bytes\.Equal\(`+regexp.QuoteMeta(nt)+`\.Hash\(\), `+q(target)+`\.Hash\(\)\)\)$`))
			}
		}
		c.Check(nOK >= 1, fk+" :: success exit found", w.pos(f.Pos()), ">= 1", fmt.Sprintf("%d", nOK))
		c.Check(nRetry <= 1, fk+" :: at most one retry site", w.pos(f.Pos()), "<= 1", fmt.Sprintf("%d", nRetry))
	})
}
