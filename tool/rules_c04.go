package main

import (
	"fmt"
	"regexp"
	"strings"
	"syscall"

	"golang.org/x/tools/go/ssa"
)

// errPassSucc returns the successor block taken when the call's error result is nil (or nil if the
// call's error is not branched on).
func errPassSucc(call ssa.CallInstruction) *ssa.BasicBlock {
	f := call.Parent()
	for _, ea := range condEdges(f) {
		if ea.A.Kind == "nil" {
			if c := atomCall(ea.A); c != nil && c == call {
				return ea.E.From.Succs[ea.E.Succ]
			}
		}
	}
	return nil
}

func init() {
	const sign = "crypto#PrivKey.Sign"
	const wfa = "libs/tempfile#WriteFileAtomic"

	// ------------------------------------------------------------------ C04.R1
	register("C04", "R1", "K2", "persist-before-release: after signing, the sign state reaches WriteFileAtomic (panic on failure) before the signature is stored in the message or returned", 8, func(c *Ctx) {
		w := c.W
		k := newKeyer()
		persist := w.callPredDeep(4, wfa)
		n := 0
		for _, f := range w.methodsOf("privval", "FilePV") {
			for _, call := range w.callsTo(f, sign) {
				n++
				key := k.key(f, "after PrivKey.Sign")
				succ := errPassSucc(call)
				if !c.Check(succ != nil, key+" error is checked", w.ipos(call), "signing error is branched on", "the error of PrivKey.Sign is not checked") {
					continue
				}
				sigExpr := w.expr(call.(ssa.Value)) + "#0"
				release := func(in ssa.Instruction) bool {
					st, ok := in.(*ssa.Store)
					return ok && w.expr(st.Val) == sigExpr && !strings.Contains(w.expr(st.Addr), "LastSignState")
				}
				q := &pathQ{kill: persist, target: func(in ssa.Instruction) bool { return isReturn(in) || release(in) }}
				bad, path := q.reach(succ, 0)
				c.Check(bad == nil, key+" persisted before release", w.ipos(call), "every path from a successful Sign reaches the atomic state-file write before the signature leaves the function",
					"the signature can be released before the sign state is persisted: "+pathStr(w, path))
				// the persisted record carries exactly this H/R/S, sign bytes and signature
				for _, sv := range w.callsTo(f, "privval#FilePV.saveSigned") {
					a := callArgs(sv)
					okArgs := len(a) == 5 && strings.HasSuffix(w.expr(a[0]), ".Height") && strings.HasSuffix(w.expr(a[1]), ".Round") &&
						w.expr(a[3]) == w.expr(callArgs(call)[0]) && w.expr(a[4]) == sigExpr
					// step argument equals the step CheckHRS was asked about
					for _, ch := range w.callsTo(f, "privval#FilePVLastSignState.CheckHRS") {
						if w.expr(callArgs(ch)[2]) != w.expr(a[2]) || w.expr(callArgs(ch)[0]) != w.expr(a[0]) || w.expr(callArgs(ch)[1]) != w.expr(a[1]) {
							okArgs = false
						}
					}
					c.Check(okArgs, key+" persisted record = (H,R,S,signBytes,sig) just checked and signed", w.ipos(sv), "saved state matches the checked HRS and the produced signature", "saved state differs from what was checked/signed: "+w.callStr(sv))
				}
			}
		}
		if n < 2 {
			c.Undecided("signing functions", "-", fmt.Sprintf("expected 2 PrivKey.Sign sites in privval.FilePV, found %d", n))
		}
		// the state writer stores all five fields before saving, and Save panics unless the write succeeded
		for _, f := range w.methodsOf("privval", "FilePV") {
			fields := map[string]bool{}
			var stores []*ssa.Store
			for _, fs := range w.fieldStoresIn(f, "privval", "FilePVLastSignState", "*") {
				fields[fieldName(fs.Addr.X.Type(), fs.Addr.Field)] = true
				stores = append(stores, fs.Store)
			}
			if !fields["Signature"] || isResetLike(f) {
				continue
			}
			key := funcKey(f) + " :: writes LastSignState"
			for _, fld := range []string{"Height", "Round", "Step", "Signature", "SignBytes"} {
				c.Check(fields[fld], key+" field "+fld, w.pos(f.Pos()), "field updated", "LastSignState."+fld+" is not updated together with the signature")
			}
			for _, st := range stores {
				ok, _, path := mustFollow(st, w.callPredDeep(3, wfa), nil)
				if !ok {
					c.Fail(key+" then saved", w.ipos(st), "a return is reachable after updating LastSignState without persisting it: "+pathStr(w, path))
					break
				}
			}
			c.OK(key+" then saved (all stores)", w.pos(f.Pos()), "every update is followed by the atomic write")
		}
		if f := c.fn("privval", "FilePVLastSignState.Save"); f != nil {
			ok := c.ge().ensures(f, guardCallOK("WriteFileAtomic = nil", wfa), 1)
			c.Check(ok, "privval.FilePVLastSignState.Save returns only after a successful atomic write", w.pos(f.Pos()), "every return is behind WriteFileAtomic()=nil (else panic)", "Save can return although WriteFileAtomic failed or was skipped")
			for _, call := range w.callsTo(f, wfa) {
				a := callArgs(call)
				c.Check(regexp.MustCompile(`\.filePath$`).MatchString(w.expr(a[0])) && regexp.MustCompile(`Marshal\w*\(\w+,`).MatchString(w.expr(a[1])), "privval.FilePVLastSignState.Save writes its own marshalled state to its own path", w.ipos(call), w.callStr(call), "unexpected arguments: "+w.callStr(call))
			}
		}
	})

	// ------------------------------------------------------------------ C04.R2
	register("C04", "R2", "K2+K3", "atomic replace: the target is only ever replaced by rename of a fully written temp file", 5, func(c *Ctx) {
		w := c.W
		f := c.fn("libs/tempfile", "WriteFileAtomic")
		if f == nil {
			return
		}
		renames := w.callsTo(f, "os#Rename")
		c.Check(len(renames) == 1, "libs/tempfile.WriteFileAtomic single rename", w.pos(f.Pos()), "one os.Rename", fmt.Sprintf("%d os.Rename calls", len(renames)))
		for _, r := range renames {
			a := callArgs(r)
			// the data is on disk before the rename publishes it: the temp file is opened O_SYNC (every write is
			// synchronous) or synced explicitly before the rename
			syncOpen := false
			for _, oc := range w.callsTo(f, "os#OpenFile") {
				if v, ok := constInt(callArgs(oc)[1]); ok && v&int64(syscall.O_SYNC) == int64(syscall.O_SYNC) {
					syncOpen = true
				}
			}
			if !syncOpen {
				okSync, _ := mustPrecede(f, r, w.callPred("os#File.Sync"))
				syncOpen = okSync
			}
			c.Check(syncOpen, "libs/tempfile.WriteFileAtomic makes the data durable before the rename", w.ipos(r), "temp file opened O_SYNC (or synced before the rename)", "the temp file is neither opened O_SYNC nor synced before it is renamed over the target: after a power loss the sign state on disk can be older than a signature already released")
			c.Check(w.expr(a[1]) == paramName(f, 0), "libs/tempfile.WriteFileAtomic rename target is the requested file", w.ipos(r), "rename(tmp, filename)", "rename target is "+w.expr(a[1]))
			c.Check(strings.HasSuffix(w.expr(a[0]), ".Name()") && strings.Contains(w.expr(a[0]), "OpenFile"), "libs/tempfile.WriteFileAtomic rename source is the temp file", w.ipos(r), "source is the temp file's name", "rename source is "+w.expr(a[0]))
			c.guards(f, r, "libs/tempfile.WriteFileAtomic rename", 0,
				guardRe("write succeeded", `^nil\(.*\.Write\(`+q(paramName(f, 1))+`\)#1\)$`),
				guardCmp("write was complete", `.*\.Write\(`+q(paramName(f, 1))+`\)#0`, ">=", `len\(`+q(paramName(f, 1))+`\)`))
		}
		// the target path is never opened or written directly
		direct := 0
		for _, call := range callInstrs(f) {
			d, _ := describeCallee(call)
			if d.Pkg == "os" && (d.Name == "OpenFile" || d.Name == "Create" || d.Name == "WriteFile") {
				if w.expr(callArgs(call)[0]) == paramName(f, 0) {
					direct++
				}
			}
		}
		c.Check(direct == 0, "libs/tempfile.WriteFileAtomic never opens the target directly", w.pos(f.Pos()), "target only touched by rename", "the target file is opened/written in place")
		// nothing destructive is ever done to the target itself (no remove/truncate/rename-away): a crash must
		// always find either the old or the new complete file
		destructive := 0
		for _, call := range callInstrs(f) {
			d, _ := describeCallee(call)
			if d.Pkg == "os" && (d.Name == "Remove" || d.Name == "RemoveAll" || d.Name == "Truncate" || d.Name == "Rename") {
				if a := callArgs(call); len(a) > 0 && w.expr(a[0]) == paramName(f, 0) {
					destructive++
				}
			}
		}
		c.Check(destructive == 0, "libs/tempfile.WriteFileAtomic never removes or truncates the target", w.pos(f.Pos()), "target is only replaced by rename", "the target file is removed/truncated/renamed away before the replacement: a crash in between leaves no state file")
		// the temp file is created exclusively in the target's directory
		for _, call := range w.callsTo(f, "os#OpenFile") {
			flags, _ := constInt(callArgs(call)[1])
			const oExcl, oCreate = 0x80, 0x40
			c.Check(flags&oExcl != 0 && flags&oCreate != 0, "libs/tempfile.WriteFileAtomic temp file is O_CREATE|O_EXCL", w.ipos(call), "exclusive create", fmt.Sprintf("open flags %#x", flags))
		}
	})

	// ------------------------------------------------------------------ C04.R7
	register("C04", "R7", "K1", "restart: a validator loaded with state gets exactly what the state file holds, or the process stops (missing/corrupt state never becomes empty state)", 4, func(c *Ctx) {
		w := c.W
		n := 0
		for _, f := range w.FuncsInPkg("privval") {
			var stores []FieldStore
			for _, fs := range w.fieldStoresIn(f, "privval", "FilePV", "LastSignState") {
				if strings.HasPrefix(w.expr(fs.Store.Val), "&pvState") || !strings.Contains(w.expr(fs.Store.Val), "complit") {
					stores = append(stores, fs)
				}
			}
			reads := w.callsTo(f, "os#ReadFile")
			if len(stores) == 0 || len(reads) == 0 {
				continue
			}
			n++
			fk := funcKey(f)
			for _, b := range f.Blocks {
				ret, ok := b.Instrs[len(b.Instrs)-1].(*ssa.Return)
				if !ok {
					continue
				}
				stateRead := `os\.ReadFile\(stateFilePath\)`
				c.guards(f, ret, fk+" :: return loaded validator", 0,
					guardAny("state file was read (or state loading not requested)", guardRe("a", `^nil\(`+stateRead+`#1\)$`), guardRe("b", `^false\(loadState\)$`)),
					guardAny("state file was decoded (or state loading not requested)", guardRe("a", `^nil\(.*Unmarshal\(`+stateRead+`#0, .*\)\)$`), guardRe("b", `^false\(loadState\)$`)),
					guardRe("key file was read", `^nil\(os\.ReadFile\(keyFilePath\)#1\)$`))
			}
			// callers that promise loaded state pass loadState=true
			for _, cs := range w.callersOf(f) {
				if strings.Contains(cs.Parent().Name(), "EmptyState") {
					continue
				}
				a := cs.Common().Args
				v, isC := boolConst(a[len(a)-1])
				c.Check(isC && v, funcKey(cs.Parent())+" :: loads the sign state", w.ipos(cs), "loadState=true", "a loader that should restore the last sign state does not request it")
			}
		}
		if n == 0 {
			c.Undecided("sign-state loader", "-", "no function in privval reads files and fills FilePV.LastSignState")
		}
		// the node and the signer commands load the validator with its state
		for _, s := range w.allCallsTo("privval#LoadFilePVEmptyState") {
			c.Check(strings.HasPrefix(relPkg(s.Fn), "cmd/") || relPkg(s.Fn) == "privval", funcKey(s.Fn)+" :: LoadFilePVEmptyState caller", w.ipos(s.Instr), "only operator commands load a validator without its sign state", "a validator is loaded WITHOUT its last sign state outside operator commands")
		}
	})

	// ------------------------------------------------------------------ C04.R3
	register("C04", "R3", "K1", "own messages are fsynced to the WAL before they are acted on", 2, func(c *Ctx) {
		w := c.W
		k := newKeyer()
		n := 0
		for _, f := range w.methodsOf("consensus", "State") {
			for _, call := range w.callsTo(f, "consensus#State.handleMsg") {
				arg := callArgs(call)[0]
				src := w.expr(arg)
				// the message variable: find the store that dominates the call and is closest to it
				val := src
				if al := allocOf(arg); al != nil {
					var best *ssa.Store
					for _, r := range *al.Referrers() {
						if st, ok := r.(*ssa.Store); ok && st.Addr == al && st.Block().Dominates(call.Block()) {
							if best == nil || best.Block().Dominates(st.Block()) {
								best = st
							}
						}
					}
					if best != nil {
						val = w.expr(best.Val)
					}
				}
				internal := false
				if m := regexp.MustCompile(`^select#(\d+)$`).FindStringSubmatch(val); m != nil {
					var sel *ssa.Select
					for _, b := range f.Blocks {
						for _, in := range b.Instrs {
							if s, ok := in.(*ssa.Select); ok {
								sel = s
							}
						}
					}
					if sel != nil {
						idx := int(m[1][0]-'0') - 2
						ri := 0
						for _, st := range sel.States {
							if st.Dir == 2 /* types.RecvOnly */ {
								if ri == idx {
									internal = strings.HasSuffix(w.expr(st.Chan), ".internalMsgQueue")
								}
								ri++
							}
						}
					}
				}
				if !internal {
					// a peer's message is handed to the WAL (buffered: it is flushed before the validator signs,
					// C04.R4) before it is acted on — acting first can produce a lock and a signature that the
					// log of a crashed node does not explain
					if regexp.MustCompile(`^select#\d+$`).MatchString(val) {
						rx := regexp.MustCompile(`\.wal\.Write(Sync)?\((` + q(src) + `|` + q(val) + `)\)$`)
						okW, _ := mustPrecede(f, call, func(in ssa.Instruction) bool {
							cc, isCall := in.(ssa.CallInstruction)
							return isCall && rx.MatchString(w.callStr(cc))
						})
						c.Check(okW, k.key(f, "handle a peer's message"), w.ipos(call), "wal.Write(msg) precedes handleMsg(msg)", "a peer's message is acted on before it is written to the WAL")
					}
					continue
				}
				n++
				key := k.key(f, "handle own message")
				c.guards(f, call, key, 0, guardRe("WriteSync(msg) = nil", `^nil\(.*\.wal\.WriteSync\((`+q(src)+`|`+q(val)+`)\)\)$`))
			}
		}
		if n == 0 {
			c.Undecided("internal message handling", "-", "no handleMsg call on a message received from internalMsgQueue was found")
		}
		// every producer of internal messages goes through the queue (no direct handleMsg of own votes/proposals)
		for _, s := range w.allCallsTo("consensus#State.handleMsg") {
			o := outermost(s.Fn)
			hasSelect := false
			for _, b := range o.Blocks {
				for _, in := range b.Instrs {
					if _, ok := in.(*ssa.Select); ok {
						hasSelect = true
					}
				}
			}
			isReplay := strings.Contains(strings.ToLower(o.Name()), "replay") || strings.Contains(w.Fset.Position(o.Pos()).Filename, "replay")
			c.Check(hasSelect || isReplay, k.key(s.Fn, "handleMsg caller"), w.ipos(s.Instr), "handleMsg is called from the receive loop or WAL replay", "handleMsg is called outside the receive loop: messages handled there bypass the WAL")
		}
	})

	// ------------------------------------------------------------------ C04.R4
	register("C04", "R4", "K2", "the WAL is flushed and synced before the validator key signs", 2, func(c *Ctx) {
		w := c.W
		k := newKeyer()
		flush := "consensus#WAL.FlushAndSync"
		for _, s := range w.allCallsTo("types#PrivValidator.SignVote") {
			if relPkg(s.Fn) != "consensus" {
				continue
			}
			c.guards(s.Fn, s.Instr, k.key(s.Fn, "SignVote"), 1, guardCallOK("WAL.FlushAndSync() = nil", flush))
		}
		for _, s := range w.allCallsTo("types#PrivValidator.SignProposal") {
			if relPkg(s.Fn) != "consensus" {
				continue
			}
			ok, path := mustPrecede(s.Fn, s.Instr, w.callPred(flush))
			c.Check(ok, k.key(s.Fn, "SignProposal")+" after WAL.FlushAndSync", w.ipos(s.Instr), "FlushAndSync precedes SignProposal on every path", "SignProposal reachable without a preceding WAL.FlushAndSync: "+pathStr(w, path))
		}
	})

	// ------------------------------------------------------------------ C04.R5
	register("C04", "R5", "K3", "only the signer writes the last-sign-state; only key management reads the private key", 10, func(c *Ctx) {
		w := c.W
		var sites []Site
		for _, fs := range w.fieldStores("privval", "FilePVLastSignState", "*") {
			if fieldName(fs.Addr.X.Type(), fs.Addr.Field) == "filePath" {
				continue
			}
			if rootIsFresh(fs.Addr) {
				continue // initialisation of a newly allocated object (constructor / loader)
			}
			sites = append(sites, Site{fs.Fn, fs.Store})
		}
		c.onlyIn("store to FilePVLastSignState field", sites, func(f *ssa.Function) (bool, string) {
			if relPkg(f) != "privval" {
				return false, ""
			}
			o := outermost(f)
			may := w.mayCallDeep(3, "privval#FilePVLastSignState.Save")
			for _, cc := range callInstrs(o) {
				if may(cc) {
					return true, "persists the state it writes"
				}
			}
			return false, ""
		})
		// whole-struct replacement of LastSignState
		var whole []Site
		for _, fs := range w.fieldStores("privval", "FilePV", "LastSignState") {
			whole = append(whole, Site{fs.Fn, fs.Store})
		}
		c.onlyIn("replacement of FilePV.LastSignState", whole, func(f *ssa.Function) (bool, string) {
			return relPkg(f) == "privval", "privval package"
		})
		// Reset callers
		c.onlyIn("call of FilePV.Reset", w.allCallsTo("privval#FilePV.Reset"), func(f *ssa.Function) (bool, string) {
			if strings.HasPrefix(relPkg(f), "cmd/") || relPkg(f) == "privval" {
				return true, "operator command"
			}
			return false, ""
		})
		// readers of the private key
		var reads []Site
		for _, f := range w.Funcs {
			for _, in := range w.fieldReadsIn(f, "privval", "FilePVKey", "PrivKey") {
				reads = append(reads, Site{f, in})
			}
		}
		c.onlyIn("read of FilePVKey.PrivKey", reads, func(f *ssa.Function) (bool, string) {
			if relPkg(f) == "privval" {
				return true, "privval package"
			}
			if strings.HasPrefix(relPkg(f), "cmd/") || strings.HasPrefix(relPkg(f), "tools/") {
				return true, "operator command / tool"
			}
			return false, ""
		})
		// inside privval, Sign on the validator key happens only in functions that run CheckHRS first (C02.R5)
		c.onlyIn("PrivKey.Sign in privval", filterSites(w.allCallsTo(sign), func(s Site) bool {
			return relPkg(s.Fn) == "privval" && !strings.Contains(w.Fset.Position(s.Fn.Pos()).Filename, "signer")
		}), func(f *ssa.Function) (bool, string) {
			if len(w.callsTo(f, "privval#FilePVLastSignState.CheckHRS")) > 0 {
				return true, "double-sign-checked signing function"
			}
			return false, ""
		})
	})

	// ------------------------------------------------------------------ C04.R6
	register("C04", "R6", "K2", "WriteSync reports success only after write, flush and fsync succeeded", 4, func(c *Ctx) {
		w := c.W
		if f := c.fn("consensus", "BaseWAL.WriteSync"); f != nil {
			for _, g := range []Guard{guardCallOK("Write(msg) = nil", "consensus#BaseWAL.Write"), guardCallOK("FlushAndSync() = nil", "consensus#BaseWAL.FlushAndSync")} {
				// the nil-receiver early return is the documented no-op WAL
				ok := c.ge().ensures(f, guardAny(g.Name, g, guardRe("nil wal", `^nil\(wal\)$`)), 1)
				c.Check(ok, "consensus.BaseWAL.WriteSync ensures "+g.Name, w.pos(f.Pos()), "nil is returned only behind it", "WriteSync can return nil without "+g.Name)
			}
		}
		if f := c.fn("consensus", "BaseWAL.FlushAndSync"); f != nil {
			c.Check(w.alwaysCalls(f, 0, "libs/autofile#Group.FlushAndSync"), "consensus.BaseWAL.FlushAndSync delegates to the group", w.pos(f.Pos()), "calls Group.FlushAndSync", "does not reach Group.FlushAndSync on every path")
		}
		if f := c.fn("libs/autofile", "Group.FlushAndSync"); f != nil {
			// the calls may sit in f or in a helper of the group introduced later (also one shared with RotateFile)
			syncs := w.deepCallsTo(f, 2, "libs/autofile#AutoFile.Sync")
			c.Check(len(syncs) >= 1, "libs/autofile.Group.FlushAndSync syncs the head file", w.pos(f.Pos()), "Head.Sync called", "no Head.Sync call")
			for _, s := range syncs {
				c.guards(s.call.Parent(), s.call, "libs/autofile.Group.FlushAndSync Head.Sync", 0, guardCallOK("headBuf.Flush() = nil", "bufio#Writer.Flush"))
			}
			// success only if both succeeded
			okAll := c.ge().ensures(f, guardCallOK("sync ok", "libs/autofile#AutoFile.Sync"), 2) && c.ge().ensures(f, guardCallOK("flush ok", "bufio#Writer.Flush"), 2)
			c.Check(okAll, "libs/autofile.Group.FlushAndSync result", w.pos(f.Pos()), "a nil result implies headBuf.Flush() and Head.Sync() returned nil", "a nil result is possible without a successful flush and fsync")
		}
		if f := c.fn("libs/autofile", "AutoFile.Sync"); f != nil {
			c.Check(len(w.callsTo(f, "os#File.Sync")) == 1, "libs/autofile.AutoFile.Sync calls fsync", w.pos(f.Pos()), "os.File.Sync called", "os.File.Sync not called")
		}
	})
}

func retVal(in ssa.Instruction) ssa.Value {
	if r, ok := in.(*ssa.Return); ok && len(r.Results) > 0 {
		return r.Results[len(r.Results)-1]
	}
	if st, ok := in.(*ssa.Store); ok {
		return st.Val
	}
	return nil
}

func filterSites(in []Site, keep func(Site) bool) []Site {
	var out []Site
	for _, s := range in {
		if keep(s) {
			out = append(out, s)
		}
	}
	return out
}

// isResetLike: the function zeroes the state (operator reset), identified by storing constant zero height.
func isResetLike(f *ssa.Function) bool {
	for _, b := range f.Blocks {
		for _, in := range b.Instrs {
			if st, ok := in.(*ssa.Store); ok {
				if fa, ok := st.Addr.(*ssa.FieldAddr); ok && fieldName(fa.X.Type(), fa.Field) == "Height" {
					if v, ok := constInt(st.Val); ok && v == 0 {
						return true
					}
				}
			}
		}
	}
	return false
}

// rootIsFresh: the address is rooted at an object allocated in the same function (composite literal / new).
func rootIsFresh(v ssa.Value) bool {
	for i := 0; i < 8; i++ {
		switch x := v.(type) {
		case *ssa.FieldAddr:
			v = x.X
		case *ssa.IndexAddr:
			v = x.X
		case *ssa.Alloc:
			return true
		default:
			return false
		}
	}
	return false
}
