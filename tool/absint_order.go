package main

// A small abstract evaluator for code that touches two records only through comparisons of their
// corresponding fields (and of fields with constants): the outcome of such code is a function of the
// finite set of orderings of the field pairs, so it can be decided exhaustively without running anything.
// Used by C03.R7 (the timeout ticker's stale-tick filter), where it makes the rule independent of how the
// comparison is written (nested ifs, switch, a predicate helper, returned comparisons, && / ||).

import (
	"fmt"
	"go/constant"
	"go/token"
	"go/types"

	"golang.org/x/tools/go/ssa"
)

// ordCase fixes, per field, the sign of (new.F - old.F), and per field the sign of old.F relative to 0.
type ordCase struct {
	diff    map[string]int // field -> -1, 0, +1  (new - old)
	oldSign map[string]int // field -> sign of old.F (only fields compared with a constant 0 need it)
}

type ordEval struct {
	w       *World
	cs      ordCase
	classOf func(v ssa.Value, fr *ordFrame) (side string, field string, ok bool)
	extra   func(v ssa.Value, fr *ordFrame) (val bool, ok bool) // atoms outside the ordering domain (e.g. nil tests fixed by the case)
	steps   int
}

type ordFrame struct {
	fn     *ssa.Function
	params map[*ssa.Parameter]string // parameter -> "new" / "old"
}

type ordOutcome struct {
	kind string // "call:<name>", "block", "return", "undecided"
	ret  bool   // for kind == "return" of a bool function
	why  string
}

// cmpInts decides `a op b` for integers given sign(a-b).
func cmpBySign(op token.Token, sign int) bool {
	switch op {
	case token.LSS:
		return sign < 0
	case token.LEQ:
		return sign <= 0
	case token.GTR:
		return sign > 0
	case token.GEQ:
		return sign >= 0
	case token.EQL:
		return sign == 0
	case token.NEQ:
		return sign != 0
	}
	return false
}

// evalBool evaluates a boolean SSA value in the abstract case; pred is the block we entered v's block from.
func (e *ordEval) evalBool(v ssa.Value, fr *ordFrame, pred *ssa.BasicBlock) (bool, string) {
	switch x := v.(type) {
	case *ssa.Const:
		if x.Value != nil && x.Value.Kind() == constant.Bool {
			return constant.BoolVal(x.Value), ""
		}
	case *ssa.UnOp:
		if x.Op == token.NOT {
			b, why := e.evalBool(x.X, fr, pred)
			return !b, why
		}
	case *ssa.Phi:
		for i, p := range x.Block().Preds {
			if p == pred {
				return e.evalBool(x.Edges[i], fr, nil)
			}
		}
		return false, "phi without a known predecessor"
	case *ssa.BinOp:
		ls, lf, lok := e.classOf(x.X, fr)
		rs, rf, rok := e.classOf(x.Y, fr)
		switch {
		case lok && rok && lf == rf && ls != rs:
			sign := e.cs.diff[lf]
			if ls == "old" { // old op new  ==  new flip(op) old
				return cmpBySign(flipOp(x.Op), sign), ""
			}
			return cmpBySign(x.Op, sign), ""
		case lok && !rok:
			if k, isC := constInt(x.Y); isC && k == 0 && ls == "old" {
				return cmpBySign(x.Op, e.cs.oldSign[lf]), ""
			}
		case rok && !lok:
			if k, isC := constInt(x.X); isC && k == 0 && rs == "old" {
				return cmpBySign(flipOp(x.Op), e.cs.oldSign[rf]), ""
			}
		}
		if e.extra != nil {
			if val, ok := e.extra(v, fr); ok {
				return val, ""
			}
		}
		return false, "comparison outside the abstract domain: " + e.w.expr(v)
	case *ssa.Call:
		if h := x.Call.StaticCallee(); h != nil && h.Blocks != nil {
			if b, ok := h.Signature.Results().At(0).Type().Underlying().(*types.Basic); ok && h.Signature.Results().Len() == 1 && b.Kind() == types.Bool {
				nfr := &ordFrame{fn: h, params: map[*ssa.Parameter]string{}}
				for i, p := range h.Params {
					if i < len(x.Call.Args) {
						if side, ok := e.sideOfRecord(x.Call.Args[i], fr); ok {
							nfr.params[p] = side
						}
					}
				}
				out := e.run(h.Blocks[0], nil, nfr, nil)
				if out.kind == "return" {
					return out.ret, ""
				}
				return false, "helper " + h.Name() + ": " + out.why
			}
		}
	}
	if e.extra != nil {
		if val, ok := e.extra(v, fr); ok {
			return val, ""
		}
	}
	return false, "value outside the abstract domain: " + e.w.expr(v)
}

// sideOfRecord classifies a whole-record value (argument of a helper call).
func (e *ordEval) sideOfRecord(v ssa.Value, fr *ordFrame) (string, bool) {
	side, _, ok := e.classOf(v, fr)
	return side, ok
}

// run walks the CFG from block b (entered from pred), deciding every If abstractly, until a stop
// predicate fires (stopInstr / stopBlock), a Return is reached, or something cannot be decided.
func (e *ordEval) run(b *ssa.BasicBlock, pred *ssa.BasicBlock, fr *ordFrame, stop func(in ssa.Instruction, blk *ssa.BasicBlock, entering bool) string) ordOutcome {
	for {
		e.steps++
		if e.steps > 400 {
			return ordOutcome{kind: "undecided", why: "no decision within the step bound (loop?)"}
		}
		if stop != nil {
			if k := stop(nil, b, true); k != "" {
				return ordOutcome{kind: k}
			}
		}
		for _, in := range b.Instrs {
			if stop != nil {
				if k := stop(in, b, false); k != "" {
					return ordOutcome{kind: k}
				}
			}
			switch x := in.(type) {
			case *ssa.Return:
				if len(x.Results) == 1 {
					v, why := e.evalBool(x.Results[0], fr, pred)
					if why != "" {
						return ordOutcome{kind: "undecided", why: why}
					}
					return ordOutcome{kind: "return", ret: v}
				}
				return ordOutcome{kind: "return"}
			case *ssa.If:
				v, why := e.evalBool(x.Cond, fr, pred)
				if why != "" {
					return ordOutcome{kind: "undecided", why: why}
				}
				nxt := b.Succs[1]
				if v {
					nxt = b.Succs[0]
				}
				pred, b = b, nxt
				goto next
			case *ssa.Jump:
				pred, b = b, b.Succs[0]
				goto next
			case *ssa.Panic:
				return ordOutcome{kind: "panic"}
			}
		}
		return ordOutcome{kind: "undecided", why: fmt.Sprintf("block %d of %s has no terminator handled", b.Index, fr.fn.Name())}
	next:
	}
}
