package main

import (
	_ "embed"
	"encoding/json"
	"os"
	"sort"
	"sync"

	"golang.org/x/tools/go/ssa"
)

// Frozen reference names. Rule patterns are written against canonical renderings of SSA values, and
// those renderings mention parameters, receivers, captured variables, address-taken locals and loop
// variables by name. A rename is behaviour-preserving, so names must not matter: the names used in
// renderings are the ones each function had when the rules were confirmed (names_frozen.json,
// regenerated with `tmverif -gen-names`), looked up positionally — parameter i, free variable i, the
// k-th named local / loop variable of a given type — whenever the current function still has the same
// shape (same arity; same sequence of local types). Otherwise the current names are used.

type frozenFn struct {
	Params []string    `json:"p,omitempty"`
	Frees  []string    `json:"f,omitempty"`
	Allocs [][2]string `json:"a,omitempty"` // [type, name] in instruction order
	Phis   [][2]string `json:"h,omitempty"`
}

//go:embed names_frozen.json
var frozenJSON []byte

var (
	frozenOnce  sync.Once
	frozenTable map[string]*frozenFn
)

var orphanNameCache sync.Map

type fnNames struct {
	params, frees []string
	allocs        map[*ssa.Alloc]string
	phis          map[*ssa.Phi]string
}

func loadFrozen() {
	frozenOnce.Do(func() {
		frozenTable = map[string]*frozenFn{}
		if len(frozenJSON) > 0 && os.Getenv("TMVERIF_NO_FROZEN_NAMES") == "" {
			_ = json.Unmarshal(frozenJSON, &frozenTable)
		}
	})
}

func syntheticLocal(c string) bool {
	switch c {
	case "", "complit", "varargs", "new", "slicelit", "makeslice", "makemap", "makechan", "range", "rangeindex", "rangeiter", "typeswitch", "switch", "select", "binop", "cond":
		return true
	}
	return false
}

func namedLocals(f *ssa.Function) (allocs []*ssa.Alloc, phis []*ssa.Phi) {
	for _, b := range f.Blocks {
		for _, in := range b.Instrs {
			switch x := in.(type) {
			case *ssa.Alloc:
				if !syntheticLocal(x.Comment) {
					allocs = append(allocs, x)
				}
			case *ssa.Phi:
				if !syntheticLocal(x.Comment) {
					phis = append(phis, x)
				}
			}
		}
	}
	return
}

func describeNames(f *ssa.Function) *frozenFn {
	out := &frozenFn{}
	for _, p := range f.Params {
		out.Params = append(out.Params, p.Name())
	}
	for _, v := range f.FreeVars {
		out.Frees = append(out.Frees, v.Name())
	}
	as, ps := namedLocals(f)
	for _, a := range as {
		out.Allocs = append(out.Allocs, [2]string{typeStr(a.Type()), a.Comment})
	}
	for _, p := range ps {
		out.Phis = append(out.Phis, [2]string{typeStr(p.Type()), p.Comment})
	}
	return out
}

func namesOf(f *ssa.Function) *fnNames {
	if f == nil {
		return nil
	}
	var cache *sync.Map
	if w := worldFor(f); w != nil {
		cache = &w.nameCache
	} else {
		cache = &orphanNameCache
	}
	if v, ok := cache.Load(f); ok {
		return v.(*fnNames)
	}
	loadFrozen()
	n := &fnNames{}
	if fr := frozenTable[funcKey(f)]; fr != nil {
		if len(fr.Params) == len(f.Params) {
			n.params = fr.Params
		}
		if len(fr.Frees) == len(f.FreeVars) {
			n.frees = fr.Frees
		}
		as, ps := namedLocals(f)
		if len(as) == len(fr.Allocs) {
			same := true
			for i, a := range as {
				if typeStr(a.Type()) != fr.Allocs[i][0] {
					same = false
				}
			}
			if same {
				n.allocs = map[*ssa.Alloc]string{}
				for i, a := range as {
					n.allocs[a] = fr.Allocs[i][1]
				}
			}
		}
		if len(ps) == len(fr.Phis) {
			same := true
			for i, p := range ps {
				if typeStr(p.Type()) != fr.Phis[i][0] {
					same = false
				}
			}
			if same {
				n.phis = map[*ssa.Phi]string{}
				for i, p := range ps {
					n.phis[p] = fr.Phis[i][1]
				}
			}
		}
	}
	cache.Store(f, n)
	return n
}

func canonParamName(p *ssa.Parameter) string {
	f := p.Parent()
	if n := namesOf(f); n != nil && n.params != nil {
		for i, q := range f.Params {
			if q == p {
				return n.params[i]
			}
		}
	}
	return p.Name()
}

func freeVarName(v *ssa.FreeVar) string {
	f := v.Parent()
	if n := namesOf(f); n != nil && n.frees != nil {
		for i, q := range f.FreeVars {
			if q == v {
				return n.frees[i]
			}
		}
	}
	return v.Name()
}

func allocName(a *ssa.Alloc) string {
	if n := namesOf(a.Parent()); n != nil && n.allocs != nil {
		if s, ok := n.allocs[a]; ok {
			return s
		}
	}
	return a.Comment
}

func phiName(p *ssa.Phi) string {
	if n := namesOf(p.Parent()); n != nil && n.phis != nil {
		if s, ok := n.phis[p]; ok {
			return s
		}
	}
	return p.Comment
}

// genNames writes the frozen table for the loaded program.
func genNames(w *World) []byte {
	t := map[string]*frozenFn{}
	var keys []string
	for _, f := range w.Funcs {
		k := funcKey(f)
		if _, dup := t[k]; dup {
			continue
		}
		d := describeNames(f)
		t[k] = d // every function is listed: absence from the table means "introduced later"
		keys = append(keys, k)
	}
	sort.Strings(keys)
	b, _ := json.Marshal(t)
	return b
}
