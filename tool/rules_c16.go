package main

import (
	"fmt"
	"go/token"
	"regexp"
	"strings"

	"golang.org/x/tools/go/ssa"
)

func init() {
	// ------------------------------------------------------------------ C16.R1/R2
	register("C16", "R1", "K1+K2", "handshake: success only after the peer's signature over the transcript-bound challenge verified under an ed25519 key; challenge binds both ephemeral keys and the DH secret; low-order points rejected", 14, func(c *Ctx) {
		w := c.W
		f := c.fn("p2p/conn", "MakeSecretConnection")
		if f == nil {
			return
		}
		fk := funcKey(f)
		for _, g := range []Guard{
			guardRe("ephemeral keys exchanged", `^nil\(p2p/conn\.shareEphPubKey\(.*\)#1\)$`),
			guardRe("DH secret computed (low-order points refused)", `^nil\(p2p/conn\.computeDHSecret\(.*\)#1\)$`),
			guardRe("own challenge signature produced", `^nil\(p2p/conn\.signChallenge\(&challenge, locPrivKey\)#1\)$`),
			guardRe("authentication message exchanged", `^nil\(p2p/conn\.shareAuthSignature\(.*\)#1\)$`),
			guardRe("remote key is ed25519", `^true\(p2p/conn\.shareAuthSignature\(.*\)#0\.Key\.\(crypto/ed25519\.PubKey\)#1\)$`),
			guardRe("remote signature over the challenge verifies under the remote key", `^true\(p2p/conn\.shareAuthSignature\(.*\)#0\.Key\.VerifySignature\(&challenge\[:\], p2p/conn\.shareAuthSignature\(.*\)#0\.Sig\)\)$`),
		} {
			c.Check(c.ge().ensures(f, g, 2), fk+" ensures "+g.Name, w.pos(f.Pos()), "a connection is returned only behind this check", "MakeSecretConnection can succeed without: "+g.Name)
		}
		// remote identity recorded is the key that verified
		for _, fs := range w.fieldStoresIn(f, "p2p/conn", "SecretConnection", "remPubKey") {
			c.Check(regexp.MustCompile(`^p2p/conn\.shareAuthSignature\(.*\)#0\.Key$`).MatchString(w.expr(fs.Store.Val)), fk+" :: remPubKey is the key that signed the challenge", w.ipos(fs.Store), "remPubKey = authSig.Key", "remPubKey set to "+w.expr(fs.Store.Val))
			c.guards(f, fs.Store, fk+" :: record remote identity", 0, guardRe("signature verified", `^true\(.*\.Key\.VerifySignature\(&challenge\[:\], .*\)\)$`))
		}
		// transcript order: lower key, upper key, DH secret, then extract the challenge
		var seq []ssa.Instruction
		labels := []string{"labelEphemeralLowerPublicKey", "labelEphemeralUpperPublicKey", "labelDHSecret"}
		for _, lbl := range labels {
			cs := w.callsMatching(f, `\.AppendMessage\(p2p/conn\.`+lbl+`, `)
			if c.Check(len(cs) == 1, fk+" :: transcript includes "+lbl, w.pos(f.Pos()), "appended once", fmt.Sprintf("%d AppendMessage calls with %s", len(cs), lbl)) {
				seq = append(seq, cs[0])
			}
		}
		ext := w.callsMatching(f, `\.ExtractBytes\(p2p/conn\.labelSecretConnectionMac, 32\)$`)
		if c.Check(len(ext) == 1, fk+" :: challenge extracted from the transcript", w.pos(f.Pos()), "ExtractBytes(mac label, 32)", fmt.Sprintf("%d extractions", len(ext))) {
			seq = append(seq, ext[0])
		}
		for i := 0; i+1 < len(seq); i++ {
			a := seq[i]
			ok, _ := mustPrecede(f, seq[i+1], func(in ssa.Instruction) bool { return in == a })
			c.Check(ok, fmt.Sprintf("%s :: transcript step %d before step %d", fk, i+1, i+2), w.ipos(seq[i+1]), "ordered", "transcript order changed: the challenge no longer binds all inputs")
		}
		// the appended values are the sorted ephemeral keys and the DH secret
		if len(seq) >= 3 {
			lo := w.callStr(seq[0].(ssa.CallInstruction))
			hi := w.callStr(seq[1].(ssa.CallInstruction))
			dh := w.callStr(seq[2].(ssa.CallInstruction))
			c.Check(strings.Contains(lo, "sort32(") && strings.Contains(lo, "#0[:]") && strings.Contains(hi, "sort32(") && strings.Contains(hi, "#1[:]"), fk+" :: both sorted ephemeral public keys are bound", w.ipos(seq[0]), "lo, hi from sort32(local, remote)", lo+" ; "+hi)
			c.Check(strings.Contains(dh, "computeDHSecret(") && strings.Contains(dh, "#0[:]"), fk+" :: DH secret is bound", w.ipos(seq[2]), "dhSecret appended", dh)
		}
		// sort32 hands back its two arguments, each exactly once, in either order (also when it hands out
		// copies): otherwise one ephemeral key is bound twice and the other not at all
		if g := c.fn("p2p/conn", "sort32"); g != nil && len(g.Params) == 2 {
			src := func(v ssa.Value) ssa.Value { // follow "copy := *p; return &copy"
				for i := 0; i < 4; i++ {
					a, ok := v.(*ssa.Alloc)
					if !ok {
						return v
					}
					var st *ssa.Store
					n := 0
					for _, r := range *a.Referrers() {
						if x, ok := r.(*ssa.Store); ok && x.Addr == ssa.Value(a) {
							st, n = x, n+1
						}
					}
					ld, isLd := (ssa.Value)(nil), false
					if n == 1 {
						if u, ok := st.Val.(*ssa.UnOp); ok && u.Op == token.MUL {
							ld, isLd = u.X, true
						}
					}
					if !isLd {
						return v
					}
					v = ld
				}
				return v
			}
			okPerm, nret := true, 0
			for _, r := range returnsOf(g) {
				ret := r.(*ssa.Return)
				if len(ret.Results) != 2 {
					okPerm = false
					continue
				}
				nret++
				lo, hi := src(ret.Results[0]), src(ret.Results[1])
				lp, lIsPhi := lo.(*ssa.Phi)
				hp, hIsPhi := hi.(*ssa.Phi)
				pairs := [][2]ssa.Value{}
				switch {
				case lIsPhi && hIsPhi && lp.Block() == hp.Block():
					for i := range lp.Edges {
						pairs = append(pairs, [2]ssa.Value{src(lp.Edges[i]), src(hp.Edges[i])})
					}
				case !lIsPhi && !hIsPhi:
					pairs = append(pairs, [2]ssa.Value{lo, hi})
				default:
					okPerm = false
				}
				for _, p := range pairs {
					a, b := p[0], p[1]
					if !((a == ssa.Value(g.Params[0]) && b == ssa.Value(g.Params[1])) || (a == ssa.Value(g.Params[1]) && b == ssa.Value(g.Params[0]))) {
						okPerm = false
					}
				}
			}
			c.Check(okPerm && nret > 0, funcKey(g)+" :: returns its two arguments, each once", w.pos(g.Pos()), "{lo, hi} = {foo, bar} on every path", "sort32 can return the same key twice or something else than its arguments: one ephemeral key is then not bound into the challenge")
		}
		// F32: both ends sign the *same* challenge, so the handshake must refuse its own public key coming back:
		// an adversary who completed the (unauthenticated) ephemeral exchange can decrypt our authentication
		// message and reflect it — it verifies, and the "authenticated" remote key is our own
		c.Check(c.ge().ensures(f, guardRe("the presented key is not our own", `^false\(.*\.Equals\(locPubKey\)\)$|^false\(locPubKey\.Equals\(.*\)\)$`), 1), fk+" ensures the remote key is not the local key (reflected authentication message)", w.pos(f.Pos()), "success only if remPubKey != locPubKey", "the handshake succeeds when the peer sends our own authentication message back: possession of the presented key is not proven")
		// challenge copied from the extraction; signed and verified value is the same challenge
		for _, call := range w.callsTo(f, "p2p/conn#signChallenge") {
			c.Check(w.expr(callArgs(call)[0]) == "&challenge", fk+" :: own signature is over the challenge", w.ipos(call), "signChallenge(&challenge, …)", w.callStr(call))
		}
		// DH: X25519 (rejects low-order points) and its error is propagated
		if g := c.fn("p2p/conn", "computeDHSecret"); g != nil {
			gk := funcKey(g)
			x := w.callsTo(g, "golang.org/x/crypto/curve25519#X25519")
			c.Check(len(x) == 1, gk+" :: uses X25519 (errors on low-order points)", w.pos(g.Pos()), "curve25519.X25519", "the shared secret is not computed with curve25519.X25519 (ScalarMult silently yields a constant for low-order points)")
			c.Check(c.ge().ensures(g, guardCallOK("X25519 succeeded", "golang.org/x/crypto/curve25519#X25519"), 2), gk+" ensures the X25519 error is propagated", w.pos(g.Pos()), "success only if X25519 returned no error", "computeDHSecret succeeds although X25519 failed")
			for _, call := range x {
				c.Check(w.callStr(call) == "golang.org/x/crypto/curve25519.X25519(locPrivKey[:], remPubKey[:])", gk+" :: local private scalar times remote public point", w.ipos(call), w.callStr(call), w.callStr(call))
			}
		}
	})

	// ------------------------------------------------------------------ C16.R3
	register("C16", "R3", "K2+K6", "nonce discipline: every Seal/Open is followed by incrementing the same direction's nonce before any further use or exit; under the direction's mutex; counter is 64-bit and panics at wrap-around; the nonce of a connection is set once, when it is built", 15, func(c *Ctx) {
		w := c.W
		type dir struct{ name, aead, op, nonce, mtx, fn string }
		for _, d := range []dir{
			{"send", "sendAead", "Seal", "sendNonce", "sendMtx", "SecretConnection.Write"},
			{"recv", "recvAead", "Open", "recvNonce", "recvMtx", "SecretConnection.Read"},
		} {
			top := c.fn("p2p/conn", d.fn)
			if top == nil {
				continue
			}
			n := 0
			for _, f := range append([]*ssa.Function{top}, top.AnonFuncs...) {
				for _, call := range w.callsTo(f, "crypto/cipher#AEAD."+d.op) {
					n++
					key := funcKey(f) + " :: " + d.op
					recv := w.expr(callRecv(call))
					nonce := w.expr(callArgs(call)[1])
					c.Check(strings.HasSuffix(recv, "."+d.aead) && strings.HasSuffix(nonce, "."+d.nonce+"[:]"), key+" uses the "+d.name+" cipher with the "+d.name+" nonce", w.ipos(call), recv+" / "+nonce, "mixes directions: "+recv+" with nonce "+nonce)
					incr := func(in ssa.Instruction) bool {
						cc, ok := in.(*ssa.Call)
						return ok && w.isCall(cc, "p2p/conn#incrNonce") && strings.HasSuffix(w.expr(callArgs(cc)[0]), "."+d.nonce)
					}
					var from ssa.Instruction = call
					var start *ssa.BasicBlock
					idx := instrIndex(call) + 1
					start = call.Block()
					if d.op == "Open" {
						// only a successful Open consumes the nonce
						if s := errPassSucc(call); s != nil {
							start, idx = s, 0
						} else {
							// error stored into a named result first
							for _, ea := range condEdges(f) {
								if ea.A.Kind == "nil" && ea.E.From == call.Block() {
									start, idx = ea.E.From.Succs[ea.E.Succ], 0
								}
							}
						}
					}
					_ = from
					q := &pathQ{kill: incr, target: func(in ssa.Instruction) bool {
						if isReturn(in) {
							return true
						}
						if cc, ok := in.(*ssa.Call); ok {
							if w.isCall(cc, "crypto/cipher#AEAD."+d.op) {
								return true
							}
							// anything that can fail/leave between sealing and advancing the nonce
							if dd, ok := describeCallee(cc); ok && dd.Invoke && dd.Name == "Write" {
								return true
							}
						}
						return false
					}}
					hit, path := q.reach(start, idx)
					c.Check(hit == nil, key+" is followed by incrNonce("+d.nonce+") before any exit, transport write or further "+d.op, w.ipos(call), "nonce advanced immediately", "after "+d.op+" the nonce may not be advanced before "+describeHit(w, hit)+": "+pathStr(w, path))
					// under the direction's mutex
					ok, why := w.holdsLock(f, call, regexp.MustCompile(`\.`+d.mtx+`$`), 1)
					c.Check(ok, key+" under "+d.mtx, w.ipos(call), "mutex held", d.mtx+" is not held: "+why)
				}
			}
			c.Check(n == 1, "p2p/conn."+d.fn+" :: single "+d.op+" site", w.pos(top.Pos()), "one", fmt.Sprintf("%d %s sites", n, d.op))
		}
		// A direction's nonce starts at zero when the connection value is built and from then on only counts
		// up: a second assignment (e.g. "fresh counters for the application stream" after the handshake frame
		// was sealed and opened with nonce 0) makes a (key, nonce) pair occur twice — the recorded handshake
		// frame then decrypts as the first data frame, and the XOR of the two frames leaks their plaintexts.
		// Ownership: in package p2p/conn the nonce fields are stored only into a connection that is being
		// built (a fresh struct literal), once each, with a fresh zero array.
		for _, field := range []string{"recvNonce", "sendNonce"} {
			n := 0
			for _, f := range w.FuncsInPkg("p2p/conn") {
				for _, fs := range w.fieldStoresInRaw(f, "p2p/conn", "SecretConnection", field) {
					n++
					_, fresh := stripConv(fs.Addr.X).(*ssa.Alloc)
					_, zero := stripConv(fs.Store.Val).(*ssa.Alloc)
					c.Check(fresh && zero, fmt.Sprintf("%s :: store to %s #%d", funcKey(f), field, n), w.ipos(fs.Store), "only into the connection being built, a fresh zero array", "the "+field+" of an existing connection is replaced ("+w.expr(fs.Store.Val)+"): the counter restarts and a nonce is used twice with the same key")
				}
			}
			c.Check(n == 1, "p2p/conn.SecretConnection."+field+" :: set once", "-", "1 store", fmt.Sprintf("%d stores", n))
		}
		if f := c.fn("p2p/conn", "incrNonce"); f != nil {
			fk := funcKey(f)
			puts := w.callsTo(f, "encoding/binary#littleEndian.PutUint64")
			c.Check(len(puts) == 1 && len(w.callsTo(f, "encoding/binary#littleEndian.PutUint32")) == 0, fk+" :: counter written back as 64 bits", w.pos(f.Pos()), "PutUint64", "the counter is not written back with PutUint64 (a narrower write wraps early and repeats nonces)")
			for _, p := range puts {
				a := callArgs(p)
				ok := w.expr(a[0]) == "nonce[4:]" && w.expr(a[1]) == "(encoding/binary.LittleEndian.Uint64(nonce[4:]) + 1)"
				c.Check(ok, fk+" :: counter = counter + 1 in bytes 4..12", w.ipos(p), "PutUint64(nonce[4:], Uint64(nonce[4:]) + 1)", w.callStr(p))
				c.guards(f, p, fk+" :: increment", 0, guardCmp("counter not at its maximum (else panic)", `encoding/binary\.LittleEndian\.Uint64\(nonce\[4:\]\)`, "!=", "18446744073709551615"))
			}
		}
	})

	// ------------------------------------------------------------------ C16.R4
	register("C16", "R4", "K10", "framing: a received chunk length is bounded before slicing; a frame carries at most dataMaxSize bytes with its length", 5, func(c *Ctx) {
		w := c.W
		max := fmt.Sprint(c.mustConst("p2p/conn", "dataMaxSize"))
		if f := c.fn("p2p/conn", "SecretConnection.Read"); f != nil {
			fk := funcKey(f)
			n := 0
			for _, di := range w.deepInstrs(f, 2) { // also in a frame-decoding helper split off Read
				sl, ok := di.in.(*ssa.Slice)
				if !ok || sl.High == nil || !strings.Contains(w.expr(sl.High), "Uint32(") {
					continue
				}
				n++
				c.guards(f, sl, fk+" :: slice the frame by the received length", 0,
					guardCmp("chunk length within dataMaxSize", `encoding/binary\.LittleEndian\.Uint32\(.*\)`, "<=", max),
					guardRe("frame authenticated (Open succeeded)", `^nil\(&err\)$|^nil\(.*\.Open\(.*\)#1\)$`))
			}
			c.Check(n >= 1, fk+" :: length-driven slice found", w.pos(f.Pos()), fmt.Sprintf("%d", n), "no slice by received length found")
			// leftover bytes are copied, not aliased to the pooled buffer
			for _, fs := range w.fieldStoresIn(f, "p2p/conn", "SecretConnection", "recvBuffer") {
				v := w.expr(fs.Store.Val)
				c.Check(strings.HasPrefix(v, "make([]byte") || strings.HasPrefix(v, "sc.recvBuffer["), fk+" :: leftover plaintext is kept in its own buffer", w.ipos(fs.Store), v, "recvBuffer aliases "+v)
			}
		}
		if top := c.fn("p2p/conn", "SecretConnection.Write"); top != nil {
			for _, f := range append([]*ssa.Function{top}, top.AnonFuncs...) {
				for _, call := range w.callsTo(f, "encoding/binary#littleEndian.PutUint32") {
					// the length prefix is the length of the chunk that is copied after it
					ln := w.expr(callArgs(call)[1])
					okCopy := false
					for _, cp := range callInstrs(f) {
						if d, ok := describeCallee(cp); ok && d.Name == "copy" && d.Pkg == "builtin" {
							if "len("+w.expr(cp.Common().Args[1])+")" == ln {
								okCopy = true
							}
						}
					}
					c.Check(okCopy, funcKey(f)+" :: length prefix equals the copied chunk", w.ipos(call), ln, "length prefix "+ln+" does not match the copied chunk")
				}
				for _, ea := range condEdges(f) {
					if guardCmp("m", max, "<", `len\(data\)`).Match(w, f, ea.A) {
						c.OK(funcKey(f)+" :: chunks are cut at dataMaxSize", w.pos(f.Pos()), "split at "+max)
					}
				}
			}
		}
	})

	// ------------------------------------------------------------------ C16.R5
	register("C16", "R5", "K1", "transport upgrade: the authenticated key must match the dialled id and the id in the node info", 4, func(c *Ctx) {
		w := c.W
		f := c.fn("p2p", "MultiplexTransport.upgrade")
		if f == nil {
			return
		}
		fk := funcKey(f)
		connID := `p2p\.PubKeyToID\(.*\.RemotePubKey\(\)\)`
		c.Check(c.ge().ensures(f, guardRe("secret connection established", `^nil\(p2p\.upgradeSecretConn\(.*\)#1\)$`), 2), fk+" ensures the secret connection handshake succeeded", w.pos(f.Pos()), "guarded", "upgrade can succeed without a secret connection")
		c.Check(c.ge().ensures(f, guardAny("dialled id equals the authenticated id (when dialling)", guardCmp("a", connID, "==", `dialedAddr\.ID`), guardRe("b", `^nil\(dialedAddr\)$`)), 2), fk+" ensures dialled id = connection id", w.pos(f.Pos()), "guarded", "an outbound connection is accepted although the peer authenticated as someone else than dialled")
		c.Check(c.ge().ensures(f, guardCmp("node info id equals the authenticated id", connID, "==", `.*\.ID\(\)`), 2), fk+" ensures node-info id = connection id", w.pos(f.Pos()), "guarded", "a peer can claim another node id in its node info")
		c.Check(c.ge().ensures(f, guardRe("node info validated", `^nil\(.*\.Validate\(\)\)$`), 2), fk+" ensures node info Validate() = nil", w.pos(f.Pos()), "guarded", "node info is not validated")
		// the dialled-id comparison is skipped for a nil address: only the accept path may pass nil, a dial
		// always passes the address it dialled (non-nil by construction: the address of its own parameter)
		k := newKeyer()
		nUp := 0
		for _, cs := range w.callersOf(f) {
			g := outermost(cs.Parent())
			if strings.HasSuffix(w.Fset.Position(cs.Pos()).Filename, "_test.go") {
				continue
			}
			nUp++
			arg := cs.Common().Args[len(cs.Common().Args)-1]
			dials := len(w.callsMatching(g, `\.dial\(|\.Dial(Timeout|Context)?\(`)) > 0 || strings.Contains(g.Name(), "Dial")
			switch {
			case isNilConst(arg):
				c.Check(!dials, k.key(g, "upgrade without a dialled address only on the accept path"), w.ipos(cs), "inbound connection", "an outbound connection is upgraded without the dialled address: the peer's key is not compared with the dialled id")
			default:
				_, isAlloc := stripConv(arg).(*ssa.Alloc)
				c.Check(isAlloc, k.key(g, "upgrade of a dialled connection always carries the dialled address"), w.ipos(cs), "address of the dialled NetAddress", "the dialled address handed to upgrade can be nil ("+w.expr(arg)+"): the peer's key is then not compared with the dialled id")
			}
		}
		c.Check(nUp >= 2, fk+" :: callers found (dial and accept)", w.pos(f.Pos()), ">= 2", fmt.Sprintf("%d", nUp))
	})
}

func describeHit(w *World, in ssa.Instruction) string {
	if in == nil {
		return "-"
	}
	if isReturn(in) {
		return "a return"
	}
	if c, ok := in.(ssa.CallInstruction); ok {
		return "the call " + w.callStr(c)
	}
	return in.String()
}
