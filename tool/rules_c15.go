package main

import (
	"fmt"
	"go/ast"
	"go/constant"
	"go/token"
	"go/types"
	"os"
	"regexp"
	"sort"
	"strconv"
	"strings"

	"golang.org/x/tools/go/ssa"
)

// stringLitArgs finds, inside function fn (AST), the string literal arguments of calls named callee
// (e.g. "regexp.MustCompile", "fmt.Sprintf").
func (w *World) stringLitArgs(f *ssa.Function, callee string) []string {
	var out []string
	decl, ok := f.Syntax().(*ast.FuncDecl)
	if !ok || decl.Body == nil {
		return nil
	}
	ast.Inspect(decl.Body, func(n ast.Node) bool {
		call, ok := n.(*ast.CallExpr)
		if !ok {
			return true
		}
		if types.ExprString(call.Fun) != callee {
			return true
		}
		for _, a := range call.Args {
			if bl, ok := a.(*ast.BasicLit); ok && bl.Kind == token.STRING {
				if s, err := strconv.Unquote(bl.Value); err == nil {
					out = append(out, s)
				}
			}
		}
		return true
	})
	return out
}

// assertedTypeNames lists the named types asserted (type switch cases) in f.
func assertedTypeNames(f *ssa.Function) map[string]bool {
	out := map[string]bool{}
	for _, b := range f.Blocks {
		for _, in := range b.Instrs {
			if ta, ok := in.(*ssa.TypeAssert); ok {
				if n := derefNamed(ta.AssertedType); n != nil {
					out[n.Obj().Name()] = true
				}
			}
		}
	}
	return out
}

func init() {
	// ------------------------------------------------------------------ C15.R1
	register("C15", "R1", "K5", "WAL frame: encoder and decoder agree on crc|length|data, byte order, CRC table and size limit; the decoder bounds the length before allocating and checks the CRC before decoding", 14, func(c *Ctx) {
		w := c.W
		enc := c.fn("consensus", "WALEncoder.Encode")
		dec := c.fn("consensus", "WALDecoder.Decode")
		if enc == nil || dec == nil {
			return
		}
		max := fmt.Sprint(c.mustConst("consensus", "maxMsgSizeBytes"))
		ek, dk := funcKey(enc), funcKey(dec)
		// encoder layout
		var puts []string
		for _, call := range w.callsTo(enc, "encoding/binary#bigEndian.PutUint32") {
			puts = append(puts, w.callStr(call))
		}
		sort.Strings(puts)
		okLayout := len(puts) == 2 && regexp.MustCompile(`\[0:4\], hash/crc32\.Checksum\(`).MatchString(puts[0]) && regexp.MustCompile(`\[4:8\], len\(`).MatchString(puts[1])
		c.Check(okLayout, ek+" :: frame is crc (bytes 0-3) then length (bytes 4-7), big endian", w.pos(enc.Pos()), "PutUint32(buf[0:4], crc); PutUint32(buf[4:8], len)", strings.Join(puts, " ; "))
		okCopy := len(w.callsMatching(enc, `^copy\(make\(\[\]byte,\(8 \+ len\(.*\)\)\)\[8:\], `)) == 1
		c.Check(okCopy, ek+" :: payload follows at byte 8", w.pos(enc.Pos()), "copy(buf[8:], data)", "payload is not copied to offset 8 of an 8+len buffer")
		for _, call := range w.callsTo(enc, "hash/crc32#Checksum") {
			c.Check(strings.HasSuffix(w.callStr(call), ", consensus.crc32c)"), ek+" :: CRC table is crc32c", w.ipos(call), "crc32c", w.callStr(call))
			// crc over the same bytes that are written as payload
			c.Check(strings.Contains(w.callStr(call), "proto.Marshal(&pv)#0"), ek+" :: CRC covers the marshalled payload", w.ipos(call), "crc(data)", w.callStr(call))
		}
		for _, wr := range w.callsMatching(enc, `^enc\.wr\.Write\(`) {
			c.guards(enc, wr, ek+" :: write frame", 0, guardCmp("payload within maxMsgSizeBytes", `len\(.*Marshal\(&pv\)#0\)`, "<=", max))
		}
		// decoder
		// every field is read in full (F68: a reader may return fewer bytes than asked for without an error — a
		// file does at its end — and the rest of the buffer stays zero: a torn record whose missing tail is zero
		// bytes passed the checksum)
		reads := w.callsMatching(dec, `^io\.ReadFull\(dec\.rd, `)
		c.Check(len(reads) == 3, dk+" :: reads crc, length, payload", w.pos(dec.Pos()), "three reads, each io.ReadFull", fmt.Sprintf("%d full reads", len(reads)))
		raw := w.callsMatching(dec, `^dec\.rd\.Read\(`)
		c.Check(len(raw) == 0, dk+" :: no field is read with a single Read", w.pos(dec.Pos()), "io.ReadFull", fmt.Sprintf("%d single Read calls whose byte count decides nothing: a short read leaves the rest of the field zero", len(raw)))
		beU := w.callsTo(dec, "encoding/binary#bigEndian.Uint32")
		c.Check(len(beU) == 2 && len(w.callsTo(dec, "encoding/binary#littleEndian.Uint32")) == 0, dk+" :: crc and length decoded big endian", w.pos(dec.Pos()), "two BigEndian.Uint32", "byte order differs from the encoder")
		// allocation of the payload buffer is bounded by the same constant
		for _, b := range dec.Blocks {
			for _, in := range b.Instrs {
				if ms, ok := in.(*ssa.MakeSlice); ok && strings.Contains(w.expr(ms.Len), "BigEndian.Uint32(") {
					c.guards(dec, ms, dk+" :: allocate payload buffer", 0, guardCmp("length within maxMsgSizeBytes", `encoding/binary\.BigEndian\.Uint32\(.*\)`, "<=", max))
				}
			}
		}
		for _, call := range w.callsTo(dec, "github.com/gogo/protobuf/proto#Unmarshal") {
			c.guards(dec, call, dk+" :: unmarshal payload", 0,
				guardCmp("CRC of the payload equals the stored CRC", `hash/crc32\.Checksum\(.*, consensus\.crc32c\)`, "==", `encoding/binary\.BigEndian\.Uint32\(.*\)`),
				guardRe("payload read completely", `^nil\(io\.ReadFull\(dec\.rd, make\(\[\]byte,.*\)\)#1\)$`))
		}
		c.Check(c.ge().ensures(dec, guardCallOK("payload decoded into a WAL message", "consensus#WALFromProto"), 2), dk+" ensures the message converted from proto", w.pos(dec.Pos()), "guarded", "Decode can succeed without converting the message")
		c.Check(c.ge().ensures(dec, guardCmp("CRC matches", `hash/crc32\.Checksum\(.*\)`, "==", `.*Uint32\(.*\)`), 2), dk+" ensures the CRC matched", w.pos(dec.Pos()), "guarded", "Decode can return a record without a CRC match")
		// a clean EOF only before the first byte of a frame; anything else is a corruption error
		eofRet := 0
		for _, lr := range leafErrReturns(dec) {
			if strings.Contains(w.expr(lr.err), "dec.rd.Read(") || strings.Contains(w.expr(lr.err), "io.ReadFull(dec.rd") {
				eofRet++
				c.guards(dec, lr.ret, dk+" :: pass EOF through", 0, guardRe("error is io.EOF (ReadFull: no byte was read)", `^true\(errors\.Is\(io\.ReadFull\(dec\.rd, .*\)#1, io\.EOF\)\)$`))
			}
		}
		c.Check(eofRet == 1, dk+" :: EOF is only reported at a frame boundary", w.pos(dec.Pos()), "single EOF pass-through (first read)", fmt.Sprintf("%d raw read-error returns", eofRet))
	})

	// ------------------------------------------------------------------ C15.R3
	register("C15", "R3", "K4+K5", "every WAL / consensus message type has a case in both the encoder-side and decoder-side conversion", 10, func(c *Ctx) {
		w := c.W
		toP, fromP := c.fn("consensus", "WALToProto"), c.fn("consensus", "WALFromProto")
		if toP != nil && fromP != nil {
			a, b := assertedTypeNames(toP), assertedTypeNames(fromP)
			pairs := map[string]string{"EventDataRoundState": "WALMessage_EventDataRoundState", "msgInfo": "WALMessage_MsgInfo", "timeoutInfo": "WALMessage_TimeoutInfo", "EndHeightMessage": "WALMessage_EndHeight"}
			// every implementation of WALMessage written by consensus must be convertible
			for goT, pbT := range pairs {
				c.Check(a[goT], "consensus.WALToProto handles "+goT, w.pos(toP.Pos()), "case present", "WALToProto has no case for "+goT)
				c.Check(b[pbT], "consensus.WALFromProto handles "+pbT, w.pos(fromP.Pos()), "case present", "WALFromProto has no case for "+pbT)
			}
			c.Check(len(a) == len(pairs) && len(b) >= len(pairs), "consensus WAL conversions cover the same number of message kinds", w.pos(toP.Pos()), fmt.Sprintf("%d / %d", len(a), len(b)), fmt.Sprintf("to-proto handles %d kinds, from-proto %d", len(a), len(b)))
			// what consensus writes
			for _, s := range w.allCallsTo("consensus#WAL.Write", "consensus#WAL.WriteSync") {
				if relPkg(s.Fn) != "consensus" || strings.HasSuffix(w.Fset.Position(s.Fn.Pos()).Filename, "wal_generator.go") {
					continue
				}
				t := stripConv(callArgs(s.Instr.(ssa.CallInstruction))[0]).Type()
				n := derefNamed(t)
				if n == nil {
					continue
				}
				if _, isI := n.Underlying().(*types.Interface); isI {
					continue // pass-through of an already typed WAL message
				}
				c.Check(a[n.Obj().Name()], funcKey(s.Fn)+" :: writes a WAL message kind the encoder knows ("+n.Obj().Name()+")", w.ipos(s.Instr), "known kind", "message type "+n.Obj().Name()+" is written to the WAL but has no conversion case")
			}
		}
		mTo, mFrom := c.fn("consensus", "MsgToProto"), c.fn("consensus", "MsgFromProto")
		if mTo != nil && mFrom != nil {
			a, b := assertedTypeNames(mTo), assertedTypeNames(mFrom)
			iface, _ := w.NamedType("consensus", "Message").Underlying().(*types.Interface)
			n := 0
			for _, impl := range w.implementers(iface) {
				if impl.pkg != "consensus" {
					continue
				}
				n++
				short := strings.TrimSuffix(impl.name, "Message")
				c.Check(a[impl.name], "consensus.MsgToProto handles "+impl.name, w.pos(mTo.Pos()), "case present", "no case for "+impl.name)
				hasWire := false
				for k := range b {
					if strings.EqualFold(k, short) {
						hasWire = true
					}
				}
				c.Check(hasWire, "consensus.MsgFromProto handles Message_"+short, w.pos(mFrom.Pos()), "case present", "no case for the wire type of "+impl.name)
			}
			c.Check(n >= 9, "consensus message kinds", "consensus/msgs.go", fmt.Sprintf("%d kinds", n), "message implementations not found")
		}
	})

	// ------------------------------------------------------------------ C15.R4
	register("C15", "R4", "K2+K5", "rotation: flush, fsync, close, rename to the next index; only whole oldest files are pruned, never the head; the reader recognises every rotated name the writer produces", 11, func(c *Ctx) {
		w := c.W
		if f := c.fn("libs/autofile", "Group.RotateFile"); f != nil {
			fk := funcKey(f)
			for _, r := range w.callsTo(f, "os#Rename") {
				c.guards(f, r, fk+" :: rename head to the next index", 0,
					guardCallOK("buffer flushed", "bufio#Writer.Flush"), guardCallOK("head fsynced", "libs/autofile#AutoFile.Sync"), guardRe("head closed", `^nil\(g\.Head\.closeFile\(\)\)$`))
				c.Check(w.callStr(r) == "os.Rename(g.Head.Path, libs/autofile.filePathForIndex(g.Head.Path, g.maxIndex, (g.maxIndex + 1)))", fk+" :: head becomes file number maxIndex", w.ipos(r), "rename(head, path(maxIndex))", w.callStr(r))
				ok, _, _ := mustFollow(r, func(in ssa.Instruction) bool {
					st, isSt := in.(*ssa.Store)
					return isSt && w.expr(st.Addr) == "g.maxIndex" && w.expr(st.Val) == "(g.maxIndex + 1)"
				}, nil)
				c.Check(ok, fk+" :: maxIndex advances after the rename", w.ipos(r), "maxIndex++", "maxIndex is not advanced after rotating")
			}
		}
		if f := c.fn("libs/autofile", "Group.checkTotalSizeLimit"); f != nil {
			fk := funcKey(f)
			for _, r := range w.callsTo(f, "os#Remove") {
				arg := w.expr(callArgs(r)[0])
				c.Check(regexp.MustCompile(`^libs/autofile\.filePathForIndex\(g\.Head\.Path, \(g\.readGroupInfo\(\)\.MinIndex \+ phi\(\(phi:i \+ 1\)\|0\)\), g\.readGroupInfo\(\)\.MaxIndex\)$`).MatchString(arg), fk+" :: removes files upward from the oldest index", w.ipos(r), "MinIndex + i", "removes "+arg)
				c.guards(f, r, fk+" :: remove a file", 0,
					guardCmp("total size is over the limit", `phi\(.*TotalSize.*\)`, ">=", `g\.TotalSizeLimit\(\)`),
					guardCmp("the file is not the head", `\(g\.readGroupInfo\(\)\.MinIndex \+ phi\(\(phi:i \+ 1\)\|0\)\)`, "!=", `g\.readGroupInfo\(\)\.MaxIndex`))
			}
			// it is the only remover in the package
			for _, s := range w.allCallsTo("os#Remove", "os#RemoveAll") {
				if relPkg(s.Fn) == "libs/autofile" {
					c.Check(outermost(s.Fn) == f, funcKey(s.Fn)+" :: only the size-limit pruner deletes group files", w.ipos(s.Instr), "pruner", "files are deleted outside the size-limit pruner")
				}
			}
		}
		// writer format vs reader pattern
		wf, rf := c.fn("libs/autofile", "filePathForIndex"), c.fn("libs/autofile", "Group.readGroupInfo")
		if wf != nil && rf != nil {
			fmts := w.stringLitArgs(wf, "fmt.Sprintf")
			pats := w.regexpPatternsUsed(rf)
			if c.Check(len(fmts) == 1 && len(pats) == 1, "libs/autofile rotated-name format and pattern found", w.pos(wf.Pos()), "format "+strings.Join(fmts, ",")+" pattern "+strings.Join(pats, ","), "cannot find the format / pattern literals") {
				rx, err := regexp.Compile(pats[0])
				ok := err == nil
				var bad []string
				if ok {
					for _, idx := range []int{0, 7, 999, 1000, 1001, 54321, 1234567} {
						name := fmt.Sprintf(fmts[0], "wal", idx)
						m := rx.FindStringSubmatch(name)
						if m == nil || len(m) < 2 {
							bad = append(bad, name)
							continue
						}
						if v, err := strconv.Atoi(m[1]); err != nil || v != idx {
							bad = append(bad, name)
						}
					}
				}
				c.Check(ok && len(bad) == 0, "libs/autofile reader pattern recognises every name the writer format produces (indexes 0 … 1234567) and recovers the index", w.pos(rf.Pos()), "format "+fmts[0]+" ⊆ pattern "+pats[0], "rotated file names not recognised by the reader: "+strings.Join(bad, ", ")+" (pattern "+pats[0]+")")
			}
		}
	})

	// ------------------------------------------------------------------ C15.R5
	register("C15", "R5", "K2", "repair copies the decodable prefix only; the corrupted file is backed up first and repair is only triggered by a corruption error", 6, func(c *Ctx) {
		w := c.W
		if f := c.fn("consensus", "repairWalFile"); f != nil {
			fk := funcKey(f)
			for _, e := range w.callsTo(f, "consensus#WALEncoder.Encode") {
				c.guards(f, e, fk+" :: copy a record", 0, guardCallOK("record decoded", "consensus#WALDecoder.Decode"))
				c.Check(strings.Contains(w.callStr(e), ".Decode()#0)"), fk+" :: the decoded record itself is re-encoded", w.ipos(e), w.callStr(e), w.callStr(e))
			}
			// stop at the first decode error: from the error edge no further Encode
			for _, ea := range condEdges(f) {
				if ea.A.Kind == "nonnil" {
					if cl := atomCall(ea.A); cl != nil && w.isCall(cl, "consensus#WALDecoder.Decode") {
						qq := &pathQ{target: w.callPred("consensus#WALEncoder.Encode", "consensus#WALDecoder.Decode")}
						hit, _ := qq.reach(ea.E.From.Succs[ea.E.Succ], 0)
						c.Check(hit == nil, fk+" :: stops at the first undecodable record", w.pos(f.Pos()), "no decoding/encoding after an error", "records after a corrupted one are still copied")
					}
				}
			}
			// (how dst is written — to a new file that is renamed over it — is C15.R13's subject)
			c.Check(len(w.callsMatching(f, `^os\.Open\(src\)$`)) == 1 && (len(w.callsMatching(f, `^os\.Rename\(.*, dst\)$`)) == 1 || len(w.callsMatching(f, `^os\.Create\(dst\)$`)) == 1), fk+" :: reads src, writes dst", w.pos(f.Pos()), "Open(src) / result ends up as dst", "source/destination handling changed")
		}
		if f := c.fn("consensus", "State.OnStart"); f != nil {
			fk := funcKey(f)
			rep := w.callsTo(f, "consensus#repairWalFile")
			c.Check(len(rep) == 1, fk+" :: repair step present", w.pos(f.Pos()), "repairWalFile called", fmt.Sprintf("%d calls", len(rep)))
			for _, r := range rep {
				c.guards(f, r, fk+" :: repair", 0,
					guardRe("catch-up failed with a data corruption error", `^true\(consensus\.IsDataCorruptionError\(cs\.catchupReplay\(.*\)\)\)$`),
					guardCallOK("corrupted file backed up first", "libs/os#CopyFile"),
					guardRe("WAL stopped", `^nil\(cs\.wal\.Stop\(\)\)$`))
				a := callArgs(r)
				c.Check(strings.HasSuffix(w.expr(a[0]), "corruptedFile") || strings.Contains(w.expr(a[0]), ".CORRUPTED") || strings.Contains(w.expr(a[0]), "+"), fk+" :: repair reads the backup and rewrites the WAL file", w.ipos(r), w.callStr(r), w.callStr(r))
			}
		}
	})

	// ------------------------------------------------------------------ C15.R6
	register("C15", "R6", "K1", "end-height search: found only for a decoded marker of exactly that height; gives up early only after seeing a real, lower marker; replay searches tolerate old corruption", 8, func(c *Ctx) {
		w := c.W
		f := c.fn("consensus", "BaseWAL.SearchForEndHeight")
		if f == nil {
			return
		}
		fk := funcKey(f)
		n := 0
		for _, b := range f.Blocks {
			ret, ok := b.Instrs[len(b.Instrs)-1].(*ssa.Return)
			if !ok || len(ret.Results) != 3 {
				continue
			}
			found, isC := boolConst(ret.Results[1])
			if isC && found {
				n++
				c.guards(f, ret, fk+" :: report found", 0,
					guardCmp("marker height equals the requested height", `.*\.\(consensus\.EndHeightMessage\)#0\.Height`, "==", "height"),
					guardRe("record is an end-height marker", `^true\(.*\.Msg\.\(consensus\.EndHeightMessage\)#1\)$`),
					guardRe("record decoded", `^nil\(.*\.Decode\(\)#1\)$`))
				c.Check(strings.HasSuffix(w.expr(ret.Results[0]), "NewReader(phi((phi:index - 1)|wal.group.MaxIndex()))#0"), fk+" :: returns the reader positioned after the marker", w.ipos(ret), "reader of the file being scanned", w.expr(ret.Results[0]))
			}
			if isC && !found && isNilConst(ret.Results[2]) && b.Comment != "for.done" {
				// early not-found
				c.guards(f, ret, fk+" :: give up early", 0,
					// the running "last marker seen": a loop phi, or a slot handed to a per-file scan helper
					guardCmp("a real marker (height > 0) was seen in a newer file", `phi\(.*lastHeightFound.*\)|phi\(.*EndHeightMessage.*\)|&lastHeightFound`, ">", "0"),
					guardCmp("that marker is below the requested height", `phi\(.*\)|&lastHeightFound`, "<", "height"),
					guardCmp("the file was read to its end", `.*\.Decode\(\)#1`, "==", `io\.EOF`))
			}
		}
		c.Check(n == 1, fk+" :: single found exit", w.pos(f.Pos()), "one", fmt.Sprintf("%d found exits", n))
		// scan order: newest file first, down to the oldest
		okScan := false
		for _, ea := range condEdges(f) {
			if guardCmp("s", `phi\(\(phi:index - 1\)\|wal\.group\.MaxIndex\(\)\)`, ">=", `wal\.group\.MinIndex\(\)`).Match(w, f, ea.A) {
				okScan = true
			}
		}
		c.Check(okScan, fk+" :: scans files from MaxIndex down to MinIndex", w.pos(f.Pos()), "index from MaxIndex, decremented, >= MinIndex", "scan order/bounds changed")
		// corruption is skipped only on request
		for _, ea := range condEdges(f) {
			if ea.A.Kind == "true" && strings.Contains(w.expr(ea.A.V), "IsDataCorruptionError(") {
				at := ea.E.From.Instrs[len(ea.E.From.Instrs)-1]
				c.guards(f, at, fk+" :: skip a corrupted record", 0, guardRe("caller asked to ignore corruption", `^true\(options\.IgnoreDataCorruptionErrors\)$`))
			}
		}
		// replay: both searches ignore corruption in already-finished heights
		if g := c.fn("consensus", "State.catchupReplay"); g != nil {
			calls := w.callsTo(g, "consensus#WAL.SearchForEndHeight")
			c.Check(len(calls) == 2, funcKey(g)+" :: searches for this height's and the previous height's marker", w.pos(g.Pos()), "two searches", fmt.Sprintf("%d searches", len(calls)))
			for i, call := range calls {
				opt := callArgs(call)[1]
				ign := false
				if al := allocOf(opt); al != nil {
					for _, r := range *al.Referrers() {
						if fa, ok := r.(*ssa.FieldAddr); ok && fieldName(fa.X.Type(), fa.Field) == "IgnoreDataCorruptionErrors" {
							for _, rr := range *fa.Referrers() {
								if st, ok := rr.(*ssa.Store); ok {
									if v, isC := boolConst(st.Val); isC && v {
										ign = true
									}
								}
							}
						}
					}
				}
				c.Check(ign, fmt.Sprintf("%s :: search #%d ignores corruption in older records", funcKey(g), i+1), w.ipos(call), "IgnoreDataCorruptionErrors: true", "a replay search treats an old corrupted record as fatal: the repair would then truncate everything after it")
			}
			// a found marker for the current height is an error; the previous height's marker is required
			okPrev := regexp.MustCompile(`phi\(\(height - 1\)\|0\)|phi\(0\|\(height - 1\)\)|\(\w+ - 1\)`).MatchString(w.expr(callArgs(calls[len(calls)-1])[0]))
			c.Check(okPrev, funcKey(g)+" :: replays from the marker of the previous height", w.pos(g.Pos()), w.expr(callArgs(calls[len(calls)-1])[0]), "second search height is "+w.expr(callArgs(calls[len(calls)-1])[0]))
		}
	})
}

// ------------------------------------------------------------------ C15.R7
// End of log vs torn record: the decoder hands the reader's raw error (io.EOF: "the log ends here, go on
// and append") back only when not a single byte of a next record was read; any partial record — also one cut
// inside its 4-byte checksum — is a data corruption error, which is what makes the restart repair the tail
// before new records are appended behind it.
func init() {
	register("C15", "R7", "K1", "the WAL decoder reports a clean end of log only at a record boundary (a partial record, however short, is corruption)", 2, func(c *Ctx) {
		w := c.W
		f := c.fn("consensus", "WALDecoder.Decode")
		if f == nil {
			return
		}
		fk := funcKey(f)
		n := 0
		leaves := leafErrReturns(f)
		for _, lr := range leaves {
			e := w.expr(lr.err)
			switch {
			case regexp.MustCompile(`^io\.ReadFull\(dec\.rd, .*\)#1$`).MatchString(e):
				// io.ReadFull answers io.EOF only if it read no byte (io.ErrUnexpectedEOF otherwise): the
				// reader's error is handed back only where it is io.EOF
				n++
				c.guards(f, lr.ret, fk+" :: hand back the reader's end-of-log error", 0,
					guardRe("no byte of a next record was read", `^true\(errors\.Is\(`+regexp.QuoteMeta(e)+`, io\.EOF\)\)$`))
			case regexp.MustCompile(`^dec\.rd\.Read\(.*\)#1$`).MatchString(e):
				n++
				c.guards(f, lr.ret, fk+" :: hand back the reader's end-of-log error", 0,
					guardCmp("no byte of a next record was read", `dec\.rd\.Read\(.*\)#0`, "<=", "0"))
			}
		}
		c.Check(n == 1, fk+" :: one clean end-of-log exit", w.pos(f.Pos()), "1", fmt.Sprintf("%d raw-error returns", n))
		// every other failure the decoder reports itself is a corruption error
		for _, lr := range leaves {
			mi, isMI := lr.err.(*ssa.MakeInterface)
			if !isMI {
				continue // the reader's own error (above), or the result of the final conversion
			}
			nt := derefNamed(mi.X.Type())
			c.Check(nt != nil && nt.Obj().Name() == "DataCorruptionError", fk+" :: failures other than end-of-log are corruption errors", w.ipos(lr.ret), "DataCorruptionError", "returns an error of type "+mi.X.Type().String())
		}
	})
}

// ------------------------------------------------------------------ C15.R8
// Writer/reader agreement on the corruption error: the decoder reports corruption as a value of one
// concrete type, and the predicate that restart, repair and the end-height search branch on must test for
// exactly that dynamic type (a type assertion to it, or errors.As with a target of pointer-to-it). If the
// predicate tests for another type (e.g. the pointer type) it is never true: a torn tail is then not
// repaired and new records are appended behind it.
func init() {
	register("C15", "R8", "K5", "the corruption predicate recognises exactly the error type the decoder produces", 3, func(c *Ctx) {
		w := c.W
		dec := c.fn("consensus", "WALDecoder.Decode")
		pred := c.fn("consensus", "IsDataCorruptionError")
		if dec == nil || pred == nil {
			return
		}
		// dynamic types of the errors the decoder builds itself (deep: helpers split off it)
		produced := map[string]types.Type{}
		for _, di := range w.deepInstrs(dec, 2) {
			mi, ok := di.in.(*ssa.MakeInterface)
			if !ok || !types.Identical(mi.Type(), errorType) {
				continue
			}
			if n := derefNamed(mi.X.Type()); n != nil && n.Obj().Pkg() != nil && relPath(n.Obj().Pkg()) == "consensus" {
				produced[mi.X.Type().String()] = mi.X.Type()
			}
		}
		c.Check(len(produced) == 1, funcKey(dec)+" :: reports corruption as one concrete error type", w.pos(dec.Pos()), "one type", fmt.Sprintf("%d types: %v", len(produced), sortedTypeKeys(produced)))
		var want types.Type
		for _, t := range produced {
			want = t
		}
		if want == nil {
			return
		}
		// what the predicate tests for
		n := 0
		for _, di := range w.deepInstrs(pred, 2) {
			switch x := di.in.(type) {
			case *ssa.TypeAssert:
				n++
				c.Check(types.Identical(x.AssertedType, want), funcKey(pred)+" :: asserts the decoder's error type", w.ipos(x), want.String(), "the predicate tests for "+x.AssertedType.String()+", but the decoder produces "+want.String()+": it is never true")
			case ssa.CallInstruction:
				if d, ok := describeCallee(x); ok && d.Pkg == "errors" && d.Name == "As" && len(x.Common().Args) == 2 {
					n++
					t := underMakeInterface(x.Common().Args[1]).Type()
					p, isPtr := t.Underlying().(*types.Pointer)
					c.Check(isPtr && types.Identical(p.Elem(), want), funcKey(pred)+" :: errors.As target is a pointer to the decoder's error type", w.ipos(x), "*"+want.String(), "errors.As is asked for "+t.String()+", but the decoder produces "+want.String()+": it is never true")
				}
			}
		}
		c.Check(n >= 1, funcKey(pred)+" :: type test found", w.pos(pred.Pos()), "type assertion or errors.As", "the predicate no longer tests the error's type")
	})
}

func sortedTypeKeys(m map[string]types.Type) []string {
	var out []string
	for k := range m {
		out = append(out, k)
	}
	sort.Strings(out)
	return out
}

// regexpPatternsUsed lists the literal patterns of the regular expressions f matches with: compiled in f or
// in a helper introduced later, or compiled once into a package-level variable that f (or such a helper)
// reads.
func (w *World) regexpPatternsUsed(f *ssa.Function) []string {
	lit := func(call ssa.CallInstruction) (string, bool) {
		d, ok := describeCallee(call)
		if !ok || d.Pkg != "regexp" || (d.Name != "MustCompile" && d.Name != "Compile") || len(call.Common().Args) != 1 {
			return "", false
		}
		cst, ok := call.Common().Args[0].(*ssa.Const)
		if !ok || cst.Value == nil || cst.Value.Kind() != constant.String {
			return "", false
		}
		return constant.StringVal(cst.Value), true
	}
	// package-level variables initialised with a compiled literal
	globals := map[*ssa.Global]string{}
	if f.Pkg != nil {
		if init := f.Pkg.Func("init"); init != nil {
			for _, b := range init.Blocks {
				for _, in := range b.Instrs {
					st, ok := in.(*ssa.Store)
					if !ok {
						continue
					}
					g, ok := st.Addr.(*ssa.Global)
					if !ok {
						continue
					}
					if call := valueCall(st.Val); call != nil {
						if p, ok := lit(call); ok {
							globals[g] = p
						}
					}
				}
			}
		}
	}
	seen := map[string]bool{}
	var out []string
	add := func(p string) {
		if !seen[p] {
			seen[p] = true
			out = append(out, p)
		}
	}
	for _, di := range w.deepInstrs(f, 2) {
		if call, ok := di.in.(ssa.CallInstruction); ok {
			if p, ok := lit(call); ok {
				add(p)
			}
		}
		if u, ok := di.in.(*ssa.UnOp); ok && u.Op == token.MUL {
			if g, ok := u.X.(*ssa.Global); ok {
				if p, ok := globals[g]; ok {
					add(p)
				}
			}
		}
	}
	return out
}

// leafErrReturns lists the returns of f and of the helpers carved out of it (transparent bodies) at which
// an error value originates: returns that merely hand on the result of such a helper are skipped.
type leafReturn struct {
	fn  *ssa.Function
	ret *ssa.Return
	err ssa.Value
}

func leafErrReturns(f *ssa.Function) []leafReturn {
	fns := append([]*ssa.Function{f}, transparentBodies(f)...)
	isInner := map[*ssa.Function]bool{}
	for _, h := range fns[1:] {
		isInner[h] = true
	}
	var out []leafReturn
	for _, g := range fns {
		for _, r := range returnsOf(g) {
			ret := r.(*ssa.Return)
			if len(ret.Results) == 0 {
				continue
			}
			e := ret.Results[len(ret.Results)-1]
			if !types.Identical(e.Type(), errorType) {
				continue
			}
			if call := valueCall(e); call != nil {
				if h := staticCallee(call); h != nil && isInner[h] {
					continue // pass-through of a carved-out helper's result
				}
			}
			out = append(out, leafReturn{g, ret, e})
		}
	}
	return out
}

// ------------------------------------------------------------------ C15.R9
// Which marker delimits the records of the unfinished height: the writer puts #ENDHEIGHT 0 into an empty
// log (BaseWAL.OnStart) and #ENDHEIGHT h after finishing height h (finalizeCommit). The replay of height H
// must therefore look for H-1 — except for the chain's first height, whose records follow marker 0 whatever
// the initial height is. Looking for InitialHeight-1 finds nothing: the node starts without replay and has
// lost its lock and votes.
func init() {
	register("C15", "R9", "K5", "replay looks for the marker the writer put before the unfinished height: H-1, or 0 for the chain's first height", 4, func(c *Ctx) {
		w := c.W
		// writers
		if f := c.fn("consensus", "BaseWAL.OnStart"); f != nil {
			n := 0
			for _, call := range w.callsMatching(f, `\.WriteSync\(`) {
				if strings.Contains(w.callStr(call), "EndHeightMessage") || strings.Contains(w.callStr(call), "complit") {
					n++
					// F25: "the head file is empty" is not enough — right after a rotation the head is empty and the
					// rotated files hold the log; a second marker 0 hides the first height's records from replay
					// F69: "the whole log" are the head and its rotated files — not whatever else lies next to them
					// with the same name prefix (the .CORRUPTED copy a repair leaves): an empty head with no rotated
					// file (MaxIndex() == 0), not a group total size of 0.
					c.guards(f, call, funcKey(f)+" :: write marker 0", 0,
						guardCmp("the head is empty", `.*\.Head\.Size\(\)#0`, "==", "0"),
						guardCmp("there is no rotated file (the head is file 0 of the log)", `.*\.MaxIndex\(\)`, "==", "0"))
				}
			}
			c.Check(n == 1, funcKey(f)+" :: an empty log starts with a marker", w.pos(f.Pos()), "one synced marker write", fmt.Sprintf("%d", n))
			zero := false
			for _, di := range w.deepInstrs(f, 1) {
				if st, ok := di.in.(*ssa.Store); ok {
					if fa, ok := st.Addr.(*ssa.FieldAddr); ok && fieldName(fa.X.Type(), fa.Field) == "Height" {
						if nt := derefNamed(fa.X.Type()); nt != nil && nt.Obj().Name() == "EndHeightMessage" {
							k, isC := constInt(st.Val)
							zero = isC && k == 0
						}
					}
				}
			}
			c.Check(zero, funcKey(f)+" :: the first marker is #ENDHEIGHT 0", w.pos(f.Pos()), "EndHeightMessage{0}", "the marker of an empty log is not height 0")
		}
		// reader
		f := c.fn("consensus", "State.catchupReplay")
		if f == nil {
			return
		}
		fk := funcKey(f)
		var searches []deepCall
		for _, dc := range w.deepCallsTo(f, 2, "consensus#WAL.SearchForEndHeight", "consensus#BaseWAL.SearchForEndHeight") {
			searches = append(searches, dc)
		}
		if !c.Check(len(searches) == 2, fk+" :: sanity search and marker search found", w.pos(f.Pos()), "2 searches", fmt.Sprintf("%d", len(searches))) {
			return
		}
		H := paramName(f, 1)
		var marker ssa.Value
		var at ssa.CallInstruction
		for _, dc := range searches {
			a := callArgs(dc.call)[0]
			if dc.arg(0) != H {
				marker, at = a, dc.call
			}
		}
		if !c.Check(marker != nil, fk+" :: marker search found", w.pos(f.Pos()), "search for another height than the one replayed", "both searches look for "+H) {
			return
		}
		// the marker is chosen in place (a phi) or by a helper answering (marker, error)
		type alt struct {
			val   ssa.Value
			holds func(g Guard) bool
		}
		var alts []alt
		firstG := guardCmp("first height", q(H), "==", `.*\.InitialHeight`)
		otherG := guardCmp("not the first height", q(H), "!=", `.*\.InitialHeight`)
		if phi, isPhi := marker.(*ssa.Phi); isPhi {
			for i, e := range phi.Edges {
				pred, blk, fn := phi.Block().Preds[i], phi.Block(), phi.Parent()
				alts = append(alts, alt{e, func(g Guard) bool { ok, _ := c.ge().guardedEdge(fn, pred, blk, g, 0); return ok }})
			}
		} else if ex, isEx := marker.(*ssa.Extract); isEx {
			if call, ok := ex.Tuple.(*ssa.Call); ok {
				if h := staticCallee(call); h != nil && h.Blocks != nil && len(call.Common().Args) == len(h.Params) {
					sub := map[ssa.Value]string{}
					for i, p := range h.Params {
						sub[p] = w.expr(call.Common().Args[i])
					}
					for _, sp := range successPoints(w, h) {
						ret, isRet := sp.at.(*ssa.Return)
						if !isRet || ex.Index >= len(ret.Results) {
							continue
						}
						r := ret
						alts = append(alts, alt{resultValueAt(r, ex.Index), func(g Guard) bool {
							saved := w.subst
							w.subst = sub
							defer func() { w.subst = saved }()
							ok, _ := c.ge().guardedLocal(h, r, g, 0)
							return ok
						}})
					}
				}
			}
		}
		okShape, okFirst, okOther := len(alts) == 2, false, false
		for _, a := range alts {
			if k, isC := constInt(a.val); isC && k == 0 {
				okFirst = a.holds(firstG)
			} else if regexp.MustCompile(`^\(\w+ - 1\)$`).MatchString(w.arith(a.val)) {
				if b, ok := stripConv(a.val).(*ssa.BinOp); ok {
					if _, isParam := stripConv(b.X).(*ssa.Parameter); isParam {
						okOther = a.holds(otherG)
					}
				}
			}
		}
		c.Check(okShape && okFirst, fk+" :: the chain's first height is replayed from marker 0", w.ipos(at), "0 when "+H+" == InitialHeight", "the marker looked for is "+w.expr(marker)+": with an initial height above 1 the first height's records (written after #ENDHEIGHT 0) are not found")
		c.Check(okShape && okOther, fk+" :: any later height is replayed from the marker of the height before", w.ipos(at), H+" - 1 otherwise", "the marker looked for is "+w.expr(marker))
	})
}

// ------------------------------------------------------------------ C15.R10
// While replaying the unfinished height every corruption error must come back to the caller (OnStart then
// backs the file up, repairs it and replays again). A replay that swallows a corruption error — e.g. taking
// a damaged record with nothing behind it for a harmless torn tail — leaves the torn bytes in place: the next
// incarnation appends synced records behind them, and they are unreadable.
func init() {
	register("C15", "R10", "K1", "replay of the unfinished height hands every corruption error back (so that the log is repaired before anything is appended)", 2, func(c *Ctx) {
		w := c.W
		f := c.fn("consensus", "State.catchupReplay")
		if f == nil {
			return
		}
		fk := funcKey(f)
		n := 0
		for _, ea := range condEdgesDeep(f) {
			if ea.A.Kind != "true" || !strings.Contains(w.atomStr(ea.A), "IsDataCorruptionError(") {
				continue
			}
			// only the decode loop of the replay itself (the searches ignore old corruption on request)
			if !strings.Contains(w.atomStr(ea.A), ".Decode()#1") {
				continue
			}
			n++
			succ := ea.E.From.Succs[ea.E.Succ]
			c.Check(edgeOnlyFailsDeep(w, f, succ), fk+" :: a corrupted record in the replayed height fails the replay", w.ipos(ea.E.From.Instrs[len(ea.E.From.Instrs)-1]), "the corruption edge only leads to error returns", "replay can end normally although a record of the unfinished height was corrupted: the log is not repaired and later records are appended behind the damage")
		}
		c.Check(n >= 1, fk+" :: corruption test in the replay loop found", w.pos(f.Pos()), ">= 1", fmt.Sprintf("%d", n))
	})
}

// ------------------------------------------------------------------ C15.R11
// F60: replay of the unfinished height starts at the end-height marker of the height before. Consensus may be
// started at a height whose predecessor never went through this WAL (block sync, state sync) or whose marker
// was not written before a crash (between SaveBlock and the marker in finalizeCommit; the handshake then
// applies the block). Without the marker nothing that is written during the new height can be replayed: after
// the next crash the node is back at step NewHeight without its lock and votes. Before consensus starts
// working on the height (the receive routine is started), the start-up path makes sure the marker of
// height-1 is in the WAL: it searches for it and, not finding it, writes it with a synced write.
func init() {
	register("C15", "R11", "K2+K1", "start-up makes sure the end-height marker of the previous height is in the WAL before the new height's first record", 4, func(c *Ctx) {
		w := c.W
		f := c.fn("consensus", "State.OnStart")
		if f == nil {
			return
		}
		fk := funcKey(f)
		// the marker write reachable from OnStart (not the one of finalizeCommit)
		var ensure *deepCall
		for _, dc := range w.deepCallsTo(f, 2, "consensus#WAL.WriteSync") {
			dc := dc
			g := dc.call.Parent()
			for _, fs := range w.fieldStoresInRaw(g, "consensus", "EndHeightMessage", "Height") {
				_ = fs
				ensure = &dc
			}
		}
		if !c.Check(ensure != nil, fk+" :: a marker write is reachable from start-up", w.pos(f.Pos()), "WriteSync(EndHeightMessage{…}) in OnStart or a helper", "start-up never writes an end-height marker: after block sync, state sync or a crash before the marker the new height cannot be replayed") {
			return
		}
		g := ensure.call.Parent()
		var h string
		for _, fs := range w.fieldStoresInRaw(g, "consensus", "EndHeightMessage", "Height") {
			h = w.exprWith(fs.Store.Val, ensure.sub)
		}
		c.Check(regexp.MustCompile(`^\(\w+(?:\.RoundState)?\.Height - 1\)$`).MatchString(h), fk+" :: the marker written is that of the height before the one about to run", w.ipos(ensure.site), "cs.Height - 1", "writes the marker of "+h)
		// it is written only when a search for that very height did not find it
		// (inside the helper the height is the helper's own parameter)
		hg := h
		for _, fs := range w.fieldStoresInRaw(g, "consensus", "EndHeightMessage", "Height") {
			hg = w.expr(fs.Store.Val)
		}
		ok, why := c.ge().guarded(g, ensure.call, guardRe("the marker was searched for and not found", `^false\(\w+\.wal\.SearchForEndHeight\(`+regexp.QuoteMeta(hg)+`, .*\)#1\)$`), 0)
		if !ok && g != f {
			ok, why = c.ge().guarded(f, ensure.site, guardRe("the marker was searched for and not found", `^false\(\w+\.wal\.SearchForEndHeight\(`+regexp.QuoteMeta(h)+`, .*\)#1\)$`), 0)
		}
		c.Check(ok, fk+" :: the marker is written only when it is missing", w.ipos(ensure.site), "SearchForEndHeight(h) not found ⇒ write", "written without a search for it ("+why+"): a second marker of the same height makes the replay refuse the log")
		// before consensus starts to work on the height
		n := 0
		for _, b := range f.Blocks {
			for _, in := range b.Instrs {
				gi, isGo := in.(*ssa.Go)
				if !isGo || !w.isCall(gi, "consensus#State.receiveRoutine") {
					continue
				}
				n++
				okp, _ := mustPrecede(f, gi, func(x ssa.Instruction) bool { return x == ssa.Instruction(ensure.site) })
				c.Check(okp, fk+" :: the marker is made sure of before the receive routine starts", w.ipos(gi), "ensure ≺ go receiveRoutine", "consensus can start writing records of the new height before the previous height's marker is in the log")
			}
		}
		c.Check(n == 1, fk+" :: start of the receive routine found", w.pos(f.Pos()), "1", fmt.Sprintf("%d", n))
	})
	alias("C04", "R12", "C15", "R11", "a restarted validator keeps its lock only if the records of the unfinished height can be replayed")
}

// ------------------------------------------------------------------ C15.R12
// F61: a record appended behind a partial record is unreadable (the partial record's length field swallows
// it) and the repair after a failed replay drops everything behind the damage — including what the replay
// itself just wrote. The log is therefore checked, and cut back to its last complete record, *before* it is
// opened for appending, whether or not a replay is going to run: consensus opens its WAL file only behind
// the success of a step that reaches repairWalFile for that same file.
func init() {
	register("C15", "R12", "K1", "the WAL file is opened for appending only after its tail was checked and, if torn, repaired", 2, func(c *Ctx) {
		w := c.W
		n := 0
		for _, s := range w.allCallsTo("consensus#State.OpenWAL") {
			if strings.HasSuffix(w.Fset.Position(s.Instr.Pos()).Filename, "_test.go") || relPkg(s.Fn) != "consensus" {
				continue
			}
			n++
			f := s.Fn
			call := s.Instr.(ssa.CallInstruction)
			path := w.expr(callArgs(call)[0])
			g := Guard{Name: "a step that repairs a torn tail of that file succeeded", Key: "repairs:" + path, Match: func(w *World, ff *ssa.Function, a Atom) bool {
				if a.Kind != "nil" {
					return false
				}
				gc := atomCall(a)
				if gc == nil {
					return false
				}
				h := staticCallee(gc)
				if h == nil || h.Blocks == nil || relPkg(h) != "consensus" {
					return false
				}
				okArg := false
				for _, arg := range gc.Common().Args {
					if w.expr(arg) == path {
						okArg = true
					}
				}
				return okArg && len(w.deepCallsTo(h, 2, "consensus#repairWalFile")) > 0
			}}
			c.guards(f, call, funcKey(f)+" :: open the WAL file for appending", 0, g)
		}
		c.Check(n >= 1, "consensus :: WAL open sites found", "-", ">= 1", fmt.Sprintf("%d", n))
	})
}

// ------------------------------------------------------------------ C15.R13
// F70: the repair rewrites the log from its backup. Done in place (create = truncate the live file, then
// append record by record) a crash in the middle leaves a short but well-formed log, which no later start can
// tell from a good one: synced records are lost for good. The repaired log is written to another file,
// synced, and only then renamed over the log.
func init() {
	register("C15", "R13", "K2+K3", "the WAL repair writes the repaired log to a new file, syncs it and renames it over the log (never truncates the log in place)", 3, func(c *Ctx) {
		w := c.W
		f := c.fn("consensus", "repairWalFile")
		if f == nil {
			return
		}
		fk := funcKey(f)
		dst := paramName(f, 1)
		nCreate := 0
		for _, call := range w.callsTo(f, "os#Create", "os#OpenFile") {
			nCreate++
			arg := w.expr(callArgs(call)[0])
			c.Check(arg != dst, fk+" :: the file created for the repaired log is not the log itself", w.ipos(call), "a new file", "creates (truncates) "+arg+", the log that is being repaired: a crash during the rewrite leaves a short log that looks complete")
			// whatever a crashed earlier repair left under that name must not survive behind the new content
			trunc := w.isCall(call, "os#Create")
			if !trunc && len(callArgs(call)) >= 2 {
				if fl, isK := constInt(callArgs(call)[1]); isK && fl&int64(os.O_TRUNC) != 0 {
					trunc = true
				}
			}
			c.Check(trunc, fk+" :: the output file starts empty", w.ipos(call), "os.Create / O_TRUNC", "the output file is opened without truncation: bytes of an older, longer file stay behind the repaired records")
		}
		c.Check(nCreate == 1, fk+" :: output file creation found", w.pos(f.Pos()), "1", fmt.Sprintf("%d", nCreate))
		nRen := 0
		for _, call := range w.callsTo(f, "os#Rename") {
			nRen++
			c.Check(w.expr(callArgs(call)[1]) == dst, fk+" :: the repaired file is renamed over the log", w.ipos(call), "Rename(tmp, "+dst+")", w.callStr(call))
			ok, _ := mustPrecede(f, call, func(in ssa.Instruction) bool {
				cc, isC := in.(*ssa.Call)
				if !isC {
					return false
				}
				d, okd := describeCallee(cc)
				return okd && d.Name == "Sync" && d.Pkg == "os"
			})
			c.Check(ok, fk+" :: the repaired file is synced before it replaces the log", w.ipos(call), "Sync ≺ Rename", "the rename can happen before the file's contents are on disk")
			c.guards(f, call, fk+" :: replace the log", 0, guardRe("the sync succeeded", `^nil\(.*\.Sync\(\)\)$`))
		}
		c.Check(nRen == 1, fk+" :: rename found", w.pos(f.Pos()), "1", fmt.Sprintf("%d", nRen))
	})
}

// ------------------------------------------------------------------ C15.R14
// F71 (open): replay brings back the vote sets only if everything that decides which votes are *counted*
// went through the write-ahead log. A validator's second, conflicting vote for a block is counted by a vote
// set only once a peer has claimed +2/3 for that block (SetPeerMaj23). That claim arrives as a
// VoteSetMaj23Message and is applied by the reactor directly — outside the consensus message queue, so it is
// never logged. After a crash the replayed vote set rejects the very vote that completed the polka: the
// validator's own precommit is in the log, its lock is not restored, and it prevotes another block in the
// next round. Rule (K3): the vote sets of the consensus state are told about peer claims only from the
// state's own handlers (which run behind the WAL write of the message they handle).
func init() {
	register("C15", "R14", "K3", "what decides which votes a vote set counts (peer +2/3 claims) is applied only by the consensus state's WAL-logged handlers", 1, func(c *Ctx) {
		w := c.W
		n := 0
		ky := newKeyer()
		for _, s := range w.allCallsTo("consensus/types#HeightVoteSet.SetPeerMaj23") {
			if strings.HasSuffix(w.Fset.Position(s.Instr.Pos()).Filename, "_test.go") || strings.HasPrefix(relPkg(s.Fn), "test/") {
				continue
			}
			n++
			owner := outermost(s.Fn)
			ok := isMethodOf(owner, "consensus", "State")
			c.Check(ok, ky.key(owner, "apply a peer's +2/3 claim to the vote sets"), w.ipos(s.Instr), "inside a handler of consensus.State (behind the WAL write of the message)", "applied in "+funcKey(owner)+", outside the consensus message queue: the claim is not in the WAL, so a replay rebuilds vote sets that reject the conflicting vote it had admitted — a polka, and the lock taken on it, are lost over a restart")
		}
		c.Check(n >= 1, "consensus :: applications of peer claims found", "-", ">= 1", fmt.Sprintf("%d", n))
	})
	alias("C02", "R10", "C15", "R14", "a restarted validator must come back with the lock it had, or it prevotes another block without a more recent polka")
}
