package main

import (
	"fmt"
	"strings"

	"golang.org/x/tools/go/ssa"
)

// dumpFunc prints a function's blocks with canonical expressions: the view rules are written against.
func dumpFunc(w *World, f *ssa.Function) {
	fmt.Printf("== %s (%s)\n", funcKey(f), w.pos(f.Pos()))
	for _, b := range f.Blocks {
		var preds, succs []string
		for _, p := range b.Preds {
			preds = append(preds, fmt.Sprint(p.Index))
		}
		for _, s := range b.Succs {
			succs = append(succs, fmt.Sprint(s.Index))
		}
		fmt.Printf(" b%d [%s] preds=%s succs=%s\n", b.Index, b.Comment, strings.Join(preds, ","), strings.Join(succs, ","))
		for _, in := range b.Instrs {
			line := w.ipos(in)
			switch x := in.(type) {
			case ssa.CallInstruction:
				kind := "call"
				if _, ok := in.(*ssa.Defer); ok {
					kind = "defer"
				}
				if _, ok := in.(*ssa.Go); ok {
					kind = "go"
				}
				fmt.Printf("    %s %s  {%s} @%s\n", kind, w.callStr(x), calleeName(x), line)
			case *ssa.Store:
				fmt.Printf("    store %s = %s @%s\n", w.expr(x.Addr), w.expr(x.Val), line)
			case *ssa.If:
				fmt.Printf("    if T:%s | F:%s\n", w.atomStr(normCond(x.Cond, true)), w.atomStr(normCond(x.Cond, false)))
			case *ssa.Return:
				var rs []string
				for _, r := range x.Results {
					rs = append(rs, w.expr(r))
				}
				fmt.Printf("    return %s @%s\n", strings.Join(rs, ", "), line)
			case *ssa.Send:
				fmt.Printf("    send %s <- %s @%s\n", w.expr(x.Chan), w.expr(x.X), line)
			case *ssa.Panic:
				fmt.Printf("    panic @%s\n", line)
			case *ssa.MapUpdate:
				fmt.Printf("    mapupdate %s[%s] = %s @%s\n", w.expr(x.Map), w.expr(x.Key), w.expr(x.Value), line)
			case *ssa.RunDefers:
				fmt.Printf("    rundefers\n")
			case *ssa.Phi:
				fmt.Printf("    %s = %s\n", x.Name(), w.expr(x))
			case *ssa.Range, *ssa.Next, *ssa.Select, *ssa.MakeClosure:
				fmt.Printf("    %s = %s @%s\n", x.(ssa.Value).Name(), w.expr(x.(ssa.Value)), line)
			}
		}
	}
}
