package main

func init() {
	st := "consensus/state.go"
	addWitness(Witness{Name: "prevote-step-guard-off-by-one", Prop: "C02", Rule: "C02.R2", Kind: "break", File: st,
		Old: "if cs.Height != height || round < cs.Round || (cs.Round == round && cstypes.RoundStepPrevote <= cs.Step) {",
		New: "if cs.Height != height || round < cs.Round || (cs.Round == round && cstypes.RoundStepPrevote < cs.Step) {"})
	addWitness(Witness{Name: "precommit-round-guard-dropped", Prop: "C02", Rule: "C02.R2", Kind: "break", File: st,
		Old: "if cs.Height != height || round < cs.Round || (cs.Round == round && cstypes.RoundStepPrecommit <= cs.Step) {",
		New: "if cs.Height != height || (cs.Round == round && cstypes.RoundStepPrecommit <= cs.Step) {"})
	addWitness(Witness{Name: "unlock-on-future-round-polka", Prop: "C02", Rule: "C02.R4", Kind: "break", File: st,
		Old: "				(vote.Round <= cs.Round) &&\n", New: ""})
	addWitness(Witness{Name: "precommit-without-block", Prop: "C02", Rule: "C02.R3", Kind: "break", File: st,
		Old: "	if cs.ProposalBlock.HashesTo(blockID.Hash) {\n		logger.Debug(\"precommit step; +2/3 prevoted proposal block; locking\"",
		New: "	if cs.ProposalBlock != nil {\n		logger.Debug(\"precommit step; +2/3 prevoted proposal block; locking\""})
	addWitness(Witness{Name: "precommit-cast-in-prevote-wait", Prop: "C02", Rule: "C02.R1", Kind: "break", File: st,
		Old: "	// Wait for some more prevotes; enterPrecommit\n", New: "	cs.signAddVote(tmproto.PrecommitType, nil, types.PartSetHeader{})\n"})
	addWitness(Witness{Name: "signer-step-regression-window", Prop: "C02", Rule: "C02.R5", Kind: "break", File: "privval/file.go",
		Old: "			if lss.Step > step {", New: "			if lss.Step > step+1 {"})
	addWitness(Witness{Name: "signer-resign-same-hrs-for-precommit", Prop: "C02", Rule: "C02.R5", Kind: "break", File: "privval/file.go",
		Old: "	if sameHRS {\n		if bytes.Equal(signBytes, lss.SignBytes) {\n			vote.Signature = lss.Signature",
		New: "	if sameHRS && vote.Type != tmproto.PrecommitType {\n		if bytes.Equal(signBytes, lss.SignBytes) {\n			vote.Signature = lss.Signature"})
	addWitness(Witness{Name: "signer-reuse-signature-unconditionally", Prop: "C02", Rule: "C02.R5", Kind: "break", File: "privval/file.go",
		Old: "		if bytes.Equal(signBytes, lss.SignBytes) {\n			proposal.Signature = lss.Signature",
		New: "		if len(signBytes) == len(lss.SignBytes) {\n			proposal.Signature = lss.Signature"})
	// neutral: step guard rewritten with early returns
	addWitness(Witness{Name: "neutral-step-guard-split", Prop: "C02", Kind: "neutral", File: st,
		Old: "	if cs.Height != height || round < cs.Round || (cs.Round == round && cstypes.RoundStepPrevote <= cs.Step) {\n",
		New: "	if cs.Height != height {\n		return\n	}\n	if round < cs.Round || (cs.Round == round && cs.Step >= cstypes.RoundStepPrevote) {\n"})
}
