package main

func init() {
	vs := "types/validator_set.go"
	addWitness(Witness{Name: "light-threshold-geq", Prop: "C07", Rule: "C07.R1", Kind: "break", File: vs,
		Old: "		// return as soon as +2/3 of the signatures are verified\n		if talliedVotingPower > votingPowerNeeded {", New: "		// return as soon as +2/3 of the signatures are verified\n		if talliedVotingPower >= votingPowerNeeded {"})
	addWitness(Witness{Name: "full-threshold-third", Prop: "C07", Rule: "C07.R1", Kind: "break", File: vs,
		Old: "	talliedVotingPower := int64(0)\n	votingPowerNeeded := vals.TotalVotingPower() * 2 / 3\n	for idx, commitSig := range commit.Signatures {\n		if commitSig.Absent() {",
		New: "	talliedVotingPower := int64(0)\n	votingPowerNeeded := vals.TotalVotingPower() / 3 * 2\n	for idx, commitSig := range commit.Signatures {\n		if commitSig.Absent() {"})
	addWitness(Witness{Name: "full-counts-nil-votes", Prop: "C07", Rule: "C07.R1", Kind: "break", File: vs,
		Old: "		// Good!\n		if commitSig.ForBlock() {\n			talliedVotingPower += val.VotingPower\n		}", New: "		// Good!\n		if !commitSig.Absent() {\n			talliedVotingPower += val.VotingPower\n		}"})
	addWitness(Witness{Name: "trusting-wrong-sign-bytes-index", Prop: "C07", Rule: "C07.R1", Kind: "break", File: vs,
		Old: "			seenVals[valIdx] = idx\n\n			// Validate signature.\n			voteSignBytes := commit.VoteSignBytes(chainID, int32(idx))", New: "			seenVals[valIdx] = idx\n\n			// Validate signature.\n			voteSignBytes := commit.VoteSignBytes(chainID, valIdx)"})
	addWitness(Witness{Name: "light-blockid-check-dropped", Prop: "C07", Rule: "C07.R1", Kind: "break", File: vs,
		Old: "	if !blockID.Equals(commit.BlockID) {\n		return fmt.Errorf(\"invalid commit -- wrong block ID: want %v, got %v\",\n			blockID, commit.BlockID)\n	}\n\n	talliedVotingPower := int64(0)\n	votingPowerNeeded := vals.TotalVotingPower() * 2 / 3\n	for idx, commitSig := range commit.Signatures {\n		// No need to verify absent or nil votes.",
		New: "	talliedVotingPower := int64(0)\n	votingPowerNeeded := vals.TotalVotingPower() * 2 / 3\n	for idx, commitSig := range commit.Signatures {\n		// No need to verify absent or nil votes."})
	addWitness(Witness{Name: "nil-sig-signs-commit-blockid", Prop: "C07", Rule: "C07.R4", Kind: "break", File: "types/block.go",
		Old: "	case BlockIDFlagNil:\n		blockID = BlockID{}", New: "	case BlockIDFlagNil:\n		blockID = commitBlockID"})
	addWitness(Witness{Name: "canonical-vote-drops-round", Prop: "C07", Rule: "C07.R4", Kind: "break", File: "types/canonical.go",
		Old: "		Round:     int64(vote.Round), // encoded as sfixed64\n		BlockID:   CanonicalizeBlockID(vote.BlockID),", New: "		Round:     0, // encoded as sfixed64\n		BlockID:   CanonicalizeBlockID(vote.BlockID),"})
}
