package main

import (
	"go/token"
	"sync"

	"golang.org/x/tools/go/ssa"
)

// Transparent helpers. A function that did not exist when the rules were confirmed (absent from the
// frozen name table) and that has exactly one static call site is what an "extract helper" refactoring
// produces. The analysis looks through it: its parameters render as the arguments passed at that site,
// its single-expression results render as that expression, its instructions are listed with those of its
// caller, and path questions about an instruction inside it (guarded on all paths? preceded by? lock
// held?) are answered over the chain helper → call site → caller. On the tree the rules were confirmed
// on no function is transparent, so nothing changes there.

var (
	worldOfProg sync.Map // *ssa.Program -> *World
)

func worldFor(f *ssa.Function) *World {
	if f == nil || f.Prog == nil {
		return nil
	}
	if v, ok := worldOfProg.Load(f.Prog); ok {
		return v.(*World)
	}
	return nil
}

// transparentSite returns the single static call site of f if f is a transparent helper.
func transparentSite(f *ssa.Function) *ssa.Call {
	if f == nil {
		return nil
	}
	w := worldFor(f)
	if w == nil {
		return nil
	}
	if v, ok := w.transCache.Load(f); ok {
		c, _ := v.(*ssa.Call)
		return c
	}
	var res *ssa.Call
	defer func() {
		if res == nil {
			w.transCache.Store(f, (*ssa.Call)(nil))
		} else {
			w.transCache.Store(f, res)
		}
	}()
	if f.Parent() != nil || f.Blocks == nil || f.Synthetic != "" || f.Pkg == nil {
		return nil
	}
	if !w.inFuncs(f) {
		return nil
	}
	loadFrozen()
	if len(frozenTable) == 0 || frozenTable[funcKey(f)] != nil {
		return nil
	}
	w.buildCallers()
	cs := w.callers[f]
	if len(cs) != 1 {
		return nil
	}
	c, ok := cs[0].(*ssa.Call)
	if !ok || c.Parent() == f || len(c.Common().Args) != len(f.Params) {
		return nil
	}
	res = c
	return res
}

// siteChain lists (function, instruction) pairs from the instruction's own function up to f through
// transparent call sites: [(h, target), (g, site of h), …, (f, site)]. nil if target is not under f.
type chainLink struct {
	fn *ssa.Function
	at ssa.Instruction
}

func siteChain(f *ssa.Function, target ssa.Instruction) []chainLink {
	var out []chainLink
	cur := target
	for i := 0; i < 6; i++ {
		fn := cur.Parent()
		out = append(out, chainLink{fn, cur})
		if fn == f {
			return out
		}
		site := transparentSite(fn)
		if site == nil {
			return nil
		}
		cur = site
	}
	return nil
}

// transparentBodies lists the transparent helpers called (transitively) from f.
func transparentBodies(f *ssa.Function) []*ssa.Function {
	var out []*ssa.Function
	seen := map[*ssa.Function]bool{f: true}
	var walk func(g *ssa.Function, d int)
	walk = func(g *ssa.Function, d int) {
		if d > 4 {
			return
		}
		for _, c := range rawCallInstrs(g) {
			call, ok := c.(*ssa.Call)
			if !ok {
				continue
			}
			h := staticCallee(call)
			if h == nil || seen[h] || transparentSite(h) != call {
				continue
			}
			seen[h] = true
			out = append(out, h)
			walk(h, d+1)
		}
	}
	walk(f, 0)
	return out
}

// singleResultExpr: the one non-constant expression a function returns at result index i, if unique.
func singleResultExpr(h *ssa.Function, i int) ssa.Value {
	var one ssa.Value
	for _, b := range h.Blocks {
		if len(b.Instrs) == 0 {
			continue
		}
		ret, ok := b.Instrs[len(b.Instrs)-1].(*ssa.Return)
		if !ok || i >= len(ret.Results) {
			continue
		}
		r := ret.Results[i]
		if _, isConst := stripConv(r).(*ssa.Const); isConst {
			continue
		}
		if one != nil && one != r {
			return nil
		}
		one = r
	}
	return one
}

// condEdgesDeep: the conditional edges of f and of the transparent helpers it calls (for existence checks
// only: path questions stay within one function and go through siteChain).
func condEdgesDeep(f *ssa.Function) []struct {
	E Edge
	A Atom
} {
	out := condEdges(f)
	for _, h := range transparentBodies(f) {
		out = append(out, condEdges(h)...)
	}
	return out
}

// isNewFunc: an in-scope function that did not exist when the rules were confirmed.
func isNewFunc(f *ssa.Function) bool {
	if f == nil || f.Parent() != nil || f.Blocks == nil || f.Synthetic != "" {
		return false
	}
	w := worldFor(f)
	if w == nil || !w.inFuncs(f) {
		return false
	}
	loadFrozen()
	return len(frozenTable) > 0 && frozenTable[funcKey(f)] == nil
}

// deepInstr is an instruction of f or of a function introduced later that f calls (at any number of
// sites); sub renders the helper's parameters as the arguments of the call through which it was reached.
type deepInstr struct {
	in  ssa.Instruction
	sub map[ssa.Value]string
}

func (w *World) deepInstrs(f *ssa.Function, depth int) []deepInstr {
	var out []deepInstr
	var walk func(g *ssa.Function, sub map[ssa.Value]string, d int, seen map[*ssa.Function]bool)
	walk = func(g *ssa.Function, sub map[ssa.Value]string, d int, seen map[*ssa.Function]bool) {
		for _, b := range g.Blocks {
			for _, in := range b.Instrs {
				out = append(out, deepInstr{in, sub})
				call, ok := in.(*ssa.Call)
				if !ok || d <= 0 {
					continue
				}
				h := staticCallee(call)
				if h == nil || seen[h] || !isNewFunc(h) || len(call.Common().Args) != len(h.Params) {
					continue
				}
				nsub := map[ssa.Value]string{}
				for i, p := range h.Params {
					nsub[p] = w.exprWith(call.Common().Args[i], sub)
				}
				seen[h] = true
				walk(h, nsub, d-1, seen)
				delete(seen, h)
			}
		}
	}
	walk(f, nil, depth, map[*ssa.Function]bool{f: true})
	return out
}

// Release drops the global reference to a World so that a mutated copy can be collected.
func (w *World) Release() { worldOfProg.Delete(w.Prog) }

// condAtomsDeep: canonical strings of every condition f (or a transparent helper under it) tests — branch
// conditions in both polarities, plus comparisons a transparent predicate helper returns as its value
// (`return a || (b && c)` branches on a and b but returns c).
func (w *World) condAtomsDeep(f *ssa.Function) map[string]bool {
	out := map[string]bool{}
	for _, ea := range condEdgesDeep(f) {
		out[w.canonAtom(ea.A)] = true
	}
	for _, h := range transparentBodies(f) {
		if !isPredicate(h) {
			continue
		}
		var visit func(v ssa.Value, d int)
		visit = func(v ssa.Value, d int) {
			if d > 5 {
				return
			}
			switch x := v.(type) {
			case *ssa.Const:
				return
			case *ssa.Phi:
				for _, e := range x.Edges {
					visit(e, d+1)
				}
				return
			case *ssa.UnOp:
				if x.Op == token.NOT {
					visit(x.X, d+1)
					return
				}
			}
			out[w.canonAtom(normCond(v, true))] = true
			out[w.canonAtom(normCond(v, false))] = true
		}
		for _, r := range returnsOf(h) {
			visit(r.(*ssa.Return).Results[0], 0)
		}
	}
	return out
}

// transparentRoot: the function a transparent helper is (transitively) part of.
func transparentRoot(f *ssa.Function) *ssa.Function {
	for i := 0; i < 6; i++ {
		site := transparentSite(f)
		if site == nil {
			return f
		}
		f = site.Parent()
	}
	return f
}
