package main

import (
	"fmt"
	"go/token"
	"regexp"
	"strings"

	"golang.org/x/tools/go/ssa"
)

func init() {
	// ------------------------------------------------------------------ C08.R1/R2
	register("C08", "R1", "K2", "validator updates are verified completely before the set is touched; after applying: total, rescale, centre, sort", 12, func(c *Ctx) {
		w := c.W
		f := c.fn("types", "ValidatorSet.updateWithChangeSet")
		if f == nil {
			return
		}
		fk := funcKey(f)
		mutators := []string{"types#ValidatorSet.applyUpdates", "types#ValidatorSet.applyRemovals", "types#ValidatorSet.updateTotalVotingPower", "types#ValidatorSet.RescalePriorities", "types#ValidatorSet.shiftByAvgProposerPriority", "sort#Sort"}
		isMut := w.callPred(mutators...)
		// no error return after the first mutation
		for _, b := range f.Blocks {
			for _, in := range b.Instrs {
				if !isMut(in) {
					continue
				}
				qq := &pathQ{target: func(x ssa.Instruction) bool {
					r, ok := x.(*ssa.Return)
					return ok && !isNilConst(r.Results[len(r.Results)-1])
				}}
				hit, _ := qq.reach(b, instrIndex(in)+1)
				c.Check(hit == nil, fk+" :: no failure exit after "+calleeName(in.(ssa.CallInstruction)), w.ipos(in), "once the set is modified the update cannot fail", "an error return is reachable after the set was already modified: the set would be left half-updated")
			}
		}
		// every mutation is behind all verification steps
		verified := []Guard{
			guardRe("changes are individually valid and duplicate-free", `^nil\(types\.processChanges\(changes\)#2\)$`),
			guardRe("removals refer to existing validators", `^nil\(types\.verifyRemovals\(.*\)#1\)$`),
			guardRe("resulting total power within the limit", `^nil\(types\.verifyUpdates\(.*\)#1\)$`),
			guardAny("the result is not the empty set", guardCmp("a", `types\.numNewValidators\(.*\)`, "!=", "0"), guardCmp("b", `len\(vals\.Validators\)`, "!=", `len\(types\.processChanges\(changes\)#1\)`)),
			guardAny("deletes only when allowed", guardRe("a", `^true\(allowDeletes\)$`), guardCmp("b", `len\(types\.processChanges\(changes\)#1\)`, "==", "0")),
		}
		for _, call := range w.callsTo(f, "types#ValidatorSet.applyUpdates") {
			c.guards(f, call, fk+" :: first mutation (applyUpdates)", 0, verified...)
		}
		// order after verification
		seq := []string{"types#computeNewPriorities", "types#ValidatorSet.applyUpdates", "types#ValidatorSet.applyRemovals", "types#ValidatorSet.updateTotalVotingPower", "types#ValidatorSet.RescalePriorities", "types#ValidatorSet.shiftByAvgProposerPriority", "sort#Sort"}
		for i := 0; i+1 < len(seq); i++ {
			for _, later := range w.callsTo(f, seq[i+1]) {
				ok, _ := mustPrecede(f, later, w.callPred(seq[i]))
				c.Check(ok, fk+" :: "+seq[i][strings.Index(seq[i], "#")+1:]+" before "+seq[i+1][strings.Index(seq[i+1], "#")+1:], w.ipos(later), "ordered", "step order changed")
			}
		}
		for _, call := range w.callsTo(f, "types#ValidatorSet.RescalePriorities") {
			c.Check(w.expr(callArgs(call)[0]) == "(2 * vals.TotalVotingPower())", fk+" :: rescale window is 2 * total power", w.ipos(call), "PriorityWindowSizeFactor * total", "rescale window is "+w.expr(callArgs(call)[0]))
		}
		// per-change input checks
		if g := c.fn("types", "processChanges"); g != nil {
			maxP := c.mustConst("types", "MaxTotalVotingPower")
			for _, gd := range []Guard{
				guardRe("no duplicate address in the batch", `^false\(bytes\.Equal\(.*\.Address, .*\.Address.*\)\)$`),
				guardCmp("power not negative", `.*\.VotingPower`, ">=", "0"),
				guardCmp("power within the per-validator limit", `.*\.VotingPower`, "<=", fmt.Sprint(maxP)),
			} {
				c.loopItemGuard(g, "types.processChanges :: every change accepted into the batch", gd)
			}
		}
		if g := c.fn("types", "verifyRemovals"); g != nil {
			c.loopItemGuard(g, "types.verifyRemovals :: every removal accepted", guardRe("the removed validator exists", `^nonnil\(vals\.GetByAddress\(.*\)#1\)$`))
		}
		if g := c.fn("types", "verifyUpdates"); g != nil {
			okOv := false
			for _, ea := range condEdges(g) {
				if ea.A.Kind == "cmp" && strings.Contains(w.expr(ea.A.Y), fmt.Sprint(c.mustConst("types", "MaxTotalVotingPower"))) && (ea.A.Op.String() == ">" || ea.A.Op.String() == "<=") {
					okOv = true
				}
			}
			c.Check(okOv, "types.verifyUpdates bounds the running total by MaxTotalVotingPower", w.pos(g.Pos()), "running total compared with the limit", "no comparison of the running total with MaxTotalVotingPower")
		}
	})

	// ------------------------------------------------------------------ C08.R3
	register("C08", "R3", "K11", "proposer-priority arithmetic has the specified shapes (clipped add/sub, ceil-division rescale, -1.125*total for new validators)", 6, func(c *Ctx) {
		w := c.W
		idx := fwdIdx
		v := `\w+\.Validators\[` + idx + `\]`
		allowed := []struct{ name, re string }{
			{"increment by voting power (clipped)", `^types\.safeAddClip\(` + v + `\.ProposerPriority, ` + v + `\.VotingPower\)$`},
			{"proposer pays the total power (clipped)", `^types\.safeSubClip\(\w+\.getValWithMostPriority\(\)\.ProposerPriority, \w+\.TotalVotingPower\(\)\)$`},
			{"centre on the average (clipped)", `^types\.safeSubClip\(` + v + `\.ProposerPriority, \w+\.computeAvgProposerPriority\(\)\)$`},
			{"rescale by ceil(diff / diffMax)", `^\(` + v + `\.ProposerPriority / \(\(\(types\.computeMaxMinPriorityDiff\(\w+\) \+ diffMax\) - 1\) / diffMax\)\)$`},
			{"new validator starts at -(total + total/8)", `^-\(updatedTotalVotingPower \+ \(updatedTotalVotingPower >> 3\)\)$`},
			{"existing validator keeps its priority", `^\w+\.GetByAddress\(.*\.Address\)#1\.ProposerPriority$`},
			{"copy", `^\w+\.ProposerPriority$`},
		}
		n := 0
		k := newKeyer()
		for _, fs := range w.fieldStores("types", "Validator", "ProposerPriority") {
			if relPkg(fs.Fn) != "types" || rootIsFresh(fs.Addr) {
				continue
			}
			n++
			val := w.arith(fs.Store.Val)
			val2 := w.expr(fs.Store.Val)
			okShape := ""
			for _, a := range allowed {
				if regexp.MustCompile(a.re).MatchString(val) || regexp.MustCompile(a.re).MatchString(val2) {
					okShape = a.name
				}
			}
			c.Check(okShape != "", k.key(fs.Fn, "ProposerPriority ="), w.ipos(fs.Store), okShape, "priority is set to an expression outside the specified arithmetic: "+val2)
		}
		c.Check(n >= 5, "types proposer priority stores", "types/validator_set.go", fmt.Sprintf("%d stores", n), fmt.Sprintf("only %d stores to ProposerPriority found", n))
		// rescale only when the spread exceeds the window
		if f := c.fn("types", "ValidatorSet.RescalePriorities"); f != nil {
			for _, fs := range w.fieldStoresIn(f, "types", "Validator", "ProposerPriority") {
				c.guards(f, fs.Store, funcKey(f)+" :: divide priorities", 0, guardCmp("spread exceeds the window", `types\.computeMaxMinPriorityDiff\(\w+\)`, ">", "diffMax"), guardCmp("window positive", "diffMax", ">", "0"))
			}
		}
		// IncrementProposerPriority: rescale, centre, then `times` rounds; proposer = last round's pick
		if f := c.fn("types", "ValidatorSet.IncrementProposerPriority"); f != nil {
			fk := funcKey(f)
			for _, call := range w.callsTo(f, "types#ValidatorSet.RescalePriorities") {
				c.Check(w.expr(callArgs(call)[0]) == "(2 * vals.TotalVotingPower())", fk+" :: rescale window is 2 * total power", w.ipos(call), "2 * total", w.expr(callArgs(call)[0]))
			}
			// one round = the single-step helper, or (inlined) the pick of the validator with most priority
			rounds := w.callsTo(f, "types#ValidatorSet.incrementProposerPriority")
			pick := "incrementProposerPriority()"
			if len(rounds) == 0 {
				rounds = w.callsTo(f, "types#ValidatorSet.getValWithMostPriority")
				pick = "getValWithMostPriority()"
			}
			c.Check(len(rounds) == 1, fk+" :: round step found", w.pos(f.Pos()), "one round step in the loop", fmt.Sprintf("%d round steps", len(rounds)))
			for _, inc := range rounds {
				ok1, _ := mustPrecede(f, inc, w.callPred("types#ValidatorSet.shiftByAvgProposerPriority"))
				ok2, _ := mustPrecede(f, inc, w.callPred("types#ValidatorSet.RescalePriorities"))
				c.Check(ok1 && ok2, fk+" :: rescale and centre before the rounds", w.ipos(inc), "ordered", "rounds can run before rescaling/centring")
				// `times` iterations, whatever the form of the loop (counting up or down; the step possibly in a
				// helper of its own): the site in this function that stands for the step
				var site ssa.Instruction = inc
				if inc.Parent() != f {
					if ch := siteChain(f, inc); ch != nil {
						site = ch[len(ch)-1].at
					}
				}
				trips, okT := unitLoopTrips(w, site)
				c.Check(okT && trips == "times", fk+" :: one round per requested time <= round counter below times", w.ipos(inc), "`times` iterations", "the step runs "+trips+" times")
			}
			got := storedFields(w, f, "ValidatorSet")
			c.Check(strings.Contains(got["Proposer"], pick), fk+" :: proposer is the pick of the last round", w.pos(f.Pos()), got["Proposer"], "Proposer set to "+got["Proposer"])
		}
		if f := w.Fn("types", "ValidatorSet.incrementProposerPriority"); f != nil && f.Blocks != nil {
			rv := returnValues(f, 0)
			c.Check(len(rv) == 1 && strings.HasSuffix(w.expr(rv[0]), ".getValWithMostPriority()"), funcKey(f)+" :: picks the validator with the most priority", w.pos(f.Pos()), "returns getValWithMostPriority()", "returns something else")
		}
	})

	// ------------------------------------------------------------------ C08.R5
	register("C08", "R5", "K5", "historical lookup: writer and reader agree on when a full set is stored; the reader advances priorities by exactly the distance from the stored set", 9, func(c *Ctx) {
		w := c.W
		C := c.mustConst("state", "valSetCheckpointInterval")
		cs := fmt.Sprint(C)
		for _, f := range w.FuncsInPkg("state") {
			// writer: the function that stores ValidatorsInfo.ValidatorSet from a live set
			for _, fs := range w.fieldStoresIn(f, "proto/tendermint/state", "ValidatorsInfo", "ValidatorSet") {
				if !strings.Contains(w.expr(fs.Store.Val), ".ToProto()#0") || strings.Contains(w.expr(fs.Store.Val), "FromProto") {
					continue
				}
				if len(w.callsMatching(f, `\.db\.Set\(`)) == 0 {
					continue
				}
				c.guards(f, fs.Store, funcKey(f)+" :: store the full validator set", 0,
					guardAny("height is where the set last changed, or a checkpoint height", guardCmp("a", "height", "==", "lastHeightChanged"), guardCmp("b", `\(height % `+cs+`\)`, "==", "0")))
				// ...and conversely the full set IS stored in both cases
				for _, ea := range condEdges(f) {
					if guardCmp("a", "height", "==", "lastHeightChanged").Match(w, f, ea.A) || guardCmp("b", `\(height % `+cs+`\)`, "==", "0").Match(w, f, ea.A) {
						succ := ea.E.From.Succs[ea.E.Succ]
						qq := &pathQ{kill: func(in ssa.Instruction) bool { return in == ssa.Instruction(fs.Store) }, target: func(in ssa.Instruction) bool {
							r, ok := in.(*ssa.Return)
							return ok && isNilConst(r.Results[0])
						}}
						hit, _ := qq.reach(succ, 0)
						c.Check(hit == nil, funcKey(f)+" :: full set always stored at change/checkpoint heights", w.ipos(fs.Store), "success implies the set was stored", "at a change or checkpoint height the record can be written without the full set")
					}
				}
				c.guards(f, fs.Store, funcKey(f)+" :: record is consistent", 0, guardCmp("last-changed height not after the record height", "lastHeightChanged", "<=", "height"))
			}
		}
		if f := c.fn("state", "lastStoredHeightFor"); f != nil {
			rv := returnValues(f, 0)
			a, b := "(height - (height % "+cs+"))", "lastHeightChanged"
			want := "libs/math.MaxInt64(" + a + ", " + b + ")"
			ok := len(rv) == 1 && (w.expr(rv[0]) == want || w.expr(rv[0]) == "libs/math.MaxInt64("+b+", "+a+")")
			if !ok && len(rv) == 2 {
				// the maximum spelled out: each operand is returned where it is not the smaller one
				ok = true
				seen := map[string]bool{}
				for _, r := range returnsOf(f) {
					ret := r.(*ssa.Return)
					v := w.expr(ret.Results[0])
					seen[v] = true
					var g Guard
					switch v {
					case a:
						g = guardCmp("checkpoint height is not the smaller one", q(a), ">=", q(b))
					case b:
						g = guardCmp("last-changed height is not the smaller one", q(b), ">=", q(a))
					default:
						ok = false
						continue
					}
					if okg, _ := c.ge().guarded(f, ret, g, 0); !okg {
						ok = false
					}
				}
				ok = ok && seen[a] && seen[b]
			}
			c.Check(ok, "state.lastStoredHeightFor = max(height - height % checkpoint, lastHeightChanged)", w.pos(f.Pos()), want, "computed as "+fmt.Sprint(len(rv)))
		}
		if f := c.fn("state", "dbStore.LoadValidators"); f != nil {
			fk := funcKey(f)
			var lastStored string
			for _, call := range w.callsTo(f, "state#loadValidatorsInfo") {
				a := w.expr(callArgs(call)[1])
				if a != "height" {
					lastStored = a
				}
			}
			c.Check(regexp.MustCompile(`^state\.lastStoredHeightFor\(height, state\.loadValidatorsInfo\(store\.db, height\)#0\.LastHeightChanged\)$`).MatchString(lastStored), fk+" :: falls back to the last stored full set", w.pos(f.Pos()), lastStored, "second lookup is at "+lastStored)
			// The chain rotates the proposer with IncrementProposerPriority(1) once per height (rescaling and
			// centring the priorities every time); one call with a larger argument rescales and centres only
			// once and yields different priorities — and a different proposer — after the set has changed (F39).
			// The reader therefore replays the distance one height at a time.
			for _, inc := range w.callsTo(f, "types#ValidatorSet.IncrementProposerPriority") {
				k, isK := constInt(callArgs(inc)[0])
				c.Check(isK && k == 1, fk+" :: priorities advanced one height at a time, as the chain advanced them", w.ipos(inc), "IncrementProposerPriority(1) per height", "priorities are advanced by "+w.expr(callArgs(inc)[0])+" in one call; the chain advanced them by 1 per height, which gives different priorities once the set has changed")
				trips, ok := unitLoopTrips(w, inc)
				want := "libs/math.SafeConvertInt32((height - " + lastStored + "))"
				want64 := "(height - " + lastStored + ")"
				if !ok {
					trips = "not a counted loop the analysis recognises"
				}
				c.Check(ok && (trips == want || trips == want64), fk+" :: priorities advanced by (height - height of the set that was loaded)", w.ipos(inc), want+" iterations", "the rotation is replayed "+trips+" times, not the distance from the loaded set at "+lastStored)
				recv := w.expr(callRecv(inc))
				c.Check(strings.Contains(recv, "loadValidatorsInfo(store.db, "+lastStored+")#0.ValidatorSet"), fk+" :: the advanced set is the one loaded from the last stored height", w.ipos(inc), recv, "advanced set is "+recv)
			}
			c.Check(len(w.callsTo(f, "types#ValidatorSet.IncrementProposerPriority")) == 1, fk+" :: advances priorities once", w.pos(f.Pos()), "one IncrementProposerPriority site", "unexpected number of IncrementProposerPriority calls")
		}
		// Store.save writes NextValidators under nextHeight+1 with the last-changed height
		if f := c.fn("state", "dbStore.save"); f != nil {
			var calls []string
			for _, call := range w.callsTo(f, "state#dbStore.saveValidatorsInfo") {
				calls = append(calls, w.callStr(call))
			}
			okInit, okNext := false, false
			for _, s := range calls {
				if s == "store.saveValidatorsInfo(state.InitialHeight, state.InitialHeight, state.Validators)" {
					okInit = true
				}
				if regexp.MustCompile(`^store\.saveValidatorsInfo\(\(phi\(\(state\.LastBlockHeight \+ 1\)\|state\.InitialHeight\) \+ 1\), state\.LastHeightValidatorsChanged, state\.NextValidators\)$`).MatchString(s) {
					okNext = true
				}
			}
			c.Check(okInit, funcKey(f)+" :: initial validators stored under the initial height", w.pos(f.Pos()), "saveValidatorsInfo(InitialHeight, InitialHeight, Validators)", strings.Join(calls, " ; "))
			c.Check(okNext, funcKey(f)+" :: next validators stored under next height + 1 with the last-changed height", w.pos(f.Pos()), "saveValidatorsInfo(nextHeight+1, LastHeightValidatorsChanged, NextValidators)", strings.Join(calls, " ; "))
		}
	})

	// ------------------------------------------------------------------ C08.R8
	// Bootstrap (state sync) is the sibling of save: it stores full sets for the three heights a fresh
	// state knows about, and each must be the set in force at that height: LastValidators at H-1,
	// Validators at H, NextValidators at H+1 (H = the next block's height). Every later record points
	// back to the H+1 record, so a wrong set there is served for all following heights.
	register("C08", "R8", "K5", "bootstrap stores, as full records, exactly the set in force at each of the heights H-1, H, H+1", 5, func(c *Ctx) {
		w := c.W
		f := c.fn("state", "dbStore.Bootstrap")
		if f == nil {
			return
		}
		fk := funcKey(f)
		H := `phi\(\(state\.LastBlockHeight \+ 1\)\|state\.InitialHeight\)`
		table := []struct{ h, set string }{
			{`\(` + H + ` - 1\)`, "state.LastValidators"},
			{H, "state.Validators"},
			{`\(` + H + ` \+ 1\)`, "state.NextValidators"},
		}
		k := newKeyer()
		for _, dc := range w.deepCallsTo(f, 2, "state#dbStore.saveValidatorsInfo") {
			h, ch, set := dc.arg(0), dc.arg(1), dc.arg(2)
			ok := false
			for _, t := range table {
				if regexp.MustCompile("^"+t.h+"$").MatchString(h) && set == t.set {
					ok = true
				}
			}
			c.Check(ok, k.key(f, "record for a height holds the set in force there"), w.ipos(dc.site), "(H-1, LastValidators) (H, Validators) (H+1, NextValidators)", "bootstrap stores "+set+" as the validator set of height "+h)
			c.Check(h == ch, k.key(f, "record is a full set (last-changed = its own height)"), w.ipos(dc.site), "lastHeightChanged = height", "bootstrap stores the record for "+h+" as changed at "+ch+": a pointer to a record that does not exist in a fresh store")
		}
		for _, t := range table[1:] {
			g := guardRe(t.set+" stored", `^nil\(store\.saveValidatorsInfo\(`+t.h+`, `+t.h+`, `+q(t.set)+`\)\)$`)
			c.Check(c.ge().ensures(f, g, 0), fk+" :: succeeds only after "+t.set+" was stored", w.pos(f.Pos()), "success behind the write", "Bootstrap can succeed without storing "+t.set)
		}
	})

	// ------------------------------------------------------------------ C08.R9
	// F22: Rollback rebuilds the state of height n-1 from the state of height n and saves it; save()
	// writes the record for height n+1 (NextValidators) as a pointer to State.LastHeightValidatorsChanged
	// unless that equals n+1. The last-changed height of the state being dropped can be n+1 (change in
	// block n-1: still true after the rollback) or n+2 (change in block n: the earlier value is lost).
	// The only value that is always right when it has to be lowered is n+1 itself: then the record for
	// n+1 is a full one. Lowering it to n makes the record for n+1 point at a record that is not a full
	// set (or at the set before the change).
	register("C08", "R9", "K5", "rollback: the rebuilt state's last-changed height is lowered, if at all, to the height of its NextValidators (so that their record is stored in full)", 2, func(c *Ctx) {
		w := c.W
		f := c.fn("state", "Rollback")
		if f == nil {
			return
		}
		fk := funcKey(f)
		n := 0
		for _, fs := range w.fieldStoresIn(f, "state", "State", "LastHeightValidatorsChanged") {
			var edges []ssa.Value
			if phi, ok := fs.Store.Val.(*ssa.Phi); ok {
				edges = phi.Edges
			} else {
				edges = []ssa.Value{fs.Store.Val}
			}
			for _, e := range edges {
				es := w.expr(e)
				if strings.HasSuffix(es, ".LastHeightValidatorsChanged") {
					continue // carried over
				}
				n++
				off, ok := offsetFrom(e, func(v ssa.Value) bool { return strings.HasSuffix(w.expr(v), ".LastBlockHeight") })
				c.Check(ok && off == 1, fk+" :: lowered last-changed height is the height of NextValidators (dropped height + 1)", w.ipos(fs.Store), "LastBlockHeight(dropped state) + 1", fmt.Sprintf("lowered to %s (dropped height %+d): save() then stores the record for dropped height + 1 as a pointer to a height that need not hold a full set", es, off))
			}
		}
		c.Check(n >= 1, fk+" :: last-changed height is adjusted", w.pos(f.Pos()), "one lowering site", "Rollback no longer adjusts LastHeightValidatorsChanged")
		// the adjustment only ever lowers: on the edge that replaces the carried-over value by L+c, the carried
		// value is known to be at least L+c (L = the dropped state's last block height). Raising it claims a
		// change at a height whose record is only a pointer.
		for _, fs := range w.fieldStoresIn(f, "state", "State", "LastHeightValidatorsChanged") {
			phi, ok := fs.Store.Val.(*ssa.Phi)
			if !ok {
				continue
			}
			isL := func(v ssa.Value) bool { return strings.HasSuffix(w.expr(v), ".LastBlockHeight") }
			var carried ssa.Value
			for _, e := range phi.Edges {
				if strings.HasSuffix(w.expr(e), ".LastHeightValidatorsChanged") {
					carried = e
				}
			}
			if carried == nil {
				continue
			}
			for i, e := range phi.Edges {
				if e == carried {
					continue
				}
				cOff, okC := offsetFrom(e, isL)
				if !okC {
					continue
				}
				g := Guard{Name: "the carried-over value is not below the value it is replaced by", Match: func(w *World, ff *ssa.Function, a Atom) bool {
					if a.Kind != "cmp" {
						return false
					}
					x, y, op := a.X, a.Y, a.Op
					if sameValue(y, carried) || w.expr(y) == w.expr(carried) {
						x, y, op = y, x, flipOp(op)
					}
					if !(sameValue(x, carried) || w.expr(x) == w.expr(carried)) {
						return false
					}
					k, okK := offsetFrom(y, isL)
					if !okK {
						return false
					}
					switch op {
					case token.GTR:
						return k+1 >= cOff
					case token.GEQ, token.EQL:
						return k >= cOff
					}
					return false
				}}
				okG, _ := c.ge().guardedEdge(f, phi.Block().Preds[i], phi.Block(), g, 0)
				c.Check(okG, fk+" :: the last-changed height is only ever lowered", w.ipos(fs.Store), "replaced only when it is at least the replacement", "LastHeightValidatorsChanged can be raised to "+w.expr(e)+" although the validators last changed earlier: the record for the next height then points at a record without a full set")
			}
		}
	})

	// ------------------------------------------------------------------ C08.R7
	register("C08", "R7", "K3", "the set for height+1 is always the current set rotated by exactly one round wherever a state is built", 4, func(c *Ctx) {
		w := c.W
		k := newKeyer()
		n := 0
		for _, fs := range w.fieldStores("state", "State", "NextValidators") {
			if strings.HasSuffix(w.Fset.Position(fs.Fn.Pos()).Filename, "_test.go") {
				continue
			}
			n++
			v := w.expr(fs.Store.Val)
			key := k.key(fs.Fn, "State.NextValidators =")
			fn := outermost(fs.Fn).Name()
			switch {
			case strings.HasSuffix(v, ".CopyIncrementProposerPriority(1)"):
				// and it is derived from the same set as Validators
				vals := storedFields(w, fs.Fn, "State")["Validators"]
				c.Check(strings.TrimSuffix(v, ".CopyIncrementProposerPriority(1)") == vals || fn == "MakeGenesisState" || fn == "FromProto" || vals == "", key, w.ipos(fs.Store), "Validators rotated once", "NextValidators "+v+" is not derived from Validators "+vals)
			case strings.HasSuffix(v, ".NextValidators.Copy()") || strings.HasSuffix(v, ".NextValidators"):
				c.OK(key, w.ipos(fs.Store), "copied from another state: "+v)
			case fn == "updateState":
				c.OK(key, w.ipos(fs.Store), "governed by C06.R5 (copy, update, IncrementProposerPriority(1))")
			case strings.Contains(v, "FromProto") || fn == "FromProto" || strings.Contains(v, "LightBlock") || strings.Contains(v, ".ValidatorSet") || fn == "Rollback" || strings.Contains(v, "invalidState.Validators"):
				c.OK(key, w.ipos(fs.Store), "decoded / light-verified / rolled back: "+v)
			case strings.HasPrefix(v, "phi(") && strings.Contains(v, "CopyIncrementProposerPriority(1)"):
				c.OK(key, w.ipos(fs.Store), v)
			default:
				c.Fail(key, w.ipos(fs.Store), "State.NextValidators is set to "+v+": not the current set rotated by one round (CopyIncrementProposerPriority(1))")
			}
		}
		c.Check(n >= 4, "State.NextValidators stores", "-", fmt.Sprintf("%d stores", n), fmt.Sprintf("only %d stores found", n))
	})
}

// loopItemGuard: in every loop of f, continuing to the next item (taking a back edge) is only possible
// behind the guard — the per-item form of "every element passed the check".
func (c *Ctx) loopItemGuard(f *ssa.Function, key string, g Guard) {
	w := c.W
	n := 0
	for _, h := range f.Blocks {
		for _, p := range h.Preds {
			if !h.Dominates(p) || len(p.Instrs) == 0 {
				continue
			}
			n++
			at := p.Instrs[len(p.Instrs)-1]
			ok, path := c.ge().guardedEdge(f, p, h, g, 2)
			if ok {
				c.OK(key+" <= "+g.Name, w.ipos(at), "the loop only continues behind the check")
			} else {
				c.Fail(key+" <= "+g.Name, w.ipos(at), "an item can be accepted (loop continues) without: "+g.Name+" via "+pathStr(w, path))
			}
		}
	}
	if n == 0 {
		c.Undecided(key+" <= "+g.Name, w.pos(f.Pos()), "no loop found in "+funcKey(f))
	}
}

// offsetFrom evaluates v as base + k for a value satisfying isBase, following integer additions and
// subtractions of constants.
func offsetFrom(v ssa.Value, isBase func(ssa.Value) bool) (int64, bool) {
	v = stripConv(v)
	if isBase(v) {
		return 0, true
	}
	b, ok := v.(*ssa.BinOp)
	if !ok {
		return 0, false
	}
	kx, xc := constInt(b.X)
	ky, yc := constInt(b.Y)
	switch {
	case b.Op == token.ADD && yc:
		o, ok := offsetFrom(b.X, isBase)
		return o + ky, ok
	case b.Op == token.ADD && xc:
		o, ok := offsetFrom(b.Y, isBase)
		return o + kx, ok
	case b.Op == token.SUB && yc:
		o, ok := offsetFrom(b.X, isBase)
		return o - ky, ok
	}
	return 0, false
}

// ------------------------------------------------------------------ C08.R10
// F62: "the proposer of (height, round)" must be a function of the set and the number of rotations, not of how
// a node got there: consensus advances by `round - cs.Round` in one call when it skips rounds and by 1 per
// round when it walks them, and the chain advances by 1 per height. Advancing by n has to be advancing by 1
// n times. A rotation step is rescale → centre → rotate; the multi-step function performs all three once per
// step: the rescaling and the centring sit in the same counted loop (`times` iterations) as the rotation and
// precede it there.
func init() {
	register("C08", "R10", "K9+K2", "advancing the priorities by n rescales, centres and rotates n times (n-fold composition of the single step)", 4, func(c *Ctx) {
		w := c.W
		f := c.fn("types", "ValidatorSet.IncrementProposerPriority")
		if f == nil {
			return
		}
		fk := funcKey(f)
		times := paramName(f, 1)
		// the rotation step is recognised by its selection of the validator with the most priority (in the step
		// helper, or in the loop when the helper was inlined)
		var steps []ssa.CallInstruction
		for _, dc := range w.deepCallsTo(f, 3, "types#ValidatorSet.getValWithMostPriority") {
			steps = append(steps, dc.site)
		}
		if !c.Check(len(steps) == 1, fk+" :: one rotation step site", w.pos(f.Pos()), "1", fmt.Sprintf("%d", len(steps))) {
			return
		}
		step := steps[0]
		trips, ok := unitLoopTrips(w, step)
		c.Check(ok && trips == times, fk+" :: the rotation step runs `times` times", w.ipos(step), times+" iterations", "the step runs "+trips+" times")
		h := loopOf(step)
		for _, spec := range []string{"types#ValidatorSet.RescalePriorities", "types#ValidatorSet.shiftByAvgProposerPriority"} {
			name := spec[strings.LastIndex(spec, ".")+1:]
			dcs := w.deepCallsTo(f, 3, spec)
			inLoop := len(dcs) == 1 && h != nil && loopBlocks(h)[dcs[0].site.Block()]
			c.Check(inLoop, fk+" :: "+name+" is part of every step", w.pos(f.Pos()), "inside the loop over `times`", name+" runs once per call, not once per step: advancing by a+b differs from advancing by a and then by b, so a node that skips rounds and a node that walks them disagree on the proposer")
			if inLoop {
				// it precedes the rotation within an iteration (in this function, or — when both live in one
				// helper that is the loop's body — inside that helper)
				var okp bool
				if dcs[0].site == step {
					// both live behind the same site of the loop: order them inside the helper that holds the
					// rescale/centre call
					g := dcs[0].call.Parent()
					var rc ssa.Instruction
					if rots := w.deepCallsTo(g, 3, "types#ValidatorSet.getValWithMostPriority"); len(rots) == 1 {
						rc = rots[0].site
					}
					if rc == nil {
						c.Check(false, fk+" :: "+name+" precedes the rotation in a step", w.ipos(dcs[0].site), "before incrementProposerPriority", "the rotation is not behind the helper that rescales")
						continue
					}
					okp = rc.Parent() == g && dcs[0].call.Block().Dominates(rc.Block()) && (dcs[0].call.Block() != rc.Block() || instrIndex(dcs[0].call) < instrIndex(rc))
				} else {
					a, b := dcs[0].site, step
					okp = a.Block().Dominates(b.Block()) && (a.Block() != b.Block() || instrIndex(a) < instrIndex(b))
				}
				c.Check(okp, fk+" :: "+name+" precedes the rotation in a step", w.ipos(dcs[0].site), "before incrementProposerPriority", "after the rotation")
			}
		}
	})
	alias("C03", "R10", "C08", "R10", "correct nodes must agree on the proposer of a round however they reached it, or proposals of a correct proposer are rejected")
}
