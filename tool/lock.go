package main

import (
	"regexp"
	"sort"
	"strings"

	"golang.org/x/tools/go/ssa"
)

// K6: forward must-dataflow of held locks. A lock is named by the canonical expression of the mutex
// (e.g. "mem.updateMtx"); calling X.Lock() on a type that is not a mutex but has Lock/Unlock methods
// (e.g. the Mempool interface) is recorded as "X!".

var mutexSuffix = regexp.MustCompile(`(\.RWMutex|\.Mutex)+$`)

type lockOp struct {
	name    string
	acquire bool
}

func (w *World) lockOpOf(in ssa.Instruction) (lockOp, bool) {
	c, ok := in.(*ssa.Call)
	if !ok {
		return lockOp{}, false
	}
	d, ok := describeCallee(c)
	if !ok {
		return lockOp{}, false
	}
	var acquire bool
	switch d.Name {
	case "Lock", "RLock":
		acquire = true
	case "Unlock", "RUnlock":
		acquire = false
	default:
		return lockOp{}, false
	}
	recv := callRecv(c)
	if recv == nil {
		return lockOp{}, false
	}
	name := mutexSuffix.ReplaceAllString(w.expr(recv), "")
	isMutex := (d.Pkg == "sync" || d.Pkg == "libs/sync" || d.Pkg == "github.com/sasha-s/go-deadlock") && (strings.HasSuffix(d.Recv, "Mutex"))
	if !isMutex {
		name += "!"
	}
	return lockOp{name: name, acquire: acquire}, true
}

type lockSets struct {
	in map[*ssa.BasicBlock]map[string]bool
	w  *World
}

func (w *World) computeLocks(f *ssa.Function) *lockSets {
	ls := &lockSets{in: map[*ssa.BasicBlock]map[string]bool{}, w: w}
	if len(f.Blocks) == 0 {
		return ls
	}
	out := map[*ssa.BasicBlock]map[string]bool{}
	ls.in[f.Blocks[0]] = map[string]bool{}
	changed := true
	for iter := 0; changed && iter < 50; iter++ {
		changed = false
		for _, b := range f.Blocks {
			var in map[string]bool
			if b == f.Blocks[0] {
				in = map[string]bool{}
			} else {
				first := true
				for _, p := range b.Preds {
					po, ok := out[p]
					if !ok {
						continue // not yet computed: optimistic (top)
					}
					if first {
						in = copySet(po)
						first = false
					} else {
						for k := range in {
							if !po[k] {
								delete(in, k)
							}
						}
					}
				}
				if in == nil {
					continue
				}
			}
			ls.in[b] = in
			cur := copySet(in)
			for _, instr := range b.Instrs {
				if op, ok := w.lockOpOf(instr); ok {
					if op.acquire {
						cur[op.name] = true
					} else {
						delete(cur, op.name)
					}
				}
			}
			if !sameSet(out[b], cur) || out[b] == nil {
				out[b] = cur
				changed = true
			}
		}
	}
	return ls
}

func copySet(m map[string]bool) map[string]bool {
	o := map[string]bool{}
	for k, v := range m {
		if v {
			o[k] = true
		}
	}
	return o
}

func sameSet(a, b map[string]bool) bool {
	if a == nil || b == nil {
		return false
	}
	if len(a) != len(b) {
		return false
	}
	for k := range a {
		if !b[k] {
			return false
		}
	}
	return true
}

// heldAt returns the locks certainly held just before instruction `at`.
func (ls *lockSets) heldAt(at ssa.Instruction) []string {
	in, ok := ls.in[at.Block()]
	if !ok {
		return nil
	}
	cur := copySet(in)
	for _, instr := range at.Block().Instrs {
		if instr == at {
			break
		}
		if op, ok := ls.w.lockOpOf(instr); ok {
			if op.acquire {
				cur[op.name] = true
			} else {
				delete(cur, op.name)
			}
		}
	}
	var out []string
	for k := range cur {
		out = append(out, k)
	}
	sort.Strings(out)
	return out
}

// holdsLock: is a lock whose name matches re held at `at`, locally or by contract (every caller holds
// a matching lock, or the owner-level lock "X!", at its call site; goroutine starts never hold).
func (w *World) holdsLock(f *ssa.Function, at ssa.Instruction, re *regexp.Regexp, lift int) (bool, string) {
	if at.Parent() != f {
		chain := siteChain(f, at)
		if chain == nil {
			return false, "instruction is not under " + funcKey(f)
		}
		why := ""
		for _, l := range chain {
			ok, s := w.holdsLock(l.fn, l.at, re, 0)
			if ok {
				return true, s
			}
			why = s
		}
		if lift > 0 {
			return w.holdsLock(f, chain[len(chain)-1].at, re, lift)
		}
		return false, why
	}
	ls := w.computeLocks(f)
	held := ls.heldAt(at)
	for _, h := range held {
		if re.MatchString(h) {
			return true, h
		}
	}
	why := "in " + funcKey(f) + " held=[" + strings.Join(held, ",") + "]"
	if lift <= 0 {
		if site := transparentSite(f); site != nil {
			return w.holdsLock(site.Parent(), site, re, 0)
		}
		return false, why
	}
	callers := w.callersOf(f)
	// closures: the creating function "calls" it where the closure value is invoked / deferred / go'ed
	if len(callers) == 0 {
		return false, why + " (no callers)"
	}
	for _, cs := range callers {
		if _, isGo := cs.(*ssa.Go); isGo {
			return false, why + "; started as a goroutine at " + w.ipos(cs) + " (locks of the spawner do not transfer)"
		}
		ok, sub := w.holdsLock(cs.Parent(), cs, re, lift-1)
		if !ok {
			return false, why + "; caller " + sub
		}
	}
	return true, "held by every caller"
}
