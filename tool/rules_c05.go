package main

import (
	"fmt"
	"go/types"
	"regexp"
	"strings"

	"golang.org/x/tools/go/ssa"
)

func init() {
	// ------------------------------------------------------------------ C05.R1
	register("C05", "R1", "K1+K3", "InitChain is sent only by the handshaker and only while the application reports height 0", 4, func(c *Ctx) {
		w := c.W
		k := newKeyer()
		sites := w.allCallsTo("proxy#AppConnConsensus.InitChainSync")
		if len(sites) == 0 {
			c.Undecided("InitChainSync sites", "-", "no InitChainSync call found")
		}
		for _, s := range sites {
			if relPkg(s.Fn) == "proxy" || strings.HasPrefix(relPkg(s.Fn), "abci/") {
				continue // the connection wrappers themselves
			}
			key := k.key(s.Fn, "InitChainSync")
			c.Check(isMethodOf(s.Fn, "consensus", "Handshaker"), key+" owner", w.ipos(s.Instr), "called by the handshaker", "InitChain is sent outside the handshaker")
			// guard: the app height parameter equals 0 on every path
			appH := ""
			for _, p := range outermost(s.Fn).Params {
				if n := canonParamName(p); strings.Contains(strings.ToLower(n), "appblockheight") || strings.Contains(strings.ToLower(n), "appheight") {
					appH = n
				}
			}
			if !c.Check(appH != "", key+" app height parameter", w.ipos(s.Instr), "app height parameter "+appH, "cannot identify the application-height parameter of "+funcKey(s.Fn)) {
				continue
			}
			c.guards(s.Fn, s.Instr, key, 0, guardCmp("application height == 0", q(appH), "==", "0"))
			// that parameter is the height the application itself reported in Info
			for _, cs := range w.callersOf(outermost(s.Fn)) {
				if strings.HasSuffix(w.Fset.Position(cs.Pos()).Filename, "_test.go") {
					continue
				}
				pi := paramIndexByName(outermost(s.Fn), appH)
				a := w.expr(cs.Common().Args[pi])
				c.Check(regexp.MustCompile(`InfoSync\(.*\)#0\.LastBlockHeight$`).MatchString(a), k.key(cs.Parent(), "app height passed to replay"), w.ipos(cs), "app height is ResponseInfo.LastBlockHeight", "app height argument is "+a)
			}
		}
	})

	// ------------------------------------------------------------------ C05.R2
	register("C05", "R2", "K2", "finalise order: save block, then fsync #ENDHEIGHT, then execute, then move to the new state", 6, func(c *Ctx) {
		w := c.W
		for _, f := range w.methodsOf("consensus", "State") {
			applies := w.callsTo(f, specApply)
			if len(applies) == 0 {
				continue
			}
			fk := funcKey(f)
			// the #ENDHEIGHT write
			var endW ssa.CallInstruction
			for _, ws := range w.callsTo(f, "consensus#WAL.WriteSync") {
				t := stripConv(callArgs(ws)[0]).Type()
				if n := derefNamed(t); n != nil && n.Obj().Name() == "EndHeightMessage" {
					endW = ws
				}
			}
			if !c.Check(endW != nil, fk+" :: WriteSync(EndHeightMessage) present", w.pos(f.Pos()), "end-height record is written with fsync", "no WriteSync(EndHeightMessage) in the function that applies the block") {
				continue
			}
			// its height is the finalised height
			hOK := false
			if al := allocOf(callArgs(endW)[0]); al != nil {
				for _, r := range *al.Referrers() {
					if fa, ok := r.(*ssa.FieldAddr); ok {
						for _, rr := range *fa.Referrers() {
							if st, ok := rr.(*ssa.Store); ok && (w.expr(st.Val) == "height" || strings.HasSuffix(w.expr(st.Val), ".Height")) {
								hOK = true
							}
						}
					}
				}
			}
			c.Check(hOK, fk+" :: EndHeightMessage carries the finalised height", w.ipos(endW), "height of the marker is the finalised height", "end-height marker height is not the finalised height")
			// SaveBlock happened, or the block was already stored, on every path to the marker
			saved := map[Edge]bool{}
			for _, ea := range condEdges(f) {
				if guardCmp("stored", `.*\.Height\(\)`, ">=", `.*\.Height`).Match(w, f, ea.A) {
					saved[ea.E] = true
				}
			}
			r, path := reachFromEntry(f, saved, w.callPred(specSave), endW)
			c.Check(!r, fk+" :: block saved before #ENDHEIGHT", w.ipos(endW), "every path to the marker saved the block or found it stored", "#ENDHEIGHT can be written without the block being in the store: "+pathStr(w, path))
			// no SaveBlock after the marker
			qq := &pathQ{target: w.callPred(specSave)}
			late, _ := qq.reach(endW.Block(), instrIndex(endW)+1)
			c.Check(late == nil, fk+" :: no SaveBlock after #ENDHEIGHT", w.ipos(endW), "block is never saved after the marker", "SaveBlock reachable after the #ENDHEIGHT write")
			for _, ap := range applies {
				c.guards(f, ap, fk+" :: ApplyBlock", 0, guardRe("WriteSync(#ENDHEIGHT) = nil", `^nil\(.*\.WriteSync\(.*\)\)$`))
				// next state only from a successful ApplyBlock
				for _, u := range w.callsTo(f, "consensus#State.updateToState") {
					c.guards(f, u, fk+" :: updateToState", 0, guardRe("ApplyBlock error = nil", `^nil\(.*\.ApplyBlock\(.*\)#2\)$`))
					c.Check(regexp.MustCompile(`\.ApplyBlock\(.*\)#0$`).MatchString(w.expr(callArgs(u)[0])), fk+" :: updateToState argument", w.ipos(u), "new state is ApplyBlock's result", "updateToState is given "+w.expr(callArgs(u)[0]))
				}
				// state handed to ApplyBlock is a copy of the committed state
				c.Check(regexp.MustCompile(`\.state\.Copy\(\)$`).MatchString(w.expr(callArgs(ap)[0])), fk+" :: ApplyBlock works on a copy of cs.state", w.ipos(ap), "state.Copy()", "ApplyBlock is given "+w.expr(callArgs(ap)[0]))
			}
		}
	})

	// ------------------------------------------------------------------ C05.R3
	register("C05", "R3", "K2", "ApplyBlock pipeline: validate, execute, save ABCI responses, commit app, update evidence pool, save state, fire events; each stage only after the previous succeeded", 9, func(c *Ctx) {
		w := c.W
		f := c.fn("state", "BlockExecutor.ApplyBlock")
		if f == nil {
			return
		}
		fk := funcKey(f)
		exec := w.callsMatching(f, `^state\.execBlockOnProxyApp\(|^state\.\w*[eE]xec\w*\(.*proxyApp`)
		if len(exec) == 0 {
			// semantic: the callee that always calls BeginBlockSync
			for _, call := range callInstrs(f) {
				if h := staticCallee(call); h != nil && len(w.callsTo(h, "proxy#AppConnConsensus.BeginBlockSync")) > 0 {
					exec = append(exec, call)
				}
			}
		}
		if !c.Check(len(exec) == 1, fk+" :: single execution call", w.pos(f.Pos()), "the block is executed once", fmt.Sprintf("%d execution calls found", len(exec))) {
			return
		}
		ex := exec[0]
		exRe := q(w.expr(ex.(ssa.Value)))
		step := func(name string, sites []ssa.CallInstruction, gs ...Guard) {
			if !c.Check(len(sites) >= 1, fk+" :: "+name+" present", w.pos(f.Pos()), "stage present", "stage "+name+" not found") {
				return
			}
			for _, s := range sites {
				c.guards(f, s, fk+" :: "+name, 0, gs...)
			}
		}
		valOK := guardRe("validateBlock = nil", `^nil\(state\.validateBlock\(.*\)\)$`)
		execOK := guardRe("execution error = nil", `^nil\(`+exRe+`#1\)$`)
		saveRespOK := guardCallOK("SaveABCIResponses = nil", "state#Store.SaveABCIResponses")
		updOK := guardRe("updateState error = nil", `^nil\(state\.updateState\(.*\)#1\)$`)
		commitOK := guardRe("Commit error = nil", `^nil\(.*\.Commit\(.*\)#2\)$`)
		saveOK := guardCallOK("store.Save = nil", "state#Store.Save")
		step("execute", []ssa.CallInstruction{ex}, valOK)
		step("SaveABCIResponses", w.callsTo(f, "state#Store.SaveABCIResponses"), valOK, execOK)
		step("app Commit", w.callsTo(f, "state#BlockExecutor.Commit"), valOK, execOK, saveRespOK, updOK)
		step("evidence pool Update", w.callsTo(f, "state#EvidencePool.Update"), commitOK)
		step("store.Save", w.callsTo(f, "state#Store.Save"), commitOK, saveRespOK)
		step("fireEvents", w.callsTo(f, "state#fireEvents"), saveOK)
		// success return only after the state was saved
		okRet := c.ge().ensures(f, saveOK, 2)
		c.Check(okRet, fk+" :: nil error only after store.Save = nil", w.pos(f.Pos()), "every success return is behind the state save", "ApplyBlock can return success without having saved the state")
		// responses saved are those of this execution, under this block's height
		for _, s := range w.callsTo(f, "state#Store.SaveABCIResponses") {
			a := callArgs(s)
			c.Check(strings.HasSuffix(w.expr(a[0]), ".Header.Height") || strings.HasSuffix(w.expr(a[0]), ".Height") && w.expr(a[1]) == w.expr(ex.(ssa.Value))+"#0", fk+" :: SaveABCIResponses(block height, this execution's responses)", w.ipos(s), "arguments tie the responses to the block", "SaveABCIResponses("+w.expr(a[0])+", "+w.expr(a[1])+")")
		}
		// AppHash of the saved state is the app's Commit result
		for _, s := range w.callsTo(f, "state#Store.Save") {
			okHash := false
			for _, b := range f.Blocks {
				for _, in := range b.Instrs {
					if st, ok := in.(*ssa.Store); ok && strings.HasSuffix(w.expr(st.Addr), ".AppHash") && regexp.MustCompile(`\.Commit\(.*\)#0$`).MatchString(w.expr(st.Val)) {
						if okp, _ := mustPrecede(f, s, func(i ssa.Instruction) bool { return i == st }); okp {
							okHash = true
						}
					}
				}
			}
			c.Check(okHash, fk+" :: saved state carries the app hash returned by Commit", w.ipos(s), "state.AppHash = Commit result before Save", "the state is saved without the app hash returned by Commit")
		}
	})

	// ------------------------------------------------------------------ C05.R4
	register("C05", "R4", "K2", "block execution: BeginBlock, every tx in block order, EndBlock; no commit inside", 7, func(c *Ctx) {
		w := c.W
		n := 0
		for _, f := range w.FuncsInPkg("state") {
			begins := w.callsTo(f, "proxy#AppConnConsensus.BeginBlockSync")
			if len(begins) == 0 {
				continue
			}
			n++
			fk := funcKey(f)
			beginOK := guardCallOK("BeginBlockSync = nil", "proxy#AppConnConsensus.BeginBlockSync")
			c.Check(len(begins) == 1, fk+" :: one BeginBlock", w.pos(f.Pos()), "single BeginBlockSync", fmt.Sprintf("%d BeginBlockSync calls", len(begins)))
			dl := w.callsTo(f, "proxy#AppConnConsensus.DeliverTxAsync", "proxy#AppConnConsensus.DeliverTxSync")
			c.Check(len(dl) == 1, fk+" :: one DeliverTx site", w.pos(f.Pos()), "single DeliverTx call site", fmt.Sprintf("%d DeliverTx call sites", len(dl)))
			for _, d := range dl {
				c.guards(f, d, fk+" :: DeliverTx", 0, beginOK)
				// in a forward range loop over block.Data.Txs, delivering the element at the loop index
				tx := ""
				if al := allocOf(callArgs(d)[0]); al != nil {
					for _, r := range *al.Referrers() {
						if fa, ok := r.(*ssa.FieldAddr); ok && fieldName(fa.X.Type(), fa.Field) == "Tx" {
							for _, rr := range *fa.Referrers() {
								if st, ok := rr.(*ssa.Store); ok {
									tx = w.expr(st.Val)
								}
							}
						}
					}
				}
				inRange := loopOf(d) != nil
				c.Check(inRange && regexp.MustCompile(`^\w+\.Data\.Txs\[`+fwdIdx+`\]$`).MatchString(tx), fk+" :: DeliverTx delivers Txs[i] of a forward range over block.Data.Txs", w.ipos(d), "tx = "+tx, "delivered tx is "+tx+" (in loop: "+fmt.Sprint(inRange)+")")
			}
			ends := w.callsTo(f, "proxy#AppConnConsensus.EndBlockSync")
			c.Check(len(ends) == 1, fk+" :: one EndBlock", w.pos(f.Pos()), "single EndBlockSync", fmt.Sprintf("%d EndBlockSync calls", len(ends)))
			for _, e := range ends {
				c.guards(f, e, fk+" :: EndBlock", 0, beginOK, guardCmp("all txs delivered (range exhausted)", fwdIdx, ">=", `len\(\w+\.Data\.Txs\)`))
				hv := ""
				if al := allocOf(callArgs(e)[0]); al != nil {
					for _, r := range *al.Referrers() {
						if fa, ok := r.(*ssa.FieldAddr); ok && fieldName(fa.X.Type(), fa.Field) == "Height" {
							for _, rr := range *fa.Referrers() {
								if st, ok := rr.(*ssa.Store); ok {
									hv = w.expr(st.Val)
								}
							}
						}
					}
				}
				c.Check(strings.HasSuffix(hv, ".Header.Height") || strings.HasSuffix(hv, ".Height"), fk+" :: EndBlock height is the block's", w.ipos(e), "height = "+hv, "EndBlock height is "+hv)
			}
			// success return only after EndBlock succeeded
			c.Check(c.ge().ensures(f, guardCallOK("EndBlockSync = nil", "proxy#AppConnConsensus.EndBlockSync"), 2), fk+" :: success only after EndBlock", w.pos(f.Pos()), "nil error implies EndBlockSync = nil", "execution reports success without EndBlock having succeeded")
			// no commit reachable from the execution function
			may := w.mayCallDeep(3, "proxy#AppConnConsensus.CommitSync")
			commits := 0
			for _, cc := range callInstrs(f) {
				if may(cc) {
					commits++
				}
			}
			c.Check(commits == 0, fk+" :: does not commit", w.pos(f.Pos()), "CommitSync unreachable from block execution", "CommitSync is reachable from inside block execution")
		}
		if n == 0 {
			c.Undecided("execution function", "-", "no function in package state calls BeginBlockSync")
		}
	})

	// ------------------------------------------------------------------ C05.R5
	register("C05", "R5", "K2/K6", "app Commit happens with the mempool locked and flushed; mempool Update follows under the same lock", 12, func(c *Ctx) {
		w := c.W
		n := 0
		for _, f := range w.FuncsInPkg("state") {
			commits := w.callsTo(f, "proxy#AppConnConsensus.CommitSync")
			if len(commits) == 0 || !isMethodOf(f, "state", "BlockExecutor") {
				continue
			}
			n++
			fk := funcKey(f)
			for _, cm := range commits {
				ok, why := w.holdsLock(f, cm, regexp.MustCompile(`\.mempool!$`), 0)
				c.Check(ok, fk+" :: CommitSync under mempool lock", w.ipos(cm), "mempool.Lock() held", "mempool lock not held at app Commit: "+why)
				c.guards(f, cm, fk+" :: CommitSync", 0, guardCallOK("mempool.FlushAppConn() = nil", "mempool#Mempool.FlushAppConn"))
				for _, fl := range w.callsTo(f, "mempool#Mempool.FlushAppConn") {
					ok, why := w.holdsLock(f, fl, regexp.MustCompile(`\.mempool!$`), 0)
					c.Check(ok, fk+" :: FlushAppConn under mempool lock", w.ipos(fl), "flush happens after Lock", "mempool not locked when flushing: "+why)
				}
				ups := w.deepCallsTo(f, 2, "mempool#Mempool.Update")
				c.Check(len(ups) == 1, fk+" :: mempool.Update present", w.pos(f.Pos()), "single Update", fmt.Sprintf("%d mempool.Update calls", len(ups)))
				for _, up := range ups {
					ok, why := w.holdsLock(f, up.site, regexp.MustCompile(`\.mempool!$`), 0)
					c.Check(ok, fk+" :: mempool.Update under mempool lock", w.ipos(up.site), "still locked", "mempool lock not held at Update: "+why)
					c.guards(f, up.site, fk+" :: mempool.Update", 0, guardRe("CommitSync error = nil", `^nil\(.*\.CommitSync\(\)#1\)$`))
					c.Check(strings.HasSuffix(up.arg(0), ".Height") && strings.HasSuffix(up.arg(1), ".Data.Txs"), fk+" :: mempool.Update(block height, block txs, …)", w.ipos(up.site), "update is for the committed block", "Update("+up.arg(0)+", "+up.arg(1)+", …)")
				}
			}
			// the unlock is deferred only (held until the function returns)
			direct := 0
			hasDefer := false
			for _, in := range callInstrs(f) {
				if w.isCall(in, "mempool#Mempool.Unlock") {
					if _, ok := in.(*ssa.Defer); ok {
						hasDefer = true
					} else {
						direct++
					}
				}
			}
			c.Check(hasDefer && direct == 0, fk+" :: Unlock only deferred", w.pos(f.Pos()), "lock is released at return only", fmt.Sprintf("deferred=%v direct unlocks=%d", hasDefer, direct))
		}
		if n == 0 {
			c.Undecided("commit function", "-", "no BlockExecutor method calls CommitSync")
		}
		// every Mempool implementation: Lock takes the update mutex exclusively, FlushAppConn blocks on FlushSync
		mi, _ := w.NamedType("mempool", "Mempool").Underlying().(*types.Interface)
		for _, impl := range w.implementers(mi) {
			if !strings.HasPrefix(impl.pkg, "mempool") {
				continue // consensus.emptyMempool is the no-op stub used during WAL replay
			}
			// the update lock of an implementation is the mutex its Lock() takes first, exclusively (an
			// implementation may nest a second one inside it)
			upd := mempoolUpdateLock(w, impl.pkg, impl.name)
			if lf := w.Fn(impl.pkg, impl.name+".Lock"); lf != nil {
				c.Check(upd != "", impl.pkg+"."+impl.name+".Lock takes the update mutex exclusively", w.pos(lf.Pos()), "exclusive Lock()", "Lock() does not take an exclusive mutex")
			}
			if uf := w.Fn(impl.pkg, impl.name+".Unlock"); uf != nil && upd != "" {
				rel := false
				for _, in := range callInstrs(uf) {
					if d, ok := describeCallee(in); ok && d.Name == "Unlock" && strings.HasSuffix(d.Recv, "Mutex") && mutexField(w, in) == upd {
						rel = true
					}
				}
				c.Check(rel, impl.pkg+"."+impl.name+".Unlock releases the update mutex", w.pos(uf.Pos()), "Unlock of "+upd, "Unlock() does not release the mutex Lock() took")
			}
			if ff := w.Fn(impl.pkg, impl.name+".FlushAppConn"); ff != nil {
				c.Check(w.alwaysCalls(ff, 0, "proxy#AppConnMempool.FlushSync"), impl.pkg+"."+impl.name+".FlushAppConn blocks on FlushSync", w.pos(ff.Pos()), "FlushSync on every path", "FlushAppConn does not wait for the mempool connection to drain (no FlushSync on every path)")
				rOK := true
				for _, v := range returnValues(ff, 0) {
					if !strings.HasSuffix(w.expr(v), ".FlushSync()") {
						rOK = false
					}
				}
				c.Check(rOK, impl.pkg+"."+impl.name+".FlushAppConn returns the flush error", w.pos(ff.Pos()), "error propagated", "FlushSync's error is not what FlushAppConn returns")
				// the caller holds the update lock across flush, commit and update: the flush must not open it
				// (a mutex nested inside the update lock may be opened for the callbacks of the flush)
				unl := 0
				for _, in := range callInstrs(ff) {
					if d, ok := describeCallee(in); ok && (d.Name == "Unlock" || d.Name == "RUnlock") && strings.HasSuffix(d.Recv, "Mutex") && (upd == "" || mutexField(w, in) == upd) {
						unl++
					}
				}
				c.Check(unl == 0, impl.pkg+"."+impl.name+".FlushAppConn keeps the update lock closed", w.pos(ff.Pos()), "no unlock inside the flush", "FlushAppConn releases the mempool lock while flushing: a CheckTx admitted in that window is in flight on the mempool connection when the application commits")
			}
		}
	})

	// ------------------------------------------------------------------ C05.R6
	register("C05", "R6", "K6+K5", "every CheckTx on the mempool connection runs under the owning mempool's update lock (so Commit's exclusive lock excludes it)", 5, func(c *Ctx) {
		w := c.W
		k := newKeyer()
		for _, s := range w.allCallsTo("proxy#AppConnMempool.CheckTxAsync", "proxy#AppConnMempool.CheckTxSync") {
			if relPkg(s.Fn) == "proxy" || strings.HasPrefix(relPkg(s.Fn), "abci/") {
				continue // connection wrappers and the abci-cli tool (its own client, not a node's mempool connection)
			}
			key := k.key(outermost(s.Fn), "CheckTx on mempool connection")
			// inside a mempool implementation the lock must be that implementation's update lock (the one its
			// Lock() takes first and its FlushAppConn keeps closed); elsewhere the interface's Lock()
			lockRe := regexp.MustCompile(`(\.updateMtx|\.mtx|!)$`)
			if u := mempoolUpdateLockOfPkg(w, relPkg(s.Fn)); u != "" {
				lockRe = regexp.MustCompile(`(\.` + regexp.QuoteMeta(u) + `|!)$`)
			}
			ok, why := w.holdsLock(s.Fn, s.Instr, lockRe, 3)
			c.Check(ok, key, w.ipos(s.Instr), "update lock held: "+why, "CheckTx is issued on the mempool connection without the mempool update lock, so it can start or be in flight between the commit request and the end of the mempool update/recheck: "+why)
		}
	})

	// ------------------------------------------------------------------ C05.R7
	register("C05", "R7", "K1", "handshake decision table on (store height, state height, app height)", 10, func(c *Ctx) {
		w := c.W
		var f *ssa.Function
		for _, g := range w.methodsOf("consensus", "Handshaker") {
			if len(w.callsTo(g, "proxy#AppConnConsensus.InitChainSync")) > 0 {
				f = g
			}
		}
		if f == nil {
			c.Undecided("replay decision function", "-", "no Handshaker method calls InitChainSync")
			return
		}
		fk := funcKey(f)
		st := `.*\.Height\(\)`
		sh := `.*\.LastBlockHeight`
		// the height of the block after the state: LastBlockHeight+1, or (F63) the merge of that with the
		// initial height for a state without a block
		shp1 := `(?:\(.*\.LastBlockHeight \+ 1\)|phi\(.*\.InitialHeight\|\(.*\.LastBlockHeight \+ 1\)\))`
		app := `appBlockHeight`
		storeEqState := guardCmp("store == state", st, "==", sh)
		storeEqStateP1 := guardAny("store == state+1", guardCmp("a", st, "==", shp1))
		k := newKeyer()
		for _, call := range callInstrs(f) {
			cs := w.callStr(call)
			switch {
			case regexp.MustCompile(`\.replayBlock\(`).MatchString(cs):
				if strings.Contains(cs, "newMockProxyApp(") {
					key := k.key(f, "replay last block on mock app")
					c.guards(f, call, key, 0, storeEqStateP1, guardCmp("app == store", app, "==", st))
					c.guards(f, call, key, 0, guardCallOK("stored ABCI responses loaded", "state#Store.LoadLastABCIResponse"))
				} else {
					key := k.key(f, "replay last block on real app")
					c.guards(f, call, key, 0, storeEqStateP1, guardCmp("app == state", app, "==", sh))
				}
				c.Check(regexp.MustCompile(`^\w+\.replayBlock\(&?\w+, `+`\w+\.store\.Height\(\), `).MatchString(cs), k.key(f, "replayBlock height"), w.ipos(call), "replays the block at the store height", "replayBlock called as "+cs)
			case regexp.MustCompile(`\.replayBlocks\(`).MatchString(cs):
				args := callArgs(call)
				mut, _ := boolConst(args[len(args)-1])
				if mut {
					c.guards(f, call, k.key(f, "replay blocks and then the last one with state mutation"), 0, storeEqStateP1, guardCmp("app < state", app, "<", sh))
				} else {
					c.guards(f, call, k.key(f, "replay blocks without state mutation"), 0, storeEqState, guardCmp("app < store", app, "<", st))
				}
			}
		}
		// success without replay only when all three agree (or nothing is stored)
		for _, sp := range successPoints(w, f) {
			if sp.viaCallee != nil {
				continue
			}
			if r, ok := sp.at.(*ssa.Return); ok {
				if strings.Contains(w.expr(r.Results[0]), ".AppHash") && strings.Contains(w.expr(r.Results[0]), "&state") && !strings.Contains(w.expr(r.Results[0]), "phi") {
					continue // result of a replay
				}
				c.anyGuards(f, r, k.key(f, "return without replay"), "store empty, or store == state and app == store", 0,
					[]Guard{guardCmp("empty", st, "==", "0")},
					[]Guard{storeEqState, guardCmp("app == store", app, "==", st)})
			}
		}
		_ = fk
		// impossible combinations are rejected before the table
		for _, g := range []Guard{
			guardCmp("store >= app", st, ">=", app),
			guardCmp("store >= state", st, ">=", sh),
			guardCmp("store <= state+1", st, "<=", shp1),
		} {
			for _, call := range callInstrs(f) {
				if regexp.MustCompile(`\.replayBlocks?\(`).MatchString(w.callStr(call)) {
					c.guards(f, call, k.key(f, "replay"), 0, g)
				}
			}
		}
	})

	// ------------------------------------------------------------------ C05.R8
	register("C05", "R8", "K3", "the mock application is used only for the single-block replay; ExecCommitBlock only in multi-block replay", 2, func(c *Ctx) {
		w := c.W
		c.onlyIn("construction of the mock proxy app", w.allCallsTo("consensus#newMockProxyApp"), func(f *ssa.Function) (bool, string) {
			return isMethodOf(f, "consensus", "Handshaker") && len(w.callsTo(f, "proxy#AppConnConsensus.InitChainSync")) > 0, "handshake decision function"
		})
		c.onlyIn("ExecCommitBlock", w.allCallsTo(specExecCB), func(f *ssa.Function) (bool, string) {
			return isMethodOf(f, "consensus", "Handshaker"), "handshaker"
		})
		// multi-block replay executes consecutive heights starting right after the app height
		for _, s := range w.allCallsTo(specExecCB) {
			f := s.Fn
			inLoop := false
			for b := s.Instr.Block(); b != nil; b = b.Idom() {
				if b.Comment == "for.body" {
					inLoop = true
				}
			}
			c.Check(inLoop, funcKey(f)+" :: ExecCommitBlock in a loop over heights", w.ipos(s.Instr), "loop", "ExecCommitBlock is not in a loop")
			// the block executed is LoadBlock(i) for the loop counter i
			blk := w.expr(callArgs(s.Instr.(ssa.CallInstruction))[1])
			c.Check(regexp.MustCompile(`\.LoadBlock\(phi\(`).MatchString(blk), funcKey(f)+" :: executes LoadBlock(loop height)", w.ipos(s.Instr), blk, "ExecCommitBlock executes "+blk)
		}
	})
}

type implRef struct{ pkg, name string }

// implementers lists in-scope named types (non-mock) implementing iface.
func (w *World) implementers(iface *types.Interface) []implRef {
	var out []implRef
	if iface == nil {
		return nil
	}
	for path, p := range w.SSAPkg {
		if !inScopePkg(path) {
			continue
		}
		for _, m := range p.Members {
			t, ok := m.(*ssa.Type)
			if !ok {
				continue
			}
			if _, isI := t.Type().Underlying().(*types.Interface); isI {
				continue
			}
			if types.Implements(types.NewPointer(t.Type()), iface) || types.Implements(t.Type(), iface) {
				out = append(out, implRef{relPath(p.Pkg), t.Name()})
			}
		}
	}
	sortImpl(out)
	return out
}

func sortImpl(s []implRef) {
	for i := 1; i < len(s); i++ {
		for j := i; j > 0 && s[j].pkg+s[j].name < s[j-1].pkg+s[j-1].name; j-- {
			s[j], s[j-1] = s[j-1], s[j]
		}
	}
}

// mutexField: the field name of the mutex a Lock/Unlock call is made on (`txmp.updateMtx.Lock()` → updateMtx).
func mutexField(w *World, call ssa.CallInstruction) string {
	r := callRecv(call)
	if r == nil {
		return ""
	}
	e := strings.TrimPrefix(w.expr(r), "&")
	// libs/sync's mutex types embed the standard ones: the promoted receiver is field.RWMutex
	e = strings.TrimSuffix(strings.TrimSuffix(e, ".RWMutex"), ".Mutex")
	if i := strings.LastIndex(e, "."); i >= 0 {
		return e[i+1:]
	}
	return e
}

// mempoolUpdateLock: the mutex field that typ.Lock() in pkg takes first, exclusively ("" if none).
func mempoolUpdateLock(w *World, pkg, typ string) string {
	lf := w.Fn(pkg, typ+".Lock")
	if lf == nil || lf.Blocks == nil {
		return ""
	}
	for _, in := range rawCallInstrs(lf) {
		if d, ok := describeCallee(in); ok && strings.HasSuffix(d.Recv, "Mutex") {
			if d.Name == "Lock" {
				return mutexField(w, in)
			}
			return ""
		}
	}
	return ""
}

// mempoolUpdateLockOfPkg: the update lock of the Mempool implementation that lives in package rel.
func mempoolUpdateLockOfPkg(w *World, rel string) string {
	if !strings.HasPrefix(rel, "mempool/") {
		return ""
	}
	mi, _ := w.NamedType("mempool", "Mempool").Underlying().(*types.Interface)
	for _, impl := range w.implementers(mi) {
		if impl.pkg == rel {
			return mempoolUpdateLock(w, impl.pkg, impl.name)
		}
	}
	return ""
}
