package main

import (
	"fmt"
	"go/constant"
	"go/token"
	"go/types"
	"regexp"
	"strings"

	"golang.org/x/tools/go/ssa"
)

// loopEarlyExits lists CFG edges that leave the natural loop headed by h other than the header's own
// exhaustion edge (K9).
func loopEarlyExits(h *ssa.BasicBlock) []Edge {
	body := loopBlocks(h)
	var out []Edge
	for b := range body {
		for si, s := range b.Succs {
			if body[s] {
				continue
			}
			if b == h {
				continue // normal exhaustion
			}
			out = append(out, Edge{b, si})
		}
	}
	return out
}

// reachWithFlag: path search that tracks the value of one boolean source variable (its SSA phis are
// identified by name) and prunes branches on that variable that contradict the tracked value.
func reachWithFlag(f *ssa.Function, flag string, start *ssa.BasicBlock, idx int, val int, target func(ssa.Instruction) bool) ssa.Instruction {
	type st struct {
		b   *ssa.BasicBlock
		val int // 0 false, 1 true, 2 unknown
	}
	type item struct {
		st
		idx int
	}
	seen := map[st]bool{}
	queue := []item{{st{start, val}, idx}}
	for len(queue) > 0 {
		it := queue[0]
		queue = queue[1:]
		for i := it.idx; i < len(it.b.Instrs); i++ {
			if target(it.b.Instrs[i]) {
				return it.b.Instrs[i]
			}
		}
		if len(it.b.Instrs) == 0 {
			continue
		}
		only := -1
		if ifi, ok := it.b.Instrs[len(it.b.Instrs)-1].(*ssa.If); ok && it.val != 2 {
			cond, neg := ifi.Cond, false
			for {
				u, ok := cond.(*ssa.UnOp)
				if !ok || u.Op.String() != "!" {
					break
				}
				neg, cond = !neg, u.X
			}
			if p, ok := cond.(*ssa.Phi); ok && p.Comment == flag {
				v := it.val == 1
				if v != neg {
					only = 0
				} else {
					only = 1
				}
			}
		}
		for si, s := range it.b.Succs {
			if only >= 0 && si != only {
				continue
			}
			nv := it.val
			for _, in := range s.Instrs {
				p, ok := in.(*ssa.Phi)
				if !ok {
					break
				}
				if p.Comment != flag {
					continue
				}
				for pi, pr := range s.Preds {
					if pr != it.b {
						continue
					}
					e := p.Edges[pi]
					if c, ok := boolConst(e); ok {
						if c {
							nv = 1
						} else {
							nv = 0
						}
					} else if pp, ok := e.(*ssa.Phi); ok && pp.Comment == flag {
						// same variable, value unchanged
					} else {
						nv = 2
					}
				}
			}
			k := st{s, nv}
			if !seen[k] {
				seen[k] = true
				queue = append(queue, item{k, 0})
			}
		}
	}
	return nil
}

func init() {
	// ------------------------------------------------------------------ C19.R1
	register("C19", "R1", "K9+K2", "delivery loop: every subscription is visited for every publication (no early exit); a full buffered subscriber is cancelled explicitly; sends never block on buffered channels", 9, func(c *Ctx) {
		w := c.W
		f := c.fn("libs/pubsub", "state.send")
		if f == nil {
			return
		}
		fk := funcKey(f)
		n := 0
		for _, h := range f.Blocks {
			isHdr := false
			for _, pr := range h.Preds {
				if h.Dominates(pr) {
					isHdr = true
				}
			}
			if !isHdr {
				continue
			}
			n++
			// which collection?
			what := "?"
			for _, in := range h.Instrs {
				if nx, ok := in.(*ssa.Next); ok {
					what = w.expr(nx.Iter)
				}
			}
			exits := loopEarlyExits(h)
			var desc []string
			for _, e := range exits {
				desc = append(desc, fmt.Sprintf("b%d→b%d(%s)", e.From.Index, e.From.Succs[e.Succ].Index, e.From.Succs[e.Succ].Comment))
			}
			c.Check(len(exits) == 0, fmt.Sprintf("%s :: loop over %s visits every element", fk, strings.TrimPrefix(strings.TrimSuffix(what, ")"), "range(")), w.ipos(h.Instrs[0]), "no return/break/outer-continue inside the loop", "the delivery loop can be left early ("+strings.Join(desc, ", ")+"): remaining subscribers do not get this publication")
		}
		c.Check(n == 2, fk+" :: loops over queries and over the clients of a matching query", w.pos(f.Pos()), "two nested loops", fmt.Sprintf("%d loops", n))
		// sends
		for _, b := range f.Blocks {
			for _, in := range b.Instrs {
				switch x := in.(type) {
				case *ssa.Send:
					c.guards(f, x, fk+" :: blocking send", 0, guardCmp("only on an unbuffered subscription", `cap\(.*\.out\)`, "==", "0"), guardRe("the query matched", `^true\(.*\.q\.Matches\(events\)#0\)$`))
				case *ssa.Select:
					c.Check(!x.Blocking && len(x.States) == 1, fk+" :: buffered send is non-blocking (select with default)", w.ipos(x), "select/default", "a buffered subscriber can block the publisher")
					c.guards(f, x, fk+" :: buffered send", 0, guardRe("the query matched", `^true\(.*\.q\.Matches\(events\)#0\)$`))
				}
			}
		}
		for _, r := range w.callsTo(f, "libs/pubsub#state.remove") {
			c.Check(strings.HasSuffix(w.callStr(r), ", libs/pubsub.ErrOutOfCapacity)"), fk+" :: overflowing subscriber is cancelled with ErrOutOfCapacity", w.ipos(r), w.callStr(r), w.callStr(r))
			c.guards(f, r, fk+" :: cancel on overflow", 0, guardCmp("the non-blocking send did not go through", `select#0`, "!=", "0"))
		}
		// message carries the publication and its events
		for _, nm := range w.callsTo(f, "libs/pubsub#NewMessage") {
			c.Check(w.callStr(nm) == "libs/pubsub.NewMessage(msg, events)", fk+" :: delivered message is the publication", w.ipos(nm), "NewMessage(msg, events)", w.callStr(nm))
		}
		// the matching decision uses the subscription's own query
		for _, m := range w.callsTo(f, "libs/pubsub#Query.Matches") {
			c.Check(regexp.MustCompile(`^state\.queries\[next\(range\(state\.subscriptions\)\)#1\]\.q\.Matches\(events\)$`).MatchString(w.callStr(m)), fk+" :: each query string is matched with its own query", w.ipos(m), w.callStr(m), w.callStr(m))
		}
	})

	// ------------------------------------------------------------------ C19.R3
	register("C19", "R3", "K2+K3", "a subscription leaves the maps only after it was cancelled with a reason; only `remove` deletes", 4, func(c *Ctx) {
		w := c.W
		f := c.fn("libs/pubsub", "state.remove")
		if f == nil {
			return
		}
		fk := funcKey(f)
		for _, call := range callInstrs(f) {
			s := w.callStr(call)
			if strings.HasPrefix(s, "delete(state.subscriptions[") {
				ok, _ := mustPrecede(f, call, w.callPred("libs/pubsub#Subscription.cancel"))
				c.Check(ok, fk+" :: cancel(reason) before the subscription is forgotten", w.ipos(call), "cancel precedes delete", "a subscription can be dropped without being told")
			}
		}
		for _, cc := range w.callsTo(f, "libs/pubsub#Subscription.cancel") {
			c.Check(w.callStr(cc) == "state.subscriptions[qStr]#0[clientID]#0.cancel(reason)", fk+" :: the removed subscription itself is cancelled with the given reason", w.ipos(cc), w.callStr(cc), w.callStr(cc))
		}
		// other deleters
		for _, g := range w.FuncsInPkg("libs/pubsub") {
			for _, call := range callInstrs(g) {
				if strings.HasPrefix(w.callStr(call), "delete(state.subscriptions") || strings.HasPrefix(w.callStr(call), "delete(state.queries") {
					c.Check(g == f, funcKey(g)+" :: subscription maps are only shrunk by remove", w.ipos(call), "in remove", "subscriptions are deleted outside remove (no cancellation)")
				}
			}
		}
		if g := c.fn("libs/pubsub", "Subscription.cancel"); g != nil {
			okErr := false
			for _, fs := range w.fieldStoresIn(g, "libs/pubsub", "Subscription", "err") {
				okErr = w.expr(fs.Store.Val) == "err"
			}
			closes := w.callsMatching(g, `^close\(s\.canceled\)$`)
			c.Check(okErr && len(closes) == 1, funcKey(g)+" :: records the reason and closes the cancellation channel", w.pos(g.Pos()), "s.err = err; close(s.canceled)", "cancel no longer records the reason / signals")
			for _, cl := range closes {
				ok, _ := mustPrecede(g, cl, func(in ssa.Instruction) bool {
					st, ok := in.(*ssa.Store)
					return ok && strings.HasSuffix(w.expr(st.Addr), ".err")
				})
				c.Check(ok, funcKey(g)+" :: reason is set before the channel is closed", w.ipos(cl), "ordered", "the channel is closed before the reason is visible")
			}
		}
	})

	// ------------------------------------------------------------------ C19.R4
	register("C19", "R4", "K2", "indexer service: for every block exactly its NumTxs transactions are batched and the batch is always indexed before the next block", 6, func(c *Ctx) {
		w := c.W
		top := c.fn("state/txindex", "IndexerService.OnStart")
		if top == nil {
			return
		}
		var f *ssa.Function
		for _, a := range top.AnonFuncs {
			if len(w.callsTo(a, "state/txindex#TxIndexer.AddBatch")) > 0 {
				f = a
			}
		}
		if !c.Check(f != nil, funcKey(top)+" :: indexing goroutine found", w.pos(top.Pos()), "closure calling AddBatch", "no closure calls AddBatch") {
			return
		}
		fk := funcKey(f)
		hdr := `<-blockHeadersSub\.Out\(\)\.Data\(\)\.\(types\.EventDataNewBlockHeader\)`
		for _, nb := range w.callsTo(f, "state/txindex#NewBatch") {
			c.Check(regexp.MustCompile(`^state/txindex\.NewBatch\(`+hdr+`\.NumTxs\)$`).MatchString(w.callStr(nb)), fk+" :: batch sized by the header's NumTxs", w.ipos(nb), w.callStr(nb), w.callStr(nb))
		}
		for _, add := range w.callsTo(f, "state/txindex#Batch.Add") {
			c.guards(f, add, fk+" :: add a tx event", 0, guardCmp("fewer than NumTxs taken so far", `phi\(\(phi:i \+ 1\)\|0\)`, "<", hdr+`\.NumTxs`))
			c.Check(strings.Contains(w.callStr(add), "<-txsSub.Out().Data().(types.EventDataTx).TxResult"), fk+" :: the batched result is the received tx event's", w.ipos(add), w.callStr(add), w.callStr(add))
		}
		// the outer loop can only continue with the next header after AddBatch (unless the service stops)
		var outer *ssa.BasicBlock
		for _, b := range f.Blocks {
			for _, in := range b.Instrs {
				if cc, ok := in.(*ssa.Call); ok && strings.HasPrefix(w.callStr(cc), "blockHeadersSub.Out()") {
					outer = b
				}
			}
		}
		addBatch := w.callsTo(f, "state/txindex#TxIndexer.AddBatch")
		if c.Check(outer != nil && len(addBatch) == 1, fk+" :: header loop and AddBatch found", w.pos(f.Pos()), "found", "structure changed") {
			// from the end of the tx loop, reaching the next header receive without AddBatch must be impossible
			for _, ea := range condEdges(f) {
				if guardCmp("done", `phi\(\(phi:i \+ 1\)\|0\)`, ">=", hdr+`\.NumTxs`).Match(w, f, ea.A) {
					qq := &pathQ{kill: func(in ssa.Instruction) bool { return in == ssa.Instruction(addBatch[0]) }, target: func(in ssa.Instruction) bool {
						cc, ok := in.(*ssa.Call)
						return ok && strings.HasPrefix(w.callStr(cc), "blockHeadersSub.Out()")
					}}
					hit, path := qq.reach(ea.E.From.Succs[ea.E.Succ], 0)
					c.Check(hit == nil, fk+" :: the tx batch of a block is always indexed before the next block is taken", w.ipos(addBatch[0]), "AddBatch on every path back to the header receive", "the next block can be taken without indexing this block's transactions (they were already drained from the subscription): "+pathStr(w, path))
				}
			}
			okIdx, _ := mustPrecede(f, addBatch[0], w.callPred("state/indexer#BlockIndexer.Index"))
			c.Check(okIdx, fk+" :: block events are indexed before the tx batch", w.ipos(addBatch[0]), "ordered", "block index step no longer precedes the tx batch")
			c.Check(regexp.MustCompile(`^is\.txIdxr\.AddBatch\(state/txindex\.NewBatch\(`).MatchString(w.callStr(addBatch[0])), fk+" :: the batch that was filled is the one indexed", w.ipos(addBatch[0]), w.callStr(addBatch[0]), w.callStr(addBatch[0]))
		}
		// subscriptions are unbuffered (the publisher waits for the indexer)
		c.Check(len(w.callsTo(top, "types#EventBus.SubscribeUnbuffered")) == 2, funcKey(top)+" :: header and tx subscriptions are unbuffered", w.pos(top.Pos()), "two SubscribeUnbuffered", "indexer subscriptions changed")
	})

	// ------------------------------------------------------------------ C19.R5
	register("C19", "R5", "K2", "kv search: after the first condition produced the candidate set, every further condition only filters it (also when the first one matched nothing)", 4, func(c *Ctx) {
		w := c.W
		for _, spec := range [][3]string{{"state/indexer/block/kv", "BlockerIndexer.Search", "heightsInitialized"}, {"state/txindex/kv", "TxIndex.Search", "hashesInitialized"}} {
			f := c.fn(spec[0], spec[1])
			if f == nil {
				continue
			}
			fk := funcKey(f)
			isFirstRun := func(in ssa.Instruction) bool {
				cc, ok := in.(*ssa.Call)
				if !ok {
					return false
				}
				if !regexp.MustCompile(`\.(match|matchRange)\(`).MatchString(w.callStr(cc)) {
					return false
				}
				a := cc.Common().Args
				v, isC := boolConst(a[len(a)-1])
				return isC && v
			}
			n := 0
			for _, b := range f.Blocks {
				for i, in := range b.Instrs {
					if !isFirstRun(in) {
						continue
					}
					n++
					c.guards(f, in, fmt.Sprintf("%s :: first-run match #%d", fk, n), 0, Guard{Name: "no condition has been applied yet", Match: func(w *World, ff *ssa.Function, a Atom) bool {
						p, ok := a.V.(*ssa.Phi)
						return ok && a.Kind == "false" && p.Comment == spec[2]
					}})
					hit := reachWithFlag(f, spec[2], b, i+1, 0, isFirstRun)
					c.Check(hit == nil, fmt.Sprintf("%s :: after first-run match #%d no other condition is treated as the first", fk, n), w.ipos(in), "the initialised flag is set on every path out (including the empty-result break)", "after the first condition ran, a later condition can again be evaluated as 'first' (its matches are returned unfiltered): "+describeHit(w, hit))
				}
			}
			c.Check(n == 2, fk+" :: first-run sites (ranges, other conditions)", w.pos(f.Pos()), "two", fmt.Sprintf("%d first-run match sites", n))
		}
	})
}

// ------------------------------------------------------------------ C19.R6
// Index searches scan by key prefix. A prefix selects exactly the entries of one composite key only if it is
// built by the indexer's key constructor, which terminates the field (tx index: startKey appends the
// separator; block index: orderedcode.Append encodes a terminated string). A prefix made from the raw
// composite key also matches every key that merely starts with it ("transfer.amount" ⊂
// "transfer.amount_burned"): search results then disagree with query matching on the same events.
func init() {
	register("C19", "R6", "K3", "index searches scan with prefixes built by the indexer's own key constructor (field-terminated), never from a raw composite key", 6, func(c *Ctx) {
		w := c.W
		var built func(v ssa.Value, d int) (bool, string)
		built = func(v ssa.Value, d int) (bool, string) {
			if d > 3 {
				return false, "too deep"
			}
			v0 := stripConv(v)
			if ex, ok := v0.(*ssa.Extract); ok {
				v0 = ex.Tuple
			}
			if call, ok := v0.(*ssa.Call); ok {
				n := calleeName(call)
				if strings.HasSuffix(n, "#startKey") || strings.HasSuffix(n, "orderedcode#Append") || strings.HasSuffix(n, "#prefixFromCompositeKey") || strings.HasSuffix(n, "#prefixFromCompositeKeyAndValue") || strings.HasSuffix(n, "#startKeyForCondition") || strings.HasSuffix(n, "#heightKey") || strings.HasSuffix(n, "#eventKey") {
					return true, n
				}
				return false, "built by " + n
			}
			if p, ok := v0.(*ssa.Parameter); ok {
				f := p.Parent()
				idx := -1
				for i, q := range f.Params {
					if q == p {
						idx = i
					}
				}
				callers := w.callersOf(f)
				if len(callers) == 0 {
					return false, "parameter of a function without callers"
				}
				for _, cs := range callers {
					if strings.HasSuffix(w.Fset.Position(cs.Pos()).Filename, "_test.go") {
						continue
					}
					if ok, why := built(cs.Common().Args[idx], d+1); !ok {
						return false, "caller " + funcKey(cs.Parent()) + ": " + why
					}
				}
				return true, "parameter, built by every caller"
			}
			if phi, ok := v0.(*ssa.Phi); ok {
				for _, e := range phi.Edges {
					if ok, why := built(e, d+1); !ok {
						return false, why
					}
				}
				return true, "phi"
			}
			return false, "value " + w.expr(v)
		}
		n := 0
		for _, pkg := range []string{"state/txindex/kv", "state/indexer/block/kv"} {
			for _, f := range w.FuncsInPkg(pkg) {
				for _, call := range rawCallInstrs(f) {
					if !strings.HasSuffix(calleeName(call), "tm-db#IteratePrefix") {
						continue
					}
					n++
					ok, why := built(callArgs(call)[1], 0)
					c.Check(ok, fmt.Sprintf("%s :: prefix scan #%d uses a constructed key", funcKey(f), n), w.ipos(call), why, "the scan prefix is not built by the indexer's key constructor ("+why+"): it also matches keys that only start with the composite key")
				}
			}
		}
		c.Check(n >= 6, "index prefix scans found", "-", fmt.Sprintf("%d", n), fmt.Sprintf("only %d prefix scans", n))
	})
}

// ------------------------------------------------------------------ C19.R7
// Index completeness and search exactness, the parts that sit in helpers of Index/Search:
// (a) indexEvents visits every attribute of every event: its loops are left early only by a failing return;
// (b) a further condition *intersects*: in the reduce loop over the candidate set an entry is deleted exactly
//
//	when the current condition's match set (another map) has no entry for the same key;
//
// (c) query matching and range scans never drop a parse error: a value that does not parse must not be
//
//	compared as zero (it would match `x < 5` or `x = 0`).
func init() {
	register("C19", "R7", "K9+K1", "indexers visit every event attribute; search conditions intersect by key; value parse errors are never dropped", 12, func(c *Ctx) {
		w := c.W
		k := newKeyer()
		// (a)
		for _, spec := range [][2]string{{"state/txindex/kv", "TxIndex.indexEvents"}, {"state/indexer/block/kv", "BlockerIndexer.indexEvents"}} {
			f := c.fn(spec[0], spec[1])
			if f == nil {
				continue
			}
			loops := 0
			// the two loops, in the function itself or in a helper carved out of it (the attribute loop as a
			// function of its own): an early exit of a helper's loop is a failing return of the helper, which
			// the caller's loop in turn leaves only with an error
			for _, g := range append([]*ssa.Function{f}, transparentBodies(f)...) {
				for _, b := range g.Blocks {
					if !isLoopHead(b) {
						continue
					}
					loops++
					for _, e := range loopEarlyExits(b) {
						succ := e.From.Succs[e.Succ]
						c.Check(edgeOnlyFailsDeep(w, f, succ), k.key(f, "loop over events/attributes is left early only with an error"), w.ipos(e.From.Instrs[len(e.From.Instrs)-1]), "early exit = failing return", "the loop over events or attributes can be left early without an error: the remaining attributes are not indexed")
					}
				}
			}
			c.Check(loops >= 2, funcKey(f)+" :: event and attribute loops found", w.pos(f.Pos()), ">= 2 loops", fmt.Sprintf("%d", loops))
		}
		// (b)
		nDel := 0
		for _, pkg := range []string{"state/txindex/kv", "state/indexer/block/kv"} {
			for _, f := range w.FuncsInPkg(pkg) {
				// the reduce loops of match / matchRange, or a helper they share
				for _, call := range rawCallsTo(w, f, "builtin#delete") {
					args := call.Common().Args
					if len(args) != 2 {
						continue
					}
					m, key := stripConv(args[0]), stripConv(args[1])
					nDel++
					g := Guard{Name: "the current condition's match set has no entry for this key", Match: func(w *World, ff *ssa.Function, a Atom) bool {
						if a.Kind != "nil" && a.Kind != "false" {
							return false
						}
						v := stripConv(a.V)
						if ex, ok := v.(*ssa.Extract); ok { // v, ok := other[k]
							if a.Kind != "false" || ex.Index != 1 {
								return false
							}
							v = ex.Tuple
						} else if a.Kind != "nil" {
							return false
						}
						lk, ok := v.(*ssa.Lookup)
						return ok && stripConv(lk.X) != m && stripConv(lk.Index) == key
					}}
					c.guards(f, call, k.key(f, "drop a candidate"), 0, g)
				}
			}
		}
		c.Check(nDel >= 2, "kv indexers :: reduce loops found", "-", ">= 2 delete sites (4 when each matcher has its own loop)", fmt.Sprintf("%d", nDel))
		// (c)
		nParse := 0
		for _, pkg := range []string{"libs/pubsub/query", "state/txindex/kv", "state/indexer/block/kv"} {
			for _, f := range w.FuncsInPkg(pkg) {
				for _, call := range callInstrs(f) {
					d, ok := describeCallee(call)
					if !ok || !(d.Pkg == "strconv" && (strings.HasPrefix(d.Name, "Parse") || d.Name == "Atoi") || d.Pkg == "time" && d.Name == "Parse") {
						continue
					}
					nParse++
					v, isV := call.(ssa.Value)
					used := false
					if isV {
						for _, r := range *v.Referrers() {
							if ex, ok := r.(*ssa.Extract); ok && ex.Index == 1 && len(*ex.Referrers()) > 0 {
								used = true
							}
						}
					}
					c.Check(used, k.key(f, "parse error is looked at"), w.ipos(call), "err of "+d.Pkg+"."+d.Name+" is used", "the error of "+w.callStr(call)+" is dropped: an unparsable value is compared as zero")
				}
			}
		}
		c.Check(nParse >= 10, "query / kv indexers :: parse calls found", "-", ">= 10", fmt.Sprintf("%d", nParse))
	})
}

// isLoopHead: b has a back edge (a predecessor it dominates).
func isLoopHead(b *ssa.BasicBlock) bool {
	for _, p := range b.Preds {
		if b.Dominates(p) {
			return true
		}
	}
	return false
}

// rawCallsTo: calls written in f itself (helper bodies are visited as functions of their own).
func rawCallsTo(w *World, f *ssa.Function, spec string) []ssa.CallInstruction {
	var out []ssa.CallInstruction
	for _, b := range f.Blocks {
		for _, in := range b.Instrs {
			if call, ok := in.(ssa.CallInstruction); ok && w.isCall(call, spec) {
				out = append(out, call)
			}
		}
	}
	return out
}

// ------------------------------------------------------------------ C19.R8
// What the RPC serves for a search hit comes from two stores that are pruned independently: the tx / block
// index keeps every entry, the block store drops heights below the retain height (and holds nothing below
// the snapshot height after state sync). Every Load* of the block store answers nil for such a height, so
// a handler in rpc/core that dereferences the result without a test turns one pruned hit into a panic of
// the whole request (F43: tx and tx_search with prove=true; block_by_hash between its two loads). Rule:
// in rpc/core a value returned by a block-store Load* is dereferenced (field access, method call on it,
// load through it) only where it is known non-nil.
func guardNonNil(name string, v ssa.Value) Guard {
	return Guard{Name: name, Key: fmt.Sprintf("nonnil:%p", v), Match: func(w *World, f *ssa.Function, a Atom) bool {
		// the same value, or a second read of the same place (`xs[i] == nil` … `xs[i].M()`)
		return a.Kind == "nonnil" && a.V != nil && (sameValue(a.V, v) || w.expr(a.V) == w.expr(v))
	}}
}

func init() {
	register("C19", "R8", "K1", "rpc/core dereferences what the block store returns only behind a nil test (index and block store are pruned independently)", 6, func(c *Ctx) {
		w := c.W
		nLoads, nDeref := 0, 0
		ky := newKeyer()
		for _, f := range w.FuncsInPkg("rpc/core") {
			for _, b := range f.Blocks {
				for _, in := range b.Instrs {
					call, ok := in.(*ssa.Call)
					if !ok {
						continue
					}
					d, okd := describeCallee(call)
					if !okd || !strings.HasPrefix(d.Name, "Load") || !strings.Contains(w.expr(call), "BlockStore.Load") {
						continue
					}
					if _, isPtr := call.Type().Underlying().(*types.Pointer); !isPtr {
						continue
					}
					nLoads++
					for _, ref := range *call.Referrers() {
						deref := false
						switch r := ref.(type) {
						case *ssa.FieldAddr:
							deref = r.X == ssa.Value(call)
						case *ssa.UnOp:
							deref = r.Op == token.MUL && r.X == ssa.Value(call)
						case *ssa.Call:
							// a method called on the value (receiver position)
							if !r.Call.IsInvoke() && len(r.Call.Args) > 0 && r.Call.Args[0] == ssa.Value(call) && r.Call.Signature().Recv() != nil {
								deref = true
							}
						}
						if !deref {
							continue
						}
						nDeref++
						c.guards(f, ref, ky.key(f, "use of "+w.expr(call)), 0, guardNonNil("the loaded value is not nil", call))
					}
				}
			}
		}
		c.Check(nLoads >= 10, "rpc/core :: block store loads found", "-", ">= 10", fmt.Sprintf("%d", nLoads))
		c.Check(nDeref >= 6, "rpc/core :: dereferences of loaded values found", "-", ">= 6", fmt.Sprintf("%d", nDeref))
	})
}

// ------------------------------------------------------------------ C19.R9
// Each indexer writes, for every item, entries under keys of its own (the tx indexer: the height entry
// tx.height/<h>/... and the primary record found through tx.hash; the block indexer: block.height). Events
// are indexed under "<type>.<attribute>"; an event that spells one of the indexer's own keys would be written
// into that key space and searches by height / hash would return items that are not at that height (F46: the
// block indexer refused its key, the tx indexer did not). Rule (sibling agreement): in both indexEvents the
// write of an event entry is reached only where the composite key differs from every reserved key of that
// indexer; the reserved keys are the constants the indexer's own writers and lookups use.
func init() {
	register("C19", "R9", "K1+K5", "an event is indexed only under a composite key that is none of the keys the indexer itself writes (tx.hash, tx.height / block.height)", 3, func(c *Ctx) {
		w := c.W
		for _, spec := range []struct {
			pkg, fn  string
			reserved []string
		}{
			{"state/txindex/kv", "TxIndex.indexEvents", []string{"TxHashKey", "TxHeightKey"}},
			{"state/indexer/block/kv", "BlockerIndexer.indexEvents", []string{"BlockHeightKey"}},
		} {
			f := c.fn(spec.pkg, spec.fn)
			if f == nil {
				continue
			}
			fk := funcKey(f)
			n := 0
			for _, g := range append([]*ssa.Function{f}, transparentBodies(f)...) {
				for _, b := range g.Blocks {
					for _, in := range b.Instrs {
						call, ok := in.(*ssa.Call)
						if !ok || !call.Call.IsInvoke() || call.Call.Method.Name() != "Set" {
							continue
						}
						n++
						for _, r := range spec.reserved {
							val := c.mustConstString("types", r)
							c.guards(g, call, fmt.Sprintf("%s :: write an event entry", fk), 0,
								guardCmp("the composite key is not the reserved "+val, `fmt\.Sprintf\("%s\.%s", .*\)`, "!=", regexp.QuoteMeta(fmt.Sprintf("%q", val))))
						}
					}
				}
			}
			c.Check(n == 1, fk+" :: event entry write found", w.pos(f.Pos()), "1 Set", fmt.Sprintf("%d", n))
		}
	})
}

// ------------------------------------------------------------------ C19.R10
// Who receives a publication is decided by its composite-key map. The keys tm.event, tx.hash and tx.height
// are the bus's own: subscribers select the kind of message (and clients the transaction they wait for) by
// them, and consumers such as the indexer service assert the payload type of what arrives on a tm.event
// subscription. The rest of the map comes from the application's events, whose type/key strings are chosen
// by the application (and, through contract platforms, by users). Rule: in every EventBus publisher the value
// stored under a reserved key is a fresh one-element list — never something built from what the map already
// held under that key (F49: append(events[key], value) let a transaction's events address it to the
// subscribers of NewBlockHeader, or to the client waiting for another transaction's hash).
func init() {
	register("C19", "R10", "K3", "the event bus stores fresh one-element lists under its reserved keys (tm.event, tx.hash, tx.height): application events cannot add values there", 5, func(c *Ctx) {
		w := c.W
		reserved := map[string]bool{}
		for _, n := range []string{"EventTypeKey", "TxHashKey", "TxHeightKey"} {
			reserved[c.mustConstString("types", n)] = true
		}
		reservedKeyOf := func(in ssa.Instruction) (string, *ssa.MapUpdate) {
			mu, ok := in.(*ssa.MapUpdate)
			if !ok {
				return "", nil
			}
			k, isK := stripConv(mu.Key).(*ssa.Const)
			if !isK || k.Value == nil || k.Value.Kind() != constant.String || !reserved[constant.StringVal(k.Value)] {
				return "", nil
			}
			return constant.StringVal(k.Value), mu
		}
		// (a) wherever a method of the bus (or a helper of it) stores under a reserved key, the value is fresh
		nStores := 0
		ky := newKeyer()
		for _, f := range w.FuncsInPkg("types") {
			if f.Signature.Recv() == nil || !strings.Contains(f.Signature.Recv().Type().String(), "EventBus") {
				continue
			}
			for _, b := range f.Blocks {
				for _, in := range b.Instrs {
					key, mu := reservedKeyOf(in)
					if mu == nil {
						continue
					}
					nStores++
					elems := sliceElems(mu.Value)
					c.Check(len(elems) == 1, ky.key(f, "value stored under "+key), w.ipos(mu), "a fresh list with the bus's own value", "stores "+w.expr(mu.Value)+": values the application's events put under "+key+" survive and decide who receives the publication")
				}
			}
		}
		c.Check(nStores >= 3, "types.EventBus :: stores under reserved keys found", "-", ">= 3", fmt.Sprintf("%d", nStores))
		// (b) each publisher that carries application events sets its reserved keys (itself or in a helper)
		want := map[string][]string{
			"EventBus.PublishEventNewBlock":       {"tm.event"},
			"EventBus.PublishEventNewBlockHeader": {"tm.event"},
			"EventBus.PublishEventTx":             {"tm.event", "tx.hash", "tx.height"},
		}
		for _, name := range []string{"EventBus.PublishEventNewBlock", "EventBus.PublishEventNewBlockHeader", "EventBus.PublishEventTx"} {
			f := c.fn("types", name)
			if f == nil {
				continue
			}
			fk := funcKey(f)
			got := map[string]bool{}
			for _, di := range w.deepInstrs(f, 2) {
				if key, mu := reservedKeyOf(di.in); mu != nil {
					got[key] = true
				}
			}
			for _, k := range want[name] {
				c.Check(got[k], fk+" :: sets "+k, w.pos(f.Pos()), "stored before publishing", "the publication leaves "+k+" to the application's events")
			}
		}
	})
}

// ------------------------------------------------------------------ C19.R11, R12 (round-4 seeds)
func init() {
	// R11: `type.attribute EXISTS` asks for that very composite key; only a bare event type (no dot) is
	// looked for as a prefix of the keys. Falling back to the prefix scan for a dotted key delivers events
	// that merely have a longer key with the same beginning (transfer.amount_burned for transfer.amount) —
	// and makes the subscription disagree with the indexers' search for the same query.
	register("C19", "R11", "K1", "EXISTS on a dotted key is an exact key lookup: the prefix scan over the event keys is used only for a bare event type", 2, func(c *Ctx) {
		w := c.W
		f := c.fn("libs/pubsub/query", "Query.Matches")
		if f == nil {
			return
		}
		fk := funcKey(f)
		n := 0
		// in Matches itself or in a predicate carved out of it
		for _, g := range append([]*ssa.Function{f}, transparentBodies(f)...) {
			for _, b := range g.Blocks {
				for _, in := range b.Instrs {
					call, ok := in.(*ssa.Call)
					if !ok {
						continue
					}
					d, okd := describeCallee(call)
					if !okd || d.Pkg != "strings" || !(d.Name == "Index" || d.Name == "HasPrefix") {
						continue
					}
					if !strings.Contains(w.expr(callArgs(call)[0]), "range(") {
						continue
					}
					n++
					c.guards(g, call, fk+" :: prefix scan over the event keys", 0, guardRe("the attribute has no dot (it is an event type)", `^false\(strings\.Contains\(.*, "\."\)\)$`))
				}
			}
		}
		c.Check(n == 1, fk+" :: prefix scan found", w.pos(f.Pos()), "1", fmt.Sprintf("%d", n))
	})

	// R12: the handshake may replay the last block (the node stopped after saving it and before applying
	// it); the replay publishes that block's events, and only a subscribed indexer service indexes them.
	// The event bus and the indexer service are therefore started before the handshake.
	register("C19", "R12", "K2", "node start-up: event bus and indexer service are started before the handshake that may replay (and publish) the last block", 2, func(c *Ctx) {
		w := c.W
		f := c.fn("node", "NewNode")
		if f == nil {
			return
		}
		fk := funcKey(f)
		n := 0
		for _, hs := range w.callsTo(f, "node#doHandshake") {
			n++
			for _, pre := range []string{"node#createAndStartEventBus", "node#createAndStartIndexerService"} {
				ok, _ := mustPrecede(f, hs, w.callPred(pre))
				c.Check(ok, fk+" :: "+pre[strings.Index(pre, "#")+1:]+" before the handshake", w.ipos(hs), "started first", "the handshake can run before "+pre[strings.Index(pre, "#")+1:]+": the events of a block replayed at start-up are published to nobody and the block is never indexed")
			}
		}
		c.Check(n == 1, fk+" :: handshake found", w.pos(f.Pos()), "1", fmt.Sprintf("%d", n))
	})
}
