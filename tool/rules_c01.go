package main

import (
	"fmt"
	"go/types"
	"regexp"
	"strings"

	"golang.org/x/tools/go/ssa"
)

const (
	reMaj23Pre  = `.*\.Precommits\(.*CommitRound\)\.TwoThirdsMajority\(\)`
	specSave    = "state#BlockStore.SaveBlock"
	specApply   = "state#BlockExecutor.ApplyBlock"
	specExecCB  = "state#ExecCommitBlock"
	specValBlk  = "state#BlockExecutor.ValidateBlock"
	specSignAdd = "consensus#State.signAddVote"
)

// returnValues resolves the values a function may return at result index idx (through defer spills).
func returnValues(f *ssa.Function, idx int) []ssa.Value {
	var out []ssa.Value
	for _, b := range f.Blocks {
		if len(b.Instrs) == 0 {
			continue
		}
		ret, ok := b.Instrs[len(b.Instrs)-1].(*ssa.Return)
		if !ok || idx >= len(ret.Results) {
			continue
		}
		if b.Comment == "recover" {
			continue
		}
		v := ret.Results[idx]
		if u, ok := v.(*ssa.UnOp); ok {
			if al, ok := u.X.(*ssa.Alloc); ok {
				for _, r := range *al.Referrers() {
					if st, ok := r.(*ssa.Store); ok && st.Addr == al && st.Block() == b {
						out = append(out, st.Val)
					}
				}
				continue
			}
		}
		out = append(out, v)
	}
	return out
}

func init() {
	// ------------------------------------------------------------------ C01.R1
	register("C01", "R1", "K1", "commit sink: SaveBlock/ApplyBlock in consensus.State only behind +2/3 precommits of CommitRound, hash match, part-set header match, full validation", 9, func(c *Ctx) {
		w := c.W
		k := newKeyer()
		n := 0
		for _, f := range w.methodsOf("consensus", "State") {
			for _, call := range w.callsTo(f, specSave, specApply) {
				n++
				args := callArgs(call)
				var blk ssa.Value
				name := "SaveBlock"
				if w.isCall(call, specSave) {
					blk = args[0]
				} else {
					blk = args[2]
					name = "ApplyBlock"
				}
				B := q(w.expr(blk))
				key := k.key(f, name)
				gs := []Guard{
					guardRe("+2/3 precommits in CommitRound", `^true\(`+reMaj23Pre+`#1\)$`),
					guardRe("block hashes to the +2/3 block id", `^true\(`+B+`\.HashesTo\(`+reMaj23Pre+`#0\.Hash\)\)$`),
					guardRe("ValidateBlock(state, block) = nil", `^nil\(.*\.ValidateBlock\(\w+\.state, `+B+`\)\)$`),
				}
				if name == "SaveBlock" {
					P := q(w.expr(args[1]))
					gs = append(gs, guardRe("parts have the +2/3 part-set header", `^true\(`+P+`\.HasHeader\(`+reMaj23Pre+`#0\.PartSetHeader\)\)$`))
					sc := w.expr(args[2])
					c.Check(regexp.MustCompile(`^.*\.Precommits\(.*CommitRound\)\.MakeCommit\(\)$`).MatchString(sc), key+" seen commit = MakeCommit of CommitRound precommits", w.ipos(call),
						"seen commit is built from the precommits of CommitRound", "seen commit argument is "+sc+", not Precommits(CommitRound).MakeCommit()")
				} else {
					gs = append(gs, guardRe("parts have the +2/3 part-set header", `^true\(.*ProposalBlockParts\.HasHeader\(`+reMaj23Pre+`#0\.PartSetHeader\)\)$`))
					// block id handed to ApplyBlock is derived from the same block and parts
					bid := w.expr(args[1])
					idOK := false
					if al := allocOf(args[1]); al != nil {
						hs, ps := "", ""
						for _, r := range *al.Referrers() {
							if fa, ok := r.(*ssa.FieldAddr); ok {
								for _, rr := range *fa.Referrers() {
									if st, ok := rr.(*ssa.Store); ok && st.Addr == fa {
										switch fieldName(fa.X.Type(), fa.Field) {
										case "Hash":
											hs = w.expr(st.Val)
										case "PartSetHeader":
											ps = w.expr(st.Val)
										}
									}
								}
							}
						}
						idOK = hs == w.expr(blk)+".Hash()" && strings.HasSuffix(ps, ".Header()")
						bid = "{Hash: " + hs + ", PartSetHeader: " + ps + "}"
					}
					c.Check(idOK, key+" block id = {block.Hash(), parts.Header()}", w.ipos(call), "block id passed to ApplyBlock is computed from the executed block", "block id passed to ApplyBlock is "+bid)
				}
				c.guards(f, call, key, 2, gs...)
			}
		}
		if n < 2 {
			c.Undecided("sinks", "-", fmt.Sprintf("expected SaveBlock and ApplyBlock calls in consensus.State methods, found %d", n))
		}
	})

	// ------------------------------------------------------------------ C01.R2
	register("C01", "R2", "K3", "only the consensus finalise path, the handshake replay and block sync persist/execute blocks", 9, func(c *Ctx) {
		w := c.W
		sites := w.allCallsTo(specSave, specApply, specExecCB, "store#BlockStore.SaveBlock")
		c.onlyIn("SaveBlock/ApplyBlock/ExecCommitBlock call", sites, func(f *ssa.Function) (bool, string) {
			switch {
			case isMethodOf(f, "consensus", "State"):
				return true, "consensus.State (governed by C01.R1)"
			case isMethodOf(f, "consensus", "Handshaker"):
				return true, "handshake replay (governed by C05)"
			case strings.HasPrefix(relPkg(f), "blockchain/"):
				return true, "block sync (governed by C13)"
			case relPkg(f) == "consensus" && strings.Contains(funcKey(outermost(f)), "replay"):
				return true, "replay tooling"
			}
			return false, ""
		})
	})

	// ------------------------------------------------------------------ C01.R3
	register("C01", "R3", "K1+K3", "lock: LockedBlock/LockedRound set only behind a polka for that round, hash match and validation", 8, func(c *Ctx) {
		w := c.W
		k := newKeyer()
		for _, fs := range w.fieldStores("consensus/types", "RoundState", "LockedBlock") {
			if !inScopePkg(pkgPathOf(fs.Fn)) {
				continue
			}
			if storesNil(fs.Store) {
				continue // unlocks are governed by C02.R4
			}
			key := k.key(fs.Fn, "LockedBlock = block")
			V := q(w.expr(fs.Store.Val))
			// LockedRound and LockedBlockParts are stored in the same block
			var round ssa.Value
			parts := false
			for _, st := range sameBlockStores(fs.Store) {
				if fa, ok := st.Addr.(*ssa.FieldAddr); ok && isFieldOf(fa, "consensus/types", "RoundState", "LockedRound") {
					round = st.Val
				}
				if fa, ok := st.Addr.(*ssa.FieldAddr); ok && isFieldOf(fa, "consensus/types", "RoundState", "LockedBlockParts") {
					parts = strings.HasSuffix(w.expr(st.Val), "Parts") && strings.Replace(w.expr(st.Val), "Parts", "", 1) == w.expr(fs.Store.Val)
				}
			}
			c.Check(parts, key+" with matching LockedBlockParts", w.ipos(fs.Store), "LockedBlockParts set together with LockedBlock from the same source", "LockedBlockParts is not set from the parts of the locked block in the same step")
			if !c.Check(round != nil, key+" with LockedRound", w.ipos(fs.Store), "LockedRound set together with LockedBlock", "LockedRound is not set where LockedBlock is set") {
				continue
			}
			R := q(w.expr(round))
			pol := `.*\.Prevotes\(` + R + `\)\.TwoThirdsMajority\(\)`
			c.guards(fs.Fn, fs.Store, key, 1,
				guardRe("polka in the lock round", `^true\(`+pol+`#1\)$`),
				guardRe("locked block hashes to the polka id", `^true\(`+V+`\.HashesTo\(`+pol+`#0\.Hash\)\)$`),
				guardRe("ValidateBlock(state, block) = nil", `^nil\(.*\.ValidateBlock\(\w+\.state, `+V+`\)\)$`),
				guardCmp("round is current or later", `\w+`, ">=", `.*\.Round`),
				guardCmp("height is current", `.*\.Height`, "==", `height`),
			)
		}
		// relock: LockedRound = r without LockedBlock store
		for _, fs := range w.fieldStores("consensus/types", "RoundState", "LockedRound") {
			if v, ok := constInt(fs.Store.Val); ok && v == -1 {
				continue
			}
			hasBlock := false
			for _, st := range sameBlockStores(fs.Store) {
				if fa, ok := st.Addr.(*ssa.FieldAddr); ok && isFieldOf(fa, "consensus/types", "RoundState", "LockedBlock") && !storesNil(st) {
					hasBlock = true
				}
			}
			if hasBlock {
				continue
			}
			key := k.key(fs.Fn, "LockedRound = r (relock)")
			R := q(w.expr(fs.Store.Val))
			pol := `.*\.Prevotes\(` + R + `\)\.TwoThirdsMajority\(\)`
			c.guards(fs.Fn, fs.Store, key, 1,
				guardRe("polka in the relock round", `^true\(`+pol+`#1\)$`),
				guardRe("locked block hashes to the polka id", `^true\(.*\.LockedBlock\.HashesTo\(`+pol+`#0\.Hash\)\)$`),
			)
		}
		// writers of Locked*: methods of consensus.State only
		var sites []Site
		for _, fld := range []string{"LockedBlock", "LockedRound", "LockedBlockParts"} {
			for _, fs := range w.fieldStores("consensus/types", "RoundState", fld) {
				sites = append(sites, Site{fs.Fn, fs.Store})
			}
		}
		c.onlyIn("store to RoundState.Locked*", sites, func(f *ssa.Function) (bool, string) {
			if isMethodOf(f, "consensus", "State") {
				return true, "consensus.State"
			}
			return false, ""
		})
	})

	// ------------------------------------------------------------------ C01.R4
	register("C01", "R4", "K1", "prevote: a locked validator prevotes its lock; a proposal is prevoted only if valid", 3, func(c *Ctx) {
		w := c.W
		prevote := c.mustConst("proto/tendermint/types", "PrevoteType")
		k := newKeyer()
		for _, f := range w.FuncsInPkg("consensus") {
			for _, call := range w.callsTo(f, specSignAdd) {
				args := callArgs(call)
				if v, ok := constInt(args[0]); !ok || v != prevote {
					continue
				}
				h := w.expr(args[1])
				switch {
				case isNilConst(args[1]):
					c.guards(f, call, k.key(f, "prevote nil"), 1, guardRe("not locked", `^nil\(.*\.LockedBlock\)$`))
				case strings.HasSuffix(h, ".LockedBlock.Hash()"):
					key := k.key(f, "prevote locked block")
					c.guards(f, call, key, 1, guardRe("locked", `^nonnil\(.*\.LockedBlock\)$`))
					c.Check(strings.HasSuffix(w.expr(args[2]), ".LockedBlockParts.Header()"), key+" header", w.ipos(call), "part-set header of the lock", "prevote for the locked block carries header "+w.expr(args[2]))
				case strings.HasSuffix(h, ".ProposalBlock.Hash()"):
					key := k.key(f, "prevote proposal block")
					B := q(strings.TrimSuffix(h, ".Hash()"))
					c.guards(f, call, key, 1,
						guardRe("not locked", `^nil\(.*\.LockedBlock\)$`),
						guardRe("proposal block present", `^nonnil\(`+B+`\)$`),
						guardRe("ValidateBlock(state, proposal) = nil", `^nil\(.*\.ValidateBlock\(\w+\.state, `+B+`\)\)$`),
					)
					c.Check(strings.HasSuffix(w.expr(args[2]), ".ProposalBlockParts.Header()"), key+" header", w.ipos(call), "part-set header of the proposal", "prevote for the proposal carries header "+w.expr(args[2]))
				default:
					c.Fail(k.key(f, "prevote other"), w.ipos(call), "prevote for a value that is neither nil, the locked block nor the proposal block: "+h)
				}
			}
		}
	})

	// ------------------------------------------------------------------ C01.R5
	register("C01", "R5", "K11+K1", "quorum arithmetic: maj23 is set only at sum >= floor(2T/3)+1, once; HasTwoThirdsAny is sum > floor(2T/3)", 4, func(c *Ctx) {
		w := c.W
		T := `.*\.TotalVotingPower\(\)`
		quorum := `\(\(\(` + T + ` \* 2\) / 3\) \+ 1\)`
		twoThirds := `\(\(` + T + ` \* 2\) / 3\)`
		k := newKeyer()
		for _, fs := range w.fieldStores("types", "VoteSet", "maj23") {
			if storesNil(fs.Store) {
				continue
			}
			if outermost(fs.Fn).Name() == "NewVoteSet" {
				continue
			}
			key := k.key(fs.Fn, "maj23 = id")
			c.anyGuards(fs.Fn, fs.Store, key, "block sum reached quorum floor(2T/3)+1", 0,
				[]Guard{guardCmp("q1", `.*\.sum`, ">=", quorum)},
				[]Guard{guardCmp("q2", `.*\.sum`, ">", twoThirds)})
			c.anyGuards(fs.Fn, fs.Store, key, "sum before this vote was below quorum", 0,
				[]Guard{guardCmp("o1", `.*\.sum`, "<", quorum)},
				[]Guard{guardCmp("o2", `.*\.sum`, "<=", twoThirds)})
			c.guards(fs.Fn, fs.Store, key, 0, guardRe("maj23 not yet set", `^nil\(.*\.maj23\)$`))
			// the stored id is the vote's block id
			c.Check(strings.HasSuffix(w.expr(fs.Store.Val), ".BlockID"), key+" value", w.ipos(fs.Store), "maj23 is the vote's BlockID", "maj23 set to "+w.expr(fs.Store.Val))
		}
		for _, name := range []string{"VoteSet.HasTwoThirdsAny"} {
			f := c.fn("types", name)
			if f == nil {
				continue
			}
			rx := regexp.MustCompile(`^\(.*\.sum > ` + twoThirds + `\)$`)
			rx2 := regexp.MustCompile(`^\(.*\.sum >= ` + quorum + `\)$`)
			for _, v := range returnValues(f, 0) {
				if b, ok := boolConst(v); ok && !b {
					continue
				}
				s := w.arith(v)
				c.Check(rx.MatchString(s) || rx2.MatchString(s), "types.VoteSet.HasTwoThirdsAny threshold", w.pos(f.Pos()), "sum > floor(2T/3)", "threshold expression is "+s)
			}
		}
		// TwoThirdsMajority reports ok only with a non-nil maj23 and returns it
		if f := c.fn("types", "VoteSet.TwoThirdsMajority"); f != nil {
			for _, b := range f.Blocks {
				for _, in := range b.Instrs {
					st, ok := in.(*ssa.Store)
					if !ok {
						continue
					}
					if bv, ok := boolConst(st.Val); ok && bv {
						c.guards(f, st, "types.VoteSet.TwoThirdsMajority ok=true", 0, guardRe("maj23 set", `^nonnil\(.*\.maj23\)$`))
					}
				}
			}
		}
	})

	// ------------------------------------------------------------------ C01.R6
	register("C01", "R6", "K1", "vote admission: power is tallied only for a verified vote of the right H/R/type from the indexed validator, once", 8, func(c *Ctx) {
		w := c.W
		k := newKeyer()
		for _, fs := range w.fieldStores("types", "VoteSet", "sum") {
			if v, ok := constInt(fs.Store.Val); ok && v == 0 {
				continue
			}
			key := k.key(fs.Fn, "VoteSet.sum += power")
			idx := `\w+\.ValidatorIndex`
			c.guards(fs.Fn, fs.Store, key, 2,
				guardRe("validator has no vote yet", `^nil\(.*\.votes\[`+idx+`\]\)$`),
				guardCmp("height matches", `\w+\.Height`, "==", `\w+\.height`),
				guardCmp("round matches", `\w+\.Round`, "==", `\w+\.round`),
				guardCmp("type matches", `\w+\.Type`, "==", `\w+\.signedMsgType`),
				guardRe("validator index resolves", `^nonnil\(.*\.GetByIndex\(`+idx+`\)#1\)$`),
				guardRe("address equals the indexed validator's", `^true\(bytes\.Equal\(\w+\.ValidatorAddress, .*\.GetByIndex\(`+idx+`\)#0\)\)$`),
				guardRe("signature verifies under chain id and the indexed validator's key", `^nil\(\w+\.Verify\(\w+\.chainID, .*\.GetByIndex\(`+idx+`\)#1\.PubKey\)\)$`),
			)
			// the power added is the indexed validator's voting power
			s := w.arith(fs.Store.Val)
			okPow := false
			if m := regexp.MustCompile(`^\(.*\.sum \+ (\w+)\)$`).FindStringSubmatch(s); m != nil {
				if pi := paramIndexByName(fs.Fn, m[1]); pi >= 0 {
					okPow = true
					for _, cs := range w.callersOf(fs.Fn) {
						a := w.expr(cs.Common().Args[pi])
						if !regexp.MustCompile(`\.GetByIndex\(` + idx + `\)#1\.VotingPower$`).MatchString(a) {
							okPow = false
							s += " with caller argument " + a
						}
					}
				}
			}
			c.Check(okPow, key+" value", w.ipos(fs.Store), "added power is GetByIndex(vote.ValidatorIndex).VotingPower", "added power is "+s)
		}
		for _, fs := range w.fieldStores("types", "blockVotes", "sum") {
			if v, ok := constInt(fs.Store.Val); ok && v == 0 {
				continue
			}
			key := k.key(fs.Fn, "blockVotes.sum += power")
			c.guards(fs.Fn, fs.Store, key, 0, guardRe("validator not yet counted for this block", `^nil\(.*\.votes\[\w+\.ValidatorIndex\]\)$`))
		}
		// a conflicting vote is only tracked for a block a peer claims +2/3 for
		if f := c.fn("types", "VoteSet.addVerifiedVote"); f != nil {
			for _, call := range w.callsTo(f, "types#blockVotes.addVerifiedVote") {
				_ = call
			}
		}
	})

	// ------------------------------------------------------------------ C01.R7
	register("C01", "R7", "K4", "the block hash commits to every header field and to the block's own content hashes", 17, func(c *Ctx) {
		w := c.W
		f := c.fn("types", "Header.Hash")
		if f == nil {
			return
		}
		// the fields that flow into the leaves of the merkle root that is returned
		read := map[string]bool{}
		recv := "h"
		if len(f.Params) > 0 {
			recv = canonParamName(f.Params[0])
		}
		rx := regexp.MustCompile(`\b` + recv + `\.(\w+)`)
		for _, call := range w.callsTo(f, "crypto/merkle#HashFromByteSlices") {
			for _, e := range sliceElems(call.Common().Args[0]) {
				for _, m := range rx.FindAllStringSubmatch(w.expr(e), -1) {
					read[m[1]] = true
				}
			}
		}
		for _, fld := range structFields(w.NamedType("types", "Header")) {
			c.Check(read[fld], "types.Header.Hash reads "+fld, w.pos(f.Pos()), "field is a leaf of the header merkle root", "Header."+fld+" does not flow into the merkle root computed by Header.Hash: two headers differing only there would hash the same")
		}
		// all leaves go into one merkle root that is returned
		leaves := len(w.callsTo(f, "crypto/merkle#HashFromByteSlices"))
		c.Check(leaves == 1, "types.Header.Hash merkle root", w.pos(f.Pos()), "single merkle root over the field encodings", fmt.Sprintf("%d HashFromByteSlices calls", leaves))
		if g := c.fn("types", "Block.fillHeader"); g != nil {
			want := map[string]string{"LastCommitHash": `\.LastCommit\.Hash\(\)$`, "DataHash": `\.Data\.Hash\(\)$`, "EvidenceHash": `\.Evidence\.Hash\(\)$`}
			got := map[string]string{}
			for _, fs := range w.fieldStoresIn(g, "types", "Header", "*") {
				got[fieldName(fs.Addr.X.Type(), fs.Addr.Field)] = w.expr(fs.Store.Val)
			}
			for fld, re := range want {
				c.Check(regexp.MustCompile(re).MatchString(got[fld]), "types.Block.fillHeader "+fld, w.pos(g.Pos()), "content hash filled from the block's own content", "Header."+fld+" filled from "+got[fld])
			}
		}
		if h := c.fn("types", "Block.Hash"); h != nil {
			okFill := w.alwaysCallsBefore(h, "types#Block.fillHeader", "types#Header.Hash")
			c.Check(okFill, "types.Block.Hash fills content hashes before hashing the header", w.pos(h.Pos()), "fillHeader precedes Header.Hash", "Header.Hash can be reached without fillHeader")
		}
	})
}

func allocOf(v ssa.Value) *ssa.Alloc {
	v = stripConv(v)
	if u, ok := v.(*ssa.UnOp); ok {
		v = u.X
	}
	a, _ := v.(*ssa.Alloc)
	return a
}

func paramIndexByName(f *ssa.Function, name string) int {
	for i, p := range f.Params {
		if canonParamName(p) == name {
			return i
		}
	}
	return -1
}

func structFields(t types.Type) []string {
	var out []string
	if t == nil {
		return nil
	}
	if s, ok := t.Underlying().(*types.Struct); ok {
		for i := 0; i < s.NumFields(); i++ {
			out = append(out, s.Field(i).Name())
		}
	}
	return out
}

// alwaysCallsBefore: in f, every call matching `second` is preceded on all paths by a call matching `first`.
func (w *World) alwaysCallsBefore(f *ssa.Function, first, second string) bool {
	seconds := w.callsTo(f, second)
	if len(seconds) == 0 {
		return false
	}
	for _, s := range seconds {
		if ok, _ := mustPrecede(f, s, w.callPred(first)); !ok {
			return false
		}
	}
	return true
}
