package main

func init() {
	st := "consensus/state.go"
	addWitness(Witness{Name: "finalize-drop-validate", Prop: "C01", Rule: "C01.R1", Kind: "break", File: st,
		Old: "	if err := cs.blockExec.ValidateBlock(cs.state, block); err != nil {\n		panic(fmt.Errorf(\"+2/3 committed an invalid block: %w\", err))\n	}",
		New: "	if err := cs.blockExec.ValidateBlock(cs.state, block); err != nil {\n		logger.Error(\"+2/3 committed an invalid block\", \"err\", err)\n	}"})
	// (skipping only the HashesTo panic in finalizeCommit is NOT a violation: tryFinalizeCommit, its only
	// caller, checks the same condition; the rule lifts to the caller and correctly stays silent.)
	addWitness(Witness{Name: "finalize-header-check-skipped-for-round0", Prop: "C01", Rule: "C01.R1", Kind: "break", File: st,
		Old: "	if !blockParts.HasHeader(blockID.PartSetHeader) {\n		panic(\"expected ProposalBlockParts header to be commit header\")",
		New: "	if cs.CommitRound > 0 && !blockParts.HasHeader(blockID.PartSetHeader) {\n		panic(\"expected ProposalBlockParts header to be commit header\")"})
	addWitness(Witness{Name: "neutral-finalize-hash-check-redundant", Prop: "C01", Kind: "neutral", File: st,
		Old: "	if !block.HashesTo(blockID.Hash) {\n		panic(\"cannot finalize commit; proposal block does not hash to commit hash\")",
		New: "	if cs.CommitRound > 0 && !block.HashesTo(blockID.Hash) {\n		panic(\"cannot finalize commit; proposal block does not hash to commit hash\")"})
	addWitness(Witness{Name: "finalize-commit-from-current-round", Prop: "C01", Rule: "C01.R1", Kind: "break", File: st,
		Old: "		precommits := cs.Votes.Precommits(cs.CommitRound)\n		seenCommit := precommits.MakeCommit()",
		New: "		precommits := cs.Votes.Precommits(cs.Round)\n		seenCommit := precommits.MakeCommit()"})
	addWitness(Witness{Name: "lock-without-validate", Prop: "C01", Rule: "C01.R3", Kind: "break", File: st,
		Old: "		if err := cs.blockExec.ValidateBlock(cs.state, cs.ProposalBlock); err != nil {\n			panic(fmt.Sprintf(\"precommit step; +2/3 prevoted for an invalid block: %v\", err))\n		}",
		New: "		if err := cs.blockExec.ValidateBlock(cs.state, cs.ProposalBlock); err != nil {\n			logger.Error(\"precommit step; +2/3 prevoted for an invalid block\", \"err\", err)\n		}"})
	addWitness(Witness{Name: "prevote-proposal-while-locked", Prop: "C01", Rule: "C01.R4", Kind: "break", File: st,
		Old: "	if cs.LockedBlock != nil {\n		logger.Debug(\"prevote step; already locked on a block; prevoting locked block\")",
		New: "	if cs.LockedBlock != nil && cs.ProposalBlock == nil {\n		logger.Debug(\"prevote step; already locked on a block; prevoting locked block\")"})
	addWitness(Witness{Name: "quorum-geq-two-thirds", Prop: "C01", Rule: "C01.R5", Kind: "break", File: "types/vote_set.go",
		Old: "	quorum := voteSet.valSet.TotalVotingPower()*2/3 + 1", New: "	quorum := voteSet.valSet.TotalVotingPower() * 2 / 3"})
	addWitness(Witness{Name: "any-two-thirds-geq", Prop: "C01", Rule: "C01.R5", Kind: "break", File: "types/vote_set.go",
		Old: "	return voteSet.sum > voteSet.valSet.TotalVotingPower()*2/3\n", New: "	return voteSet.sum >= voteSet.valSet.TotalVotingPower()*2/3\n"})
	addWitness(Witness{Name: "vote-round-check-dropped", Prop: "C01", Rule: "C01.R6", Kind: "break", File: "types/vote_set.go",
		Old: "	if (vote.Height != voteSet.height) ||\n		(vote.Round != voteSet.round) ||", New: "	if (vote.Height != voteSet.height) ||"})
	addWitness(Witness{Name: "blockvotes-double-count", Prop: "C01", Rule: "C01.R6", Kind: "break", File: "types/vote_set.go",
		Old: "		vs.votes[valIndex] = vote\n		vs.sum += votingPower\n	}",
		New: "		vs.votes[valIndex] = vote\n	}\n	vs.sum += votingPower"})
	addWitness(Witness{Name: "header-hash-omits-field", Prop: "C01", Rule: "C01.R7", Kind: "break", File: "types/block.go",
		Old: "		cdcEncode(h.LastResultsHash),\n		cdcEncode(h.EvidenceHash),", New: "		cdcEncode(h.LastResultsHash),\n		cdcEncode(h.LastResultsHash),"})
	// neutral: extract the validation panic into a helper; rename local
	addWitness(Witness{Name: "neutral-extract-validate-helper", Prop: "C01", Kind: "neutral", File: st,
		Old:  "	if err := cs.blockExec.ValidateBlock(cs.state, block); err != nil {\n		panic(fmt.Errorf(\"+2/3 committed an invalid block: %w\", err))\n	}",
		New:  "	cs.mustBeValid(block)",
		More: []Edit{{st, "// Increment height and goto cstypes.RoundStepNewHeight\nfunc (cs *State) finalizeCommit(", "func (cs *State) mustBeValid(b *types.Block) {\n	if err := cs.blockExec.ValidateBlock(cs.state, b); err != nil {\n		panic(fmt.Errorf(\"+2/3 committed an invalid block: %w\", err))\n	}\n}\n\n// Increment height and goto cstypes.RoundStepNewHeight\nfunc (cs *State) finalizeCommit("}}})
}
