package main

// Rules added after the fifth seeding round (fresh agents on the tree repaired for F72–F84) was missed.

import (
	"fmt"
	"go/constant"
	"go/token"
	"go/types"
	"regexp"
	"strings"

	"golang.org/x/tools/go/ssa"
)

// loopPasses: in the loop that holds `in`, every way round the loop (header → back edge) executes `in`,
// except over edges for which skip answers true. It returns a counterexample path.
func loopPasses(f *ssa.Function, in ssa.Instruction, skip func(Edge) bool) (bool, []*ssa.BasicBlock) {
	hdr := loopOf(in)
	if hdr == nil {
		return false, nil
	}
	body := loopBlocks(hdr)
	if len(hdr.Instrs) == 0 {
		return false, nil
	}
	again := hdr.Instrs[0]
	q := &pathQ{
		blocked: func(e Edge) bool {
			if !body[e.From.Succs[e.Succ]] {
				return true
			}
			return skip != nil && skip(e)
		},
		kill:   func(x ssa.Instruction) bool { return x == in },
		target: func(x ssa.Instruction) bool { return x == again },
	}
	// from each first block of the body round to the header again
	for si, sc := range hdr.Succs {
		if !body[sc] || (skip != nil && skip(Edge{hdr, si})) {
			continue
		}
		if sc == hdr {
			return false, []*ssa.BasicBlock{hdr}
		}
		if hit, path := q.reach(sc, 0); hit != nil {
			return false, append([]*ssa.BasicBlock{hdr}, path...)
		}
	}
	return true, nil
}

// chainPasses: `in` (in f or in a helper carved out of f) is executed on every way round the loop it belongs
// to, where the loop may sit in f while `in` sits in the helper: at every level below the loop each return of
// the helper lies behind the instruction (or the helper's call), at the loop's level loopPasses holds. skip
// names, per function, the edges over which the instruction may be avoided.
func chainPasses(f *ssa.Function, in ssa.Instruction, skip func(g *ssa.Function) map[Edge]bool) (bool, []*ssa.BasicBlock) {
	chain := siteChain(f, in)
	if chain == nil {
		return false, nil
	}
	for _, ln := range chain {
		g, at := ln.fn, ln.at
		sk := map[Edge]bool{}
		if skip != nil {
			sk = skip(g)
		}
		if loopOf(at) != nil {
			return loopPasses(g, at, func(e Edge) bool { return sk[e] })
		}
		for _, r := range returnsOf(g) {
			if reach, path := reachFromEntry(g, sk, func(x ssa.Instruction) bool { return x == at }, r); reach {
				return false, path
			}
		}
	}
	return false, nil
}

func init() {
	// ------------------------------------------------------------------ C12.R15
	register("C12", "R15", "K2", "Update remembers every committed transaction the application accepted (cache.Push on every way round the loop with code OK), whether or not it was in the pool", 2, func(c *Ctx) {
		w := c.W
		n := 0
		for _, ms := range mempoolSiblings {
			f := c.fn(ms.pkg, ms.typ+".Update")
			if f == nil {
				continue
			}
			fk := funcKey(f)
			for _, p := range w.callsMatching(f, `\.cache\.Push\(`) {
				n++
				notOKIn := func(g *ssa.Function) map[Edge]bool {
					m := map[Edge]bool{}
					for _, ea := range condEdges(g) {
						if ea.A.Kind == "cmp" && ea.A.X != nil && strings.HasSuffix(w.expr(ea.A.X), ".Code") {
							if k, isC := constInt(ea.A.Y); isC && k == 0 && ea.A.Op == token.NEQ {
								m[ea.E] = true
							}
						}
					}
					return m
				}
				ok, path := chainPasses(f, p, notOKIn)
				c.Check(ok, fk+" :: every accepted committed tx goes into the cache", w.ipos(p), "Push on every way round the loop with code OK", "a committed transaction the application accepted can pass the loop without being remembered (a later copy of it is admitted again): "+pathStr(w, path))
			}
		}
		c.Check(n >= 2, "Update loops with cache.Push", "mempool/", ">= 2", fmt.Sprintf("%d", n))
	})

	// ------------------------------------------------------------------ C12.R16
	register("C12", "R16", "K1", "reaping returns a prefix of the pool order: a transaction that does not fit ends the reap (no way round the loop without keeping its transaction)", 2, func(c *Ctx) {
		w := c.W
		n := 0
		for _, ms := range mempoolSiblings {
			f := c.fn(ms.pkg, ms.typ+".ReapMaxBytesMaxGas")
			if f == nil {
				continue
			}
			fk := funcKey(f)
			for _, call := range callInstrs(f) {
				if d, ok := describeCallee(call); ok && d.Pkg == "builtin" && d.Name == "append" && loopOf(call) != nil {
					n++
					ok, path := loopPasses(f, call, nil)
					c.Check(ok, fk+" :: the loop goes on only with its transaction kept", w.ipos(call), "append on every way round the loop", "the loop continues past a transaction it did not keep: a later one can overtake it and the result is not a prefix of the pool order ("+pathStr(w, path)+")")
				}
			}
		}
		c.Check(n >= 2, "reap loops found", "mempool/", ">= 2", fmt.Sprintf("%d", n))
	})

	// ------------------------------------------------------------------ C14.R15
	register("C14", "R15", "K1", "the state provider's light client is cross-checked by servers other than its primary (primary = first server, witnesses = the rest)", 3, func(c *Ctx) {
		w := c.W
		f := c.fn("statesync", "NewLightClientStateProvider")
		if f == nil {
			return
		}
		fk := funcKey(f)
		calls := w.callsTo(f, "light#NewClient")
		c.Check(len(calls) == 1, fk+" :: light client constructed", w.pos(f.Pos()), "1", fmt.Sprintf("%d", len(calls)))
		for _, call := range calls {
			a := callArgs(call)
			if len(a) < 5 {
				continue
			}
			var base ssa.Value
			pi := int64(-1)
			if ld, ok := a[3].(*ssa.UnOp); ok {
				if ia, ok := ld.X.(*ssa.IndexAddr); ok {
					base = ia.X
					if k, isC := constInt(ia.Index); isC {
						pi = k
					}
				}
			}
			c.Check(base != nil && pi >= 0, fk+" :: primary is a fixed element of the server list", w.ipos(call), "providers[k]", "primary is "+w.expr(a[3]))
			sl, isSl := a[4].(*ssa.Slice)
			okW := false
			if isSl && base != nil && sameValue(sl.X, base) {
				lo, hasLo := int64(0), sl.Low != nil
				if hasLo {
					lo, _ = constInt(sl.Low)
				}
				var hi int64 = -1
				if sl.High != nil {
					hi, _ = constInt(sl.High)
				}
				// the witness range [lo, hi) does not contain the primary's index
				okW = (hasLo && lo > pi) || (sl.High != nil && hi <= pi && hi >= 0)
			}
			c.Check(okW, fk+" :: the primary is not among its own witnesses", w.ipos(call), "witnesses = the other servers", "the witnesses handed to the light client are "+w.expr(a[4])+": a lying primary is cross-checked against itself")
		}
	})

	// ------------------------------------------------------------------ C14.R16
	register("C14", "R16", "K2", "every chunk the application asks to refetch is discarded, every sender it rejects is rejected — whatever the verdict and whichever chunk was just applied", 4, func(c *Ctx) {
		w := c.W
		f := c.fn("statesync", "syncer.applyChunks")
		if f == nil {
			return
		}
		fk := funcKey(f)
		n := 0
		for _, spec := range [][2]string{{"statesync#chunkQueue.Discard", "RefetchChunks"}, {"statesync#chunkQueue.DiscardSender", "RejectSenders"}, {"statesync#snapshotPool.RejectPeer", "RejectSenders"}} {
			for _, call := range w.callsTo(f, spec[0]) {
				arg := w.expr(callArgs(call)[0])
				if !strings.Contains(arg, "."+spec[1]+"[") {
					continue
				}
				n++
				// (an empty sender name stands for "no sender": nothing to reject)
				// (the loops may live in a per-chunk helper carved out of this function)
				g := call.Parent()
				empty := map[Edge]bool{}
				for _, ea := range condEdges(g) {
					if ea.A.Kind != "cmp" || ea.A.Op != token.EQL || ea.A.X == nil {
						continue
					}
					if k, isC := ea.A.Y.(*ssa.Const); isC && k.Value != nil && k.Value.Kind() == constant.String && constant.StringVal(k.Value) == "" && strings.Contains(w.expr(ea.A.X), "."+spec[1]+"[") {
						empty[ea.E] = true
					}
				}
				ok, path := loopPasses(g, call, func(e Edge) bool { return empty[e] })
				c.Check(ok, fk+" :: "+spec[1]+" handled for every entry", w.ipos(call), "on every way round the loop", "an entry of "+spec[1]+" can be passed over: "+pathStr(w, path))
				// the loop itself visits every entry: counted on the first instruction of its body
				var first ssa.Instruction = call
				if hdr := loopOf(call); hdr != nil {
					for _, sc := range hdr.Succs {
						if loopBlocks(hdr)[sc] && len(sc.Instrs) > 0 {
							first = sc.Instrs[0]
						}
					}
				}
				trips, okT := unitLoopTripsX(w, first, func(b *ssa.BasicBlock) bool { return edgeOnlyFailsDeep(w, f, b) })
				c.Check(okT && strings.HasSuffix(trips, "."+spec[1]+")"), fk+" :: the loop over "+spec[1]+" visits every entry", w.ipos(call), trips, "the loop runs "+trips+" times")
			}
		}
		c.Check(n >= 3, fk+" :: refetch/reject loops found", w.pos(f.Pos()), ">= 3", fmt.Sprintf("%d", n))
	})

	// ------------------------------------------------------------------ C19.R16
	register("C19", "R16", "K1", "every attribute with a key reaches the published event map (an empty value is a value)", 2, func(c *Ctx) {
		w := c.W
		f := c.fn("types", "EventBus.validateAndStringifyEvents")
		if f == nil {
			return
		}
		fk := funcKey(f)
		n := 0
		for _, di := range w.deepInstrs(f, 2) {
			mu, ok := di.in.(*ssa.MapUpdate)
			if !ok || loopOf(mu) == nil {
				continue
			}
			n++
			g := mu.Parent()
			noKey := map[Edge]bool{}
			for _, ea := range condEdges(g) {
				if guardCmp("k", `len\(.*\.Attributes\[.*\]\.Key\)|len\(\w+\.Key\)`, "==", "0").Match(w, g, ea.A) {
					noKey[ea.E] = true
				}
			}
			ok2, path := loopPasses(g, mu, func(e Edge) bool { return noKey[e] })
			c.Check(ok2, fk+" :: an attribute with a key is published", w.ipos(mu), "only an empty key is skipped", "an attribute that has a key can be left out of the published map (subscribers miss events the indexer indexes): "+pathStr(w, path))
		}
		c.Check(n == 1, fk+" :: attribute publication found", w.pos(f.Pos()), "1", fmt.Sprintf("%d", n))
	})

	// ------------------------------------------------------------------ C19.R17
	register("C19", "R17", "K2", "Unsubscribe drops its entry from the subscription table only once the server loop has taken the command", 2, func(c *Ctx) {
		w := c.W
		n := 0
		for _, name := range []string{"Server.Unsubscribe", "Server.UnsubscribeAll"} {
			f := c.fn("libs/pubsub", name)
			if f == nil {
				continue
			}
			fk := funcKey(f)
			// the select's first state is the send of the command
			sendFirst := false
			for _, g := range pkgCallees(f, 2) {
				for _, b := range g.Blocks {
					for _, in := range b.Instrs {
						if sel, ok := in.(*ssa.Select); ok && len(sel.States) > 0 && sel.States[0].Dir == types.SendOnly && strings.HasSuffix(w.expr(sel.States[0].Chan), ".cmds") {
							sendFirst = true
						}
					}
				}
			}
			c.Check(sendFirst, fk+" :: hands the command to the loop in a select", w.pos(f.Pos()), "case s.cmds <- cmd first", "no select whose first case sends the command")
			for _, in := range rawCallInstrs(f) {
				if b, ok := in.Common().Value.(*ssa.Builtin); ok && b.Name() == "delete" && strings.Contains(w.expr(in.Common().Args[0]), ".subscriptions") {
					n++
					c.guards(f, in, fk+" :: drop the table entry", 0, guardCmp("the loop took the command", `select#0`, "==", "0"))
				}
			}
		}
		c.Check(n >= 2, "table deletions in Unsubscribe/UnsubscribeAll", "libs/pubsub/pubsub.go", ">= 2", fmt.Sprintf("%d", n))
	})

	// ------------------------------------------------------------------ C19.R18
	register("C19", "R18", "K2", "a block applied by the handshake publishes its events on the node's event bus (the indexer is a subscriber)", 2, func(c *Ctx) {
		w := c.W
		f := c.fn("consensus", "Handshaker.replayBlock")
		if f == nil {
			return
		}
		fk := funcKey(f)
		n := 0
		for _, ap := range w.callsTo(f, "state#BlockExecutor.ApplyBlock") {
			n++
			recv := w.expr(callRecv(ap))
			// the call that sets the bus — here, or in a helper of this package that builds the executor (then
			// on every path of that helper)
			sites := map[ssa.Instruction]bool{}
			for _, dc := range w.deepCallsTo(f, 2, "state#BlockExecutor.SetEventBus") {
				if !regexp.MustCompile(`^\w+\.eventBus$`).MatchString(dc.arg(0)) || w.exprWith(callRecv(dc.call), dc.sub) != recv {
					continue
				}
				if dc.call.Parent() != f {
					h := dc.call.Parent()
					if !w.alwaysCalls(h, 0, "state#BlockExecutor.SetEventBus") {
						continue
					}
				}
				sites[dc.site] = true
			}
			ok, path := mustPrecede(f, ap, func(in ssa.Instruction) bool { return sites[in] })
			c.Check(ok, fk+" :: the executor that applies the block publishes on the handshaker's event bus", w.ipos(ap), "SetEventBus(h.eventBus) first", "the block is applied by an executor with the no-op bus: its NewBlock and Tx events are never published and never indexed ("+pathStr(w, path)+")")
		}
		c.Check(n == 1, fk+" :: ApplyBlock found", w.pos(f.Pos()), "1", fmt.Sprintf("%d", n))
	})
}

func init() {
	// ------------------------------------------------------------------ C13.R15
	// The scheduler removes both peers of a failed verification and re-requests every height they had
	// delivered; the processor must drop what it still holds from them, or the re-fetched block is a
	// duplicate and the processor panics.
	register("C13", "R15", "K8", "v2: when the commit check fails the processor drops every block it holds from both delivering peers before it reports the failure", 2, func(c *Ctx) {
		w := c.W
		f := c.fn("blockchain/v2", "pcState.handle")
		if f == nil {
			return
		}
		fk := funcKey(f)
		n := 0
		for _, b := range f.Blocks {
			for _, in := range b.Instrs {
				st, ok := in.(*ssa.Store)
				if !ok {
					continue
				}
				fa, ok := st.Addr.(*ssa.FieldAddr)
				if !ok {
					continue
				}
				nt := derefNamed(fa.X.Type())
				if nt == nil || nt.Obj().Name() != "pcBlockVerificationFailure" {
					continue
				}
				fld := fieldName(fa.X.Type(), fa.Field)
				if fld != "firstPeerID" && fld != "secondPeerID" {
					continue
				}
				n++
				peer := w.expr(st.Val)
				// the two peers may be one: then one purge does
				same := map[Edge]bool{}
				for _, ea := range condEdges(f) {
					if ea.A.Kind == "cmp" && ea.A.Op == token.EQL && ea.A.X != nil && ea.A.Y != nil && strings.HasSuffix(w.expr(ea.A.X), ".peerID") && strings.HasSuffix(w.expr(ea.A.Y), ".peerID") {
						same[ea.E] = true
					}
				}
				// the purge of that peer: a direct call, or one inside a helper of this package which then makes
				// it on every path (but for the two-peers-are-one edge)
				kills := map[ssa.Instruction]bool{}
				for _, dc := range w.deepCallsTo(f, 2, "blockchain/v2#pcState.purgePeer") {
					if dc.arg(0) != peer {
						continue
					}
					if h := dc.call.Parent(); h != f {
						sameH := map[Edge]bool{}
						for _, ea := range condEdges(h) {
							if ea.A.Kind == "cmp" && ea.A.Op == token.EQL {
								sameH[ea.E] = true
							}
						}
						always := true
						for _, r := range returnsOf(h) {
							if rr, _ := reachFromEntry(h, sameH, func(x ssa.Instruction) bool { return x == ssa.Instruction(dc.call.(*ssa.Call)) }, r); rr {
								always = false
							}
						}
						if !always {
							continue
						}
					}
					kills[dc.site] = true
				}
				reach, path := reachFromEntry(f, same, func(x ssa.Instruction) bool { return kills[x] }, st)
				c.Check(!reach, fk+" :: report a verification failure naming "+fld, w.ipos(st), "that peer's blocks purged first", "the failure is reported (the scheduler removes the peer and re-requests its heights) while the processor keeps the peer's other blocks: the re-fetched block is a duplicate and the processor panics ("+pathStr(w, path)+")")
			}
		}
		c.Check(n == 2, fk+" :: verification failure report found", w.pos(f.Pos()), "2 peer fields", fmt.Sprintf("%d", n))
	})

	// ------------------------------------------------------------------ C20.R17
	register("C20", "R17", "K1", "Validators describes the verified set: height, page, page length and the total of the whole verified set", 4, func(c *Ctx) {
		w := c.W
		f := c.fn("light/rpc", "Client.Validators")
		if f == nil {
			return
		}
		fk := funcKey(f)
		got := storedFields(w, f, "ResultValidators")
		lb := `c\.updateLightClientIfNeededTo\(ctx, height\)#0`
		set := lb + `\.ValidatorSet\.Validators`
		want := map[string]string{
			"BlockHeight": `^` + lb + `\.SignedHeader\.Header\.Height$`,
			"Validators":  `^` + set + `\[.*:.*\]$`,
			"Count":       `^len\(` + set + `\[.*:.*\]\)$`,
			"Total":       `^len\(` + set + `\)$`,
		}
		for _, fld := range []string{"BlockHeight", "Validators", "Count", "Total"} {
			c.Check(regexp.MustCompile(want[fld]).MatchString(got[fld]), fk+" :: "+fld+" of the answer", w.pos(f.Pos()), got[fld], fld+" = "+got[fld]+": a caller that pages until it has Total validators ends with a set that is not the verified one")
		}
	})
}

func init() {
	// ------------------------------------------------------------------ C11.R13
	// Writer/reader agreement: the constructor of duplicate-vote evidence orders the two votes, ValidateBasic
	// refuses evidence whose votes are not in order. Both must order by the same projection of the vote with
	// the same comparison, or the pool builds (and counts) evidence nobody can validate.
	register("C11", "R13", "K8", "duplicate-vote evidence is built in the order its own validation demands (same comparison over the same projection of the two votes)", 3, func(c *Ctx) {
		w := c.W
		type cmpUse struct{ callee, p0, p1 string }
		find := func(f0 *ssa.Function) []cmpUse {
			var out []cmpUse
			var calls []ssa.CallInstruction
			for _, g := range pkgCallees(f0, 1) {
				if g != f0 && !isNewFunc(g) {
					continue
				}
				calls = append(calls, rawCallInstrs(g)...)
			}
			for _, call := range calls {
				d, ok := describeCallee(call)
				if !ok || d.Name != "Compare" || (d.Pkg != "strings" && d.Pkg != "bytes") {
					continue
				}
				a := call.Common().Args
				if len(a) != 2 {
					continue
				}
				proj := func(v ssa.Value) string {
					s := w.expr(v)
					if i := strings.Index(s, ".BlockID"); i >= 0 {
						return s[i:]
					}
					return s
				}
				out = append(out, cmpUse{d.Pkg + "." + d.Name, proj(a[0]), proj(a[1])})
			}
			return out
		}
		mk := c.fn("types", "NewDuplicateVoteEvidence")
		vb := c.fn("types", "DuplicateVoteEvidence.ValidateBasic")
		if mk == nil || vb == nil {
			return
		}
		a, b := find(mk), find(vb)
		c.Check(len(a) == 1, funcKey(mk)+" :: orders the two votes with one comparison", w.pos(mk.Pos()), "1", fmt.Sprintf("%d", len(a)))
		c.Check(len(b) == 1, funcKey(vb)+" :: checks the order of the two votes with one comparison", w.pos(vb.Pos()), "1", fmt.Sprintf("%d", len(b)))
		if len(a) == 1 && len(b) == 1 {
			c.Check(a[0] == b[0] && a[0].p0 == a[0].p1, funcKey(mk)+" :: orders the votes by what ValidateBasic compares", w.pos(mk.Pos()), a[0].callee+" over "+a[0].p0, fmt.Sprintf("constructor: %s(%s, %s); validation: %s(%s, %s) — evidence built from two votes that the two orders rank differently fails its own validation (peers cannot decode it, the pool cannot reload it)", a[0].callee, a[0].p0, a[0].p1, b[0].callee, b[0].p0, b[0].p1))
		}
	})
}
