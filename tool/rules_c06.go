package main

import (
	"fmt"
	"go/types"
	"regexp"
	"sort"
	"strings"

	"golang.org/x/tools/go/ssa"
)

// storedFields returns field name → rendered value for every field store into struct values in f.
func storedFields(w *World, f *ssa.Function, typeName string) map[string]string {
	got := map[string]string{}
	// stores made by f, or by a helper introduced later that f calls (the assignments carved out into a
	// function of their own): values are rendered in f's terms (parameters replaced by the arguments)
	for _, di := range w.deepInstrs(f, 2) {
		st, ok := di.in.(*ssa.Store)
		if !ok {
			continue
		}
		fa, ok := st.Addr.(*ssa.FieldAddr)
		if !ok {
			continue
		}
		if n := derefNamed(fa.X.Type()); n != nil && (typeName == "" || n.Obj().Name() == typeName) {
			got[fieldName(fa.X.Type(), fa.Field)] = w.exprWith(st.Val, di.sub)
		}
	}
	return got
}

func ruleValidateBlock(c *Ctx) {
	w := c.W
	f := c.fn("state", "validateBlock")
	if f == nil {
		return
	}
	H := `block\.Header`
	gs := []Guard{
		guardRe("block is internally consistent (ValidateBasic)", `^nil\(block\.ValidateBasic\(\)\)$`),
		guardCmp("app version equals state's", H+`\.Version\.App`, "==", `state\.Version\.Consensus\.App`),
		guardCmp("block version equals state's", H+`\.Version\.Block`, "==", `state\.Version\.Consensus\.Block`),
		guardCmp("chain id equals state's", H+`\.ChainID`, "==", `state\.ChainID`),
		guardAny("first block (no last block) has the initial height",
			guardCmp("a", H+`\.Height`, "==", `state\.InitialHeight`), guardCmp("b", `state\.LastBlockHeight`, "!=", "0")),
		guardAny("later blocks have last height + 1",
			guardCmp("a", H+`\.Height`, "==", `\(state\.LastBlockHeight \+ 1\)`), guardCmp("b", `state\.LastBlockHeight`, "<=", "0")),
		guardRe("last block id equals state's", `^true\(`+H+`\.LastBlockID\.Equals\(state\.LastBlockID\)\)$`),
		guardRe("app hash equals state's", `^true\(bytes\.Equal\(`+H+`\.AppHash, state\.AppHash\)\)$`),
		guardRe("consensus hash equals the hash of state's params", `^true\(bytes\.Equal\(`+H+`\.ConsensusHash, types\.HashConsensusParams\(state\.ConsensusParams\)\)\)$`),
		guardRe("last results hash equals state's", `^true\(bytes\.Equal\(`+H+`\.LastResultsHash, state\.LastResultsHash\)\)$`),
		guardRe("validators hash equals state.Validators.Hash()", `^true\(bytes\.Equal\(`+H+`\.ValidatorsHash, state\.Validators\.Hash\(\)\)\)$`),
		guardRe("next validators hash equals state.NextValidators.Hash()", `^true\(bytes\.Equal\(`+H+`\.NextValidatorsHash, state\.NextValidators\.Hash\(\)\)\)$`),
		guardAny("last commit: full +2/3 verification by the last validators (or empty for the initial block)",
			guardRe("a", `^nil\(state\.LastValidators\.VerifyCommit\(state\.ChainID, state\.LastBlockID, \(`+H+`\.Height - 1\), block\.LastCommit\)\)$`),
			guardCmp("b", `len\(block\.LastCommit\.Signatures\)`, "==", "0")),
		guardRe("proposer is a current validator", `^true\(state\.Validators\.HasAddress\(`+H+`\.ProposerAddress\)\)$`),
		guardAny("time: weighted median of the last commit (or genesis time for the initial block)",
			guardRe("a", `^true\(`+H+`\.Time\.Equal\(state\.MedianTime\(block\.LastCommit, state\.LastValidators\)\)\)$`),
			guardRe("b", `^true\(`+H+`\.Time\.Equal\(state\.LastBlockTime\)\)$`)),
		guardAny("time is after the last block's (non-initial blocks)",
			guardRe("a", `^true\(`+H+`\.Time\.After\(state\.LastBlockTime\)\)$`),
			guardCmp("b", H+`\.Height`, "<=", `state\.InitialHeight`), guardCmp("b2", H+`\.Height`, "==", `state\.InitialHeight`)),
		guardCmp("evidence within the size limit", `block\.Evidence\.ByteSize\(\)`, "<=", `state\.ConsensusParams\.Evidence\.MaxBytes`),
	}
	for _, g := range gs {
		c.Check(c.ge().ensures(f, g, 1), "state.validateBlock ensures "+g.Name, w.pos(f.Pos()), "nil only behind this check", "validateBlock can accept a block without: "+g.Name)
	}
	// which alternative applies is decided by the height, not by the block's own claims
	for _, call := range w.callsTo(f, "types#ValidatorSet.VerifyCommit") {
		c.guards(f, call, "state.validateBlock :: VerifyCommit of the last commit", 0, guardCmp("not the initial block", H+`\.Height`, "!=", `state\.InitialHeight`))
	}
	for _, ea := range condEdges(f) {
		if guardCmp("e", `len\(block\.LastCommit\.Signatures\)`, "==", "0").Match(w, f, ea.A) {
			at := ea.E.From.Instrs[len(ea.E.From.Instrs)-1]
			c.guards(f, at, "state.validateBlock :: empty last commit accepted", 0, guardCmp("only for the initial block", H+`\.Height`, "==", `state\.InitialHeight`))
		}
	}
	// BlockExecutor.ValidateBlock = validateBlock + evidence admissibility
	if g := c.fn("state", "BlockExecutor.ValidateBlock"); g != nil {
		for _, gd := range []Guard{
			guardRe("validateBlock(state, block) = nil", `^nil\(state\.validateBlock\(state, block\)\)$`),
			guardRe("evidence admissible (CheckEvidence = nil)", `^nil\(\w+\.evpool\.CheckEvidence\(block\.Evidence\.Evidence\)\)$`),
		} {
			c.Check(c.ge().ensures(g, gd, 2), "state.BlockExecutor.ValidateBlock ensures "+gd.Name, w.pos(g.Pos()), "nil only behind this check", "ValidateBlock can accept without: "+gd.Name)
		}
	}
	// content hashes
	if g := c.fn("types", "Block.ValidateBasic"); g != nil {
		for _, gd := range []Guard{
			guardRe("header is well formed", `^nil\(b\.Header\.ValidateBasic\(\)\)$`),
			guardRe("last commit present", `^nonnil\(b\.LastCommit\)$`),
			guardRe("last commit well formed", `^nil\(b\.LastCommit\.ValidateBasic\(\)\)$`),
			guardRe("LastCommitHash matches the block's last commit", `^true\(bytes\.Equal\(b\.Header\.LastCommitHash, b\.LastCommit\.Hash\(\)\)\)$`),
			guardRe("DataHash matches the block's txs", `^true\(bytes\.Equal\(b\.Header\.DataHash, b\.Data\.Hash\(\)\)\)$`),
			guardRe("EvidenceHash matches the block's evidence", `^true\(bytes\.Equal\(b\.Header\.EvidenceHash, b\.Evidence\.Hash\(\)\)\)$`),
		} {
			c.Check(c.ge().ensures(g, gd, 2), "types.Block.ValidateBasic ensures "+gd.Name, w.pos(g.Pos()), "nil only behind this check", "Block.ValidateBasic can accept without: "+gd.Name)
		}
	}
}

func ruleMakeBlockAgreement(c *Ctx) {
	w := c.W
	f := c.fn("state", "State.MakeBlock")
	if f == nil {
		return
	}
	calls := w.callsTo(f, "types#Header.Populate")
	if !c.Check(len(calls) == 1, "state.State.MakeBlock populates the header once", w.pos(f.Pos()), "one Populate call", fmt.Sprintf("%d Populate calls", len(calls))) {
		return
	}
	a := callArgs(calls[0])
	want := []string{
		`^state\.Version\.Consensus$`, `^state\.ChainID$`,
		`^phi\(state\.LastBlockTime\|state\.MedianTime\(commit, state\.LastValidators\)\)$`,
		`^state\.LastBlockID$`, `^state\.Validators\.Hash\(\)$`, `^state\.NextValidators\.Hash\(\)$`,
		`^types\.HashConsensusParams\(state\.ConsensusParams\)$`, `^state\.AppHash$`, `^state\.LastResultsHash$`, `^proposerAddress$`,
	}
	names := []string{"version", "chain id", "time (genesis time or median of the commit by the last validators)", "last block id", "validators hash", "next validators hash", "consensus hash", "app hash", "last results hash", "proposer address"}
	for i, re := range want {
		got := ""
		if i < len(a) {
			got = w.expr(a[i])
		}
		c.Check(regexp.MustCompile(re).MatchString(got), "state.State.MakeBlock header "+names[i]+" is the value validateBlock compares against", w.ipos(calls[0]), got, "Populate argument "+fmt.Sprint(i)+" is "+got)
	}
	// genesis time only for the initial height
	for _, m := range w.callsTo(f, "state#MedianTime") {
		c.guards(f, m, "state.State.MakeBlock :: median time", 0, guardCmp("not the initial height", "height", "!=", `state\.InitialHeight`))
	}
	// Populate stores its parameters into the matching fields
	if p := c.fn("types", "Header.Populate"); p != nil {
		got := storedFields(w, p, "Header")
		pairs := map[string]string{"Version": "version", "ChainID": "chainID", "Time": "timestamp", "LastBlockID": "lastBlockID", "ValidatorsHash": "valHash", "NextValidatorsHash": "nextValHash",
			"ConsensusHash": "consensusHash", "AppHash": "appHash", "LastResultsHash": "lastResultsHash", "ProposerAddress": "proposerAddress"}
		for fld, prm := range pairs {
			c.Check(got[fld] == prm, "types.Header.Populate sets "+fld, w.pos(p.Pos()), fld+" = "+prm, "Header."+fld+" is set from "+got[fld])
		}
	}
}

func ruleMedianTime(c *Ctx) {
	w := c.W
	f := c.fn("state", "MedianTime")
	if f == nil {
		return
	}
	calls := w.callsTo(f, "types/time#WeightedMedian")
	if !c.Check(len(calls) == 1, "state.MedianTime calls WeightedMedian once", w.pos(f.Pos()), "one call", fmt.Sprintf("%d calls", len(calls))) {
		return
	}
	total := callArgs(calls[0])[1]
	var acc *accumulator
	for _, a := range accumulators(f) {
		if a.derived(total) {
			a := a
			acc = &a
		}
	}
	if !c.Check(acc != nil, "state.MedianTime total weight is the accumulated power of the counted signatures", w.ipos(calls[0]), "total = Σ power of counted signatures", "the total weight passed to WeightedMedian is "+w.expr(total)+", not the sum over the signatures that were counted") {
		return
	}
	pw := w.expr(acc.y)
	c.Check(regexp.MustCompile(`^validators\.GetByAddress\(commit\.Signatures\[.*\]\.ValidatorAddress\)#1\.VotingPower$`).MatchString(pw), "state.MedianTime weight is the signer's voting power in the given validator set", w.ipos(acc.add), pw, "weight summed is "+pw)
	c.guards(f, acc.add, "state.MedianTime :: count a signature", 0,
		guardRe("signature not absent", `^false\(commit\.Signatures\[.*\]\.Absent\(\)\)$`),
		guardRe("signer is in the validator set", `^nonnil\(validators\.GetByAddress\(.*\)#1\)$`))
	for _, nw := range w.callsTo(f, "types/time#NewWeightedTime") {
		a := callArgs(nw)
		ok := regexp.MustCompile(`^commit\.Signatures\[.*\]\.Timestamp$`).MatchString(w.expr(a[0])) && w.expr(a[1]) == pw
		c.Check(ok, "state.MedianTime pairs each timestamp with the same signer's power", w.ipos(nw), "NewWeightedTime(sig.Timestamp, val.VotingPower)", w.callStr(nw))
	}
}

func ruleDeterministicResults(c *Ctx) {
	w := c.W
	if f := c.fn("types", "deterministicResponseDeliverTx"); f != nil {
		got := storedFields(w, f, "ResponseDeliverTx")
		var names []string
		for k := range got {
			names = append(names, k)
		}
		sort.Strings(names)
		c.Check(strings.Join(names, ",") == "Code,Data,GasUsed,GasWanted", "types.deterministicResponseDeliverTx keeps exactly Code, Data, GasWanted, GasUsed", w.pos(f.Pos()), "fresh struct with the four deterministic fields", "fields carried into the results hash: "+strings.Join(names, ","))
		for _, v := range returnValues(f, 0) {
			al := allocOf(v)
			c.Check(al != nil && al.Comment == "complit", "types.deterministicResponseDeliverTx returns a fresh value", w.pos(f.Pos()), "composite literal", "returns "+w.expr(v)+" (a copy of the response would carry non-deterministic fields)")
		}
	}
	if f := c.fn("types", "NewResults"); f != nil {
		c.Check(len(w.callsTo(f, "types#deterministicResponseDeliverTx")) == 1, "types.NewResults strips every response", w.pos(f.Pos()), "uses deterministicResponseDeliverTx", "does not strip non-deterministic fields")
	}
	if f := c.fn("state", "ABCIResponsesResultsHash"); f != nil {
		rv := returnValues(f, 0)
		c.Check(len(rv) == 1 && w.expr(rv[0]) == "types.NewResults(ar.DeliverTxs).Hash()", "state.ABCIResponsesResultsHash = NewResults(DeliverTxs).Hash()", w.pos(f.Pos()), "exact", "results hash computed differently")
	}
	// the next state is built from (state, header, responses, updates) only, setting every field
	if f := c.fn("state", "updateState"); f != nil {
		got := storedFields(w, f, "State")
		st := w.NamedType("state", "State")
		for _, fld := range structFields(st) {
			_, ok := got[fld]
			c.Check(ok, "state.updateState sets State."+fld, w.pos(f.Pos()), fld+" = "+got[fld], "the returned state leaves State."+fld+" unset")
		}
		want := map[string]string{
			"LastBlockHeight": `^header\.Height$`, "LastBlockID": `^blockID$`, "LastBlockTime": `^header\.Time$`,
			"Validators": `^state\.NextValidators\.Copy\(\)$`, "LastValidators": `^state\.Validators\.Copy\(\)$`,
			"LastResultsHash": `^state\.ABCIResponsesResultsHash\(abciResponses\)$`, "ChainID": `^state\.ChainID$`, "InitialHeight": `^state\.InitialHeight$`,
			"LastHeightValidatorsChanged":      `^phi\(\(\(header\.Height \+ 1\) \+ 1\)\|state\.LastHeightValidatorsChanged\)$`,
			"LastHeightConsensusParamsChanged": `^phi\(\(header\.Height \+ 1\)\|state\.LastHeightConsensusParamsChanged\)$`,
		}
		for fld, re := range want {
			c.Check(regexp.MustCompile(re).MatchString(got[fld]), "state.updateState "+fld+" value", w.pos(f.Pos()), got[fld], "State."+fld+" is set to "+got[fld])
		}
		// next validators = copy of NextValidators, updated, priorities incremented once
		incs := w.callsMatching(f, `^state\.NextValidators\.Copy\(\)\.IncrementProposerPriority\(1\)$`)
		c.Check(len(incs) == 1, "state.updateState rotates the next validator set by exactly one", w.pos(f.Pos()), "IncrementProposerPriority(1) on the copy", fmt.Sprintf("%d matching calls", len(incs)))
		for _, u := range w.callsTo(f, "types#ValidatorSet.UpdateWithChangeSet") {
			c.Check(strings.HasPrefix(w.callStr(u), "state.NextValidators.Copy().UpdateWithChangeSet(validatorUpdates)"), "state.updateState applies the updates to a copy of NextValidators", w.ipos(u), w.callStr(u), w.callStr(u))
		}
	}
}

// ruleNoNondeterminism (K7): nothing reachable from the state transition reads the clock, randomness,
// the environment, or depends on map iteration order.
func ruleNoNondeterminism(c *Ctx) {
	w := c.W
	roots := []*ssa.Function{}
	for _, r := range [][2]string{
		{"state", "updateState"}, {"state", "validateBlock"}, {"state", "State.MakeBlock"}, {"state", "MedianTime"}, {"types/time", "WeightedMedian"},
		{"types", "Block.Hash"}, {"types", "Header.Hash"}, {"types", "Commit.Hash"}, {"types", "Data.Hash"}, {"types", "EvidenceData.Hash"},
		{"types", "ValidatorSet.Hash"}, {"types", "ValidatorSet.UpdateWithChangeSet"}, {"types", "ValidatorSet.IncrementProposerPriority"},
		{"state", "ABCIResponsesResultsHash"}, {"types", "HashConsensusParams"}, {"types", "UpdateConsensusParams"}, {"types", "Block.ValidateBasic"},
		{"state", "validateValidatorUpdates"}, {"types", "ValidatorSet.VerifyCommit"},
	} {
		if f := c.fn(r[0], r[1]); f != nil {
			roots = append(roots, f)
		}
	}
	reach := w.reachableFuncs(roots, nil)
	n := 0
	var names []string
	for f := range reach {
		if !strings.HasPrefix(pkgPathOf(f), modPath) {
			continue
		}
		names = append(names, funcKey(f))
	}
	sort.Strings(names)
	byKey := map[string]*ssa.Function{}
	for f := range reach {
		byKey[funcKey(f)] = f
	}
	// order-insensitive map ranges confirmed by reading (one line of reason each)
	allowRange := map[string]string{}
	for _, name := range names {
		f := byKey[name]
		if strings.HasSuffix(w.Fset.Position(f.Pos()).Filename, ".pb.go") || strings.HasPrefix(relPkg(f), "libs/log") {
			continue
		}
		n++
		for _, b := range f.Blocks {
			for _, in := range b.Instrs {
				switch x := in.(type) {
				case ssa.CallInstruction:
					d, ok := describeCallee(x)
					if !ok {
						continue
					}
					bad := ""
					switch {
					case d.Pkg == "time" && d.Recv == "" && (d.Name == "Now" || d.Name == "Since" || d.Name == "Until"):
						bad = "reads the wall clock"
					case d.Pkg == "types/time" && d.Name == "Now":
						bad = "reads the wall clock"
					case d.Pkg == "math/rand" || d.Pkg == "crypto/rand" || d.Pkg == "libs/rand":
						bad = "uses randomness"
					case d.Pkg == "os" && (d.Name == "Getenv" || d.Name == "Hostname" || d.Name == "Getpid"):
						bad = "reads the process environment"
					}
					if _, isGo := in.(*ssa.Go); isGo {
						bad = "starts a goroutine"
					}
					if bad != "" {
						c.Fail(name+" :: "+bad+" ("+d.Pkg+"."+d.Name+")", w.ipos(in), "the deterministic state transition reaches "+name+", which "+bad)
					}
				case *ssa.Range:
					if _, isMap := x.X.Type().Underlying().(*types.Map); isMap {
						if _, ok := allowRange[name]; !ok {
							c.Fail(name+" :: ranges over a map", w.ipos(in), "map iteration order is random; "+name+" is reachable from the deterministic state transition")
						}
					}
				}
			}
		}
	}
	c.Check(n >= 40, "deterministic core reachable set", "-", fmt.Sprintf("%d in-module functions reachable from %d roots analysed: no clock, randomness, environment, goroutine or map-order dependence", n, len(roots)), fmt.Sprintf("only %d functions reachable: roots moved", n))
}

func ruleSizeBudget(c *Ctx) {
	w := c.W
	if f := c.fn("types", "MaxDataBytes"); f != nil {
		ov, _ := w.constVal("types", "MaxOverheadForBlock")
		hd, _ := w.constVal("types", "MaxHeaderBytes")
		want := fmt.Sprintf("((((maxBytes - %d) - %d) - types.MaxCommitBytes(valsCount)) - evidenceBytes)", ov, hd)
		for _, v := range returnValues(f, 0) {
			c.Check(w.expr(v) == want, "types.MaxDataBytes subtracts block overhead, header, commit and evidence sizes", w.pos(f.Pos()), want, "budget is "+w.expr(v))
		}
	}
	if f := c.fn("state", "BlockExecutor.CreateProposalBlock"); f != nil {
		for _, call := range w.callsTo(f, "types#MaxDataBytes") {
			a := callArgs(call)
			c.Check(w.expr(a[0]) == "state.ConsensusParams.Block.MaxBytes" && strings.HasSuffix(w.expr(a[1]), ".PendingEvidence(state.ConsensusParams.Evidence.MaxBytes)#1"), "state.BlockExecutor.CreateProposalBlock budget inputs", w.ipos(call), "block max bytes and the size of the evidence actually included", w.callStr(call))
			// the commit budgeted for is the one that goes into the block: the *last* commit, which has one
			// signature slot per validator of the previous height (validateBlock requires exactly that)
			vc := w.expr(a[2])
			c.Check(vc == "state.LastValidators.Size()" || vc == "len(commit.Signatures)", "state.BlockExecutor.CreateProposalBlock budgets the commit by the validator set that signed it", w.ipos(call), vc, "commit size is budgeted with "+vc+", but the block carries the last commit (one slot per validator of state.LastValidators): after the set shrinks the block exceeds Block.MaxBytes")
		}
		for _, call := range w.callsTo(f, "mempool#Mempool.ReapMaxBytesMaxGas") {
			a := callArgs(call)
			c.Check(strings.HasPrefix(w.expr(a[0]), "types.MaxDataBytes(") && w.expr(a[1]) == "state.ConsensusParams.Block.MaxGas", "state.BlockExecutor.CreateProposalBlock reaps within the data budget and max gas", w.ipos(call), "ReapMaxBytesMaxGas(MaxDataBytes(…), MaxGas)", w.callStr(call))
		}
		for _, call := range w.callsTo(f, "state#EvidencePool.PendingEvidence") {
			c.Check(w.expr(callArgs(call)[0]) == "state.ConsensusParams.Evidence.MaxBytes", "state.BlockExecutor.CreateProposalBlock takes evidence within the evidence limit", w.ipos(call), "PendingEvidence(Evidence.MaxBytes)", w.callStr(call))
		}
		for _, call := range w.callsTo(f, "state#State.MakeBlock") {
			a := callArgs(call)
			ok := len(a) == 5 && strings.Contains(w.expr(a[1]), "ReapMaxBytesMaxGas(") && w.expr(a[2]) == "commit" && strings.HasSuffix(w.expr(a[3]), "#0") && w.expr(a[4]) == "proposerAddr"
			c.Check(ok, "state.BlockExecutor.CreateProposalBlock builds the block from the reaped txs, the given commit and the pending evidence", w.ipos(call), "MakeBlock(height, txs, commit, evidence, proposer)", w.callStr(call))
		}
	}
}

func init() {
	register("C06", "R1", "K1", "validateBlock compares every header field with the value derived from state; content hashes match the block's own content; evidence admissible", 27, ruleValidateBlock)
	register("C06", "R2", "K5", "the proposer fills the header from exactly the state expressions the validator compares against", 20, ruleMakeBlockAgreement)
	register("C06", "R3", "K1", "block time is the power-weighted median over the signatures that are counted", 5, ruleMedianTime)
	register("C06", "R4", "K7", "no nondeterminism source is reachable from the state transition, hashing and validator-set arithmetic", 1, ruleNoNondeterminism)
	register("C06", "R5", "K4", "results hash keeps only deterministic fields; the next state sets every field from (state, header, responses)", 30, ruleDeterministicResults)
	register("C06", "R6", "K11", "size budget for proposals", 6, ruleSizeBudget)
}

// ------------------------------------------------------------------ C06.R10
// state.Rollback rebuilds the state of height n-1 from the state of height n, the two block metas and the
// stores. Each field has exactly one right source; in particular the results hash and app hash of a state
// are the ones the *next* block's header carries (they are agreed on one block later), so they come from
// the dropped block n, while height, id and time come from block n-1. A state rebuilt from the wrong source
// rejects the very block it has to re-apply (or accepts a different one).
func init() {
	register("C06", "R10", "K5", "rollback rebuilds every field of the previous state from its one right source", 10, func(c *Ctx) {
		w := c.W
		f := c.fn("state", "Rollback")
		if f == nil {
			return
		}
		fk := funcKey(f)
		inv := `ss\.Load\(\)#0`
		prev := `bs\.LoadBlockMeta\(\(` + inv + `\.LastBlockHeight - 1\)\)`
		drop := `bs\.LoadBlockMeta\(` + inv + `\.LastBlockHeight\)`
		table := []struct{ field, re, what string }{
			{"ChainID", inv + `\.ChainID`, "the dropped state (immutable)"},
			{"InitialHeight", inv + `\.InitialHeight`, "the dropped state (immutable)"},
			{"LastBlockHeight", prev + `\.Header\.Height`, "block n-1"},
			{"LastBlockID", prev + `\.BlockID`, "block n-1"},
			{"LastBlockTime", prev + `\.Header\.Time`, "block n-1"},
			{"NextValidators", inv + `\.Validators`, "the dropped state's Validators"},
			{"Validators", inv + `\.LastValidators`, "the dropped state's LastValidators"},
			{"LastValidators", `ss\.LoadValidators\(\(` + inv + `\.LastBlockHeight - 1\)\)#0`, "the stored set of height n-1"},
			{"ConsensusParams", `ss\.LoadConsensusParams\(\(\(` + inv + `\.LastBlockHeight - 1\) \+ 1\)\)#0|ss\.LoadConsensusParams\(` + inv + `\.LastBlockHeight\)#0`, "the stored params of height n"},
			{"LastResultsHash", drop + `\.Header\.LastResultsHash`, "the header of the dropped block n (results of n-1 are agreed on in block n)"},
			{"AppHash", drop + `\.Header\.AppHash`, "the header of the dropped block n"},
		}
		got := map[string]string{}
		for _, di := range w.deepInstrs(f, 1) {
			st, ok := di.in.(*ssa.Store)
			if !ok {
				continue
			}
			fa, ok := st.Addr.(*ssa.FieldAddr)
			if !ok {
				continue
			}
			if n := derefNamed(fa.X.Type()); n != nil && n.Obj().Name() == "State" && relPath(n.Obj().Pkg()) == "state" {
				got[fieldName(fa.X.Type(), fa.Field)] = w.exprWith(st.Val, di.sub)
			}
		}
		for _, t := range table {
			v, ok := got[t.field]
			c.Check(ok && regexp.MustCompile("^(?:"+t.re+")$").MatchString(v), fk+" :: "+t.field+" comes from "+t.what, w.pos(f.Pos()), t.what, "State."+t.field+" of the rebuilt state is "+v)
		}
	})
}

// ------------------------------------------------------------------ C06.R12
// The evidence a proposer puts into a block is what the pool hands out under the byte limit of the
// consensus parameters; validateBlock rejects a block whose evidence exceeds that limit. The pool must
// therefore add an item to its answer only if the encoded list *including that item* fits (or no limit
// was given): comparing the size before the item lets one item too many through.
func init() {
	register("C06", "R12", "K10", "pending evidence is handed out only while the encoded list including the next item fits the byte limit", 2, func(c *Ctx) {
		w := c.W
		f := c.fn("evidence", "Pool.listEvidence")
		if f == nil {
			return
		}
		fk := funcKey(f)
		n := 0
		for _, call := range w.callsTo(f, "builtin#append") {
			// the answer slice (of types.Evidence), not the proto list used for sizing
			if !strings.HasSuffix(call.Common().Args[0].Type().String(), "types.Evidence") {
				continue
			}
			if _, isAlloc := stripConv(call.Common().Args[0]).(*ssa.UnOp); isAlloc {
				continue // evList.Evidence (a field load)
			}
			n++
			c.guards(f, call, fk+" :: add an item to the answer", 0,
				guardAny("no limit, or the list including this item fits",
					guardCmp("no limit", "maxBytes", "==", "-1"),
					guardCmp("fits", `&?\w+\.Size\(\)`, "<=", "maxBytes")))
			// the size compared is taken after the item was added to the sizing list
			for _, sz := range w.callsMatching(f, `^&?\w+\.Size\(\)$`) {
				ok, _ := mustPrecede(f, call, func(in ssa.Instruction) bool { return in == ssa.Instruction(sz) })
				c.Check(ok, fk+" :: the size is computed before the item is added to the answer", w.ipos(call), "Size() precedes", "an item can be added without the list size having been computed")
				okA, _ := mustPrecede(f, sz, func(in ssa.Instruction) bool {
					st, isSt := in.(*ssa.Store)
					return isSt && strings.HasSuffix(w.expr(st.Addr), ".Evidence") && strings.HasPrefix(w.expr(st.Val), "append(")
				})
				c.Check(okA, fk+" :: the size includes the item under consideration", w.ipos(sz), "sizing list extended first", "the size is taken before the item is appended to the sizing list")
			}
		}
		c.Check(n == 1, fk+" :: answer append found", w.pos(f.Pos()), "1", fmt.Sprintf("%d", n))
	})
}

// ------------------------------------------------------------------ C06.R13 (round-4 seed, C20)
// LastResultsHash commits to the deterministic part of every DeliverTx result: code, data, gas wanted, gas
// used. The projection that feeds the hash copies each of these fields from the field of the same name —
// a slip (GasUsed taken from GasWanted) removes a field from the commitment on every node alike, so all
// tests agree while a lying RPC server can falsify that field in /block_results undetected.
func init() {
	register("C06", "R13", "K5", "the deterministic projection of a DeliverTx result copies code, data, gas wanted and gas used, each from the field of the same name", 4, func(c *Ctx) {
		w := c.W
		f := c.fn("types", "deterministicResponseDeliverTx")
		if f == nil {
			return
		}
		fk := funcKey(f)
		p := paramName(f, 0)
		for _, field := range []string{"Code", "Data", "GasWanted", "GasUsed"} {
			n := 0
			for _, fs := range w.fieldStoresIn(f, "abci/types", "ResponseDeliverTx", field) {
				n++
				got := w.expr(fs.Store.Val)
				c.Check(got == p+"."+field, fk+" :: "+field, w.ipos(fs.Store), p+"."+field, field+" of the committed projection is "+got+": the results hash no longer covers "+field)
			}
			c.Check(n == 1, fk+" :: copies "+field, w.pos(f.Pos()), "1 store", fmt.Sprintf("%d", n))
		}
	})
}
