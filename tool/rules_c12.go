package main

import (
	"fmt"
	"regexp"
	"strings"

	"golang.org/x/tools/go/ssa"
)

type mempoolSibling struct {
	pkg, typ     string
	listField    string // pool list
	keyMiss      string // regexp: atom for "key not in the pool index"
	capacityCall string // regexp of the capacity predicate call
}

var mempoolSiblings = []mempoolSibling{
	{"mempool/v0", "CListMempool", "txs", `^false\(\w+\.txsMap\.Load\(.*\.Key\(\)\)#1\)$`, `\w+\.isFull\(len\(\w+\)\)`},
	{"mempool/v1", "TxMempool", "txs", `^false\(\w+\.txByKey\[.*\.Key\(\)\]#1\)$`, `\w+\.canAddTx\(\w+\)`},
}

// poolListCalls finds calls of a clist method on the mempool's pool list.
func poolListCalls(w *World, s mempoolSibling, method string) []Site {
	var out []Site
	for _, f := range w.methodsOf(s.pkg, s.typ) {
		for _, call := range w.callsTo(f, "libs/clist#CList."+method) {
			if strings.HasSuffix(w.expr(callRecv(call)), "."+s.listField) {
				out = append(out, Site{f, call})
			}
		}
	}
	return out
}

func init() {
	// ------------------------------------------------------------------ C12.R1 / R4
	register("C12", "R1", "K1+K5", "insertion discipline (both mempool versions): a tx is pushed onto the pool only if its key is not in the pool index and there is room (or enough lower-priority victims were evicted)", 6, func(c *Ctx) {
		w := c.W
		k := newKeyer()
		for _, s := range mempoolSiblings {
			pushes := poolListCalls(w, s, "PushBack")
			if len(pushes) == 0 {
				c.Undecided(s.pkg+" insertion site", "-", "no PushBack on the pool list found in "+s.pkg)
				continue
			}
			for _, p := range pushes {
				key := k.key(p.Fn, "push onto pool list")
				c.guards(p.Fn, p.Instr, key, 2, guardRe("key not already in the pool index", s.keyMiss))
				room := guardRe("room", `^nil\(`+s.capacityCall+`\)$`)
				if s.pkg == "mempool/v0" {
					c.guards(p.Fn, p.Instr, key, 2, Guard{Name: "pool not full (count and bytes)", Match: room.Match})
				} else {
					c.guards(p.Fn, p.Instr, key, 2,
						guardAny("pool has room, or there are eviction victims", room, guardCmp("v", `len\(phi\(.*victims.*\)\)|len\(.*victims.*\)`, "!=", "0")),
						guardAny("pool has room, or the victims free at least the new tx's size", room, guardCmp("b", `.*victimBytes.*|phi\(.*\)`, ">=", `\w+\.Size\(\)`)))
				}
				// only a tx the application accepted is inserted
				c.guards(p.Fn, p.Instr, key, 2, guardCmp("application returned CodeTypeOK", `.*\.Code`, "==", "0"))
			}
		}
		// v1 eviction accounting: the byte totals that decide "the victims free enough room" and "enough was
		// evicted" are sums of the sizes of the pool elements being considered, not of the incoming tx
		if f := c.fn("mempool/v1", "TxMempool.addNewTransaction"); f != nil {
			fk := funcKey(f)
			n := 0
			for _, a := range accumulators(f) {
				y := w.expr(a.y)
				if !strings.HasSuffix(y, ".Size()") {
					continue
				}
				n++
				c.Check(regexp.MustCompile(`\.Value\.\(\*mempool/v1\.WrappedTx\)\.Size\(\)$`).MatchString(y) && !strings.HasPrefix(y, "wtx."), fk+" :: eviction byte total sums the victims' own sizes", w.ipos(a.add), y, "a byte total used for the eviction decision adds "+y+" per victim (not the victim's size): the bound on pool bytes no longer holds after an eviction")
			}
			c.Check(n >= 2, fk+" :: eviction byte totals found", w.pos(f.Pos()), fmt.Sprintf("%d", n), fmt.Sprintf("%d byte accumulators", n))
		}
		// capacity predicates themselves
		for _, spec := range [][2]string{{"mempool/v0", "CListMempool.isFull"}, {"mempool/v1", "TxMempool.canAddTx"}} {
			f := c.fn(spec[0], spec[1])
			if f == nil {
				continue
			}
			for _, g := range []Guard{
				guardCmp("count below the configured size", `\w+\.Size\(\)`, "<", `\w+\.config\.Size`),
				guardCmp("bytes plus the new tx within MaxTxsBytes", `\(.* \+ \w+\.SizeBytes\(\)\)|\(\w+\.SizeBytes\(\) \+ .*\)`, "<=", `\w+\.config\.MaxTxsBytes`),
			} {
				c.Check(c.ge().ensures(f, g, 2), spec[0]+"."+spec[1]+" ensures "+g.Name, w.pos(f.Pos()), "nil only behind this comparison", "capacity predicate returns nil without: "+g.Name)
			}
		}
	})

	// ------------------------------------------------------------------ C12.R2
	register("C12", "R2", "K10", "reaping respects the count, byte and gas limits and returns a prefix in pool order", 10, func(c *Ctx) {
		w := c.W
		for _, s := range mempoolSiblings {
			if f := c.fn(s.pkg, s.typ+".ReapMaxTxs"); f != nil {
				n := 0
				for _, call := range callInstrs(f) {
					if d, ok := describeCallee(call); ok && d.Pkg == "builtin" && d.Name == "append" {
						n++
						key := funcKey(f) + " :: append to result"
						dst := q(w.expr(call.Common().Args[0]))
						c.guards(f, call, key, 0, guardAny("result still shorter than max (strict)", guardCmp("lt", `len\(`+dst+`\)`, "<", `.*max.*`), guardCmp("unbounded", "max", "<", "0")))
					}
				}
				c.Check(n == 1, funcKey(f)+" :: single append", w.pos(f.Pos()), "one append", fmt.Sprintf("%d appends", n))
			}
			if f := c.fn(s.pkg, s.typ+".ReapMaxBytesMaxGas"); f != nil {
				bytesG := guardAny("running byte size incl. this tx within maxBytes (or unlimited)", guardCmp("b", `\(.* \+ types\.ComputeProtoSizeForTxs\(.*\)\)`, "<=", "maxBytes"), guardCmp("u", "maxBytes", "<=", "-1"), guardCmp("u2", "maxBytes", "<", "0"))
				gasG := guardAny("running gas incl. this tx within maxGas (or unlimited)", guardCmp("g", `\(.* \+ .*\.gasWanted\)`, "<=", "maxGas"), guardCmp("u", "maxGas", "<=", "-1"), guardCmp("u2", "maxGas", "<", "0"))
				n := 0
				for _, call := range callInstrs(f) {
					if d, ok := describeCallee(call); ok && d.Pkg == "builtin" && d.Name == "append" {
						n++
						key := funcKey(f) + " :: keep tx in result"
						okB, _ := c.ge().guardedLocal(f, call, bytesG, 2)
						okG, _ := c.ge().guardedLocal(f, call, gasG, 2)
						if okB && okG {
							c.OK(key+" <= "+bytesG.Name, w.ipos(call), "append is behind the limit check")
							c.OK(key+" <= "+gasG.Name, w.ipos(call), "append is behind the limit check")
							continue
						}
						// append-then-trim idiom: the tx is appended first; an over-limit exit returns result[:len-1],
						// and the loop only advances (keeping the tx) behind both limit checks
						trimOK := true
						exits := 0
						for _, b := range f.Blocks {
							ret, isRet := b.Instrs[len(b.Instrs)-1].(*ssa.Return)
							if !isRet || !call.Block().Dominates(b) || b.Comment == "recover" {
								continue
							}
							exits++
							for _, v := range returnValues(f, 0) {
								_ = v
							}
							rv := ret.Results[0]
							if u, ok := rv.(*ssa.UnOp); ok {
								if al, ok := u.X.(*ssa.Alloc); ok {
									for _, r := range *al.Referrers() {
										if st, ok := r.(*ssa.Store); ok && st.Block() == b {
											rv = st.Val
										}
									}
								}
							}
							if !regexp.MustCompile(`\[:\(len\(.*\) - 1\)\]$`).MatchString(w.expr(rv)) {
								trimOK = false
							}
						}
						c.Check(trimOK && exits >= 1, key+" :: over-limit exits drop the tx just appended", w.ipos(call), fmt.Sprintf("%d exits return result[:len-1]", exits), "an exit after the speculative append returns the result without trimming the over-limit tx")
						for _, nx := range w.callsTo(f, "libs/clist#CElement.Next") {
							c.guards(f, nx, key+" (advance to next tx)", 0, bytesG, gasG)
						}
					}
				}
				c.Check(n == 1, funcKey(f)+" :: single append", w.pos(f.Pos()), "one append", fmt.Sprintf("%d appends", n))
			}
		}
		// v0 iterates front → next
		if f := c.fn("mempool/v0", "CListMempool.ReapMaxTxs"); f != nil {
			c.Check(len(w.callsTo(f, "libs/clist#CList.Front")) == 1 && len(w.callsTo(f, "libs/clist#CElement.Next")) == 1, funcKey(f)+" :: iterates from the front in list order", w.pos(f.Pos()), "Front()/Next()", "not a Front()/Next() iteration")
		}
	})

	// ------------------------------------------------------------------ C12.R3
	register("C12", "R3", "K2", "list, key index and byte counter move together on every insert and removal", 8, func(c *Ctx) {
		w := c.W
		for _, s := range mempoolSiblings {
			for _, kind := range []string{"PushBack", "Remove"} {
				for _, site := range poolListCalls(w, s, kind) {
					f := site.Fn
					key := funcKey(f) + " :: " + kind
					// key index update in the same function
					idx := false
					for _, b := range f.Blocks {
						for _, in := range b.Instrs {
							switch x := in.(type) {
							case *ssa.MapUpdate:
								if strings.HasSuffix(w.expr(x.Map), ".txByKey") && kind == "PushBack" {
									idx = true
								}
							case ssa.CallInstruction:
								cs := w.callStr(x)
								if kind == "PushBack" && regexp.MustCompile(`\.txsMap\.Store\(`).MatchString(cs) {
									idx = true
								}
								if kind == "Remove" && (regexp.MustCompile(`\.txsMap\.Delete\(`).MatchString(cs) || regexp.MustCompile(`^delete\(\w+\.txByKey, `).MatchString(cs)) {
									idx = true
								}
							}
						}
					}
					// (a helper carved out of the function that empties the pool is judged with that function)
					root := f
					for i := 0; i < 4; i++ {
						site := transparentSite(root)
						if site == nil {
							break
						}
						root = site.Parent()
					}
					wholesale := len(w.callsMatching(root, `\.txsMap\.Range\(`)) > 0 && len(w.callsMatching(root, `^sync/atomic\.(SwapInt64|StoreInt64)\(.*\.txsBytes, 0\)$`)) > 0
					if wholesale {
						c.OK(key+" (wholesale reset of list, index and counter)", w.ipos(site.Instr), "function clears the index with Range/Delete and resets the byte counter to 0")
						continue
					}
					c.Check(idx, key+" updates the key index", w.ipos(site.Instr), "index updated with the list", "the pool list changes without the key index being updated in the same step")
					bytesOK := false
					for _, call := range w.callsTo(f, "sync/atomic#AddInt64") {
						a := w.expr(call.Common().Args[0])
						d := w.expr(call.Common().Args[1])
						if strings.HasSuffix(a, ".txsBytes") {
							if kind == "PushBack" && !strings.HasPrefix(d, "-") || kind == "Remove" && strings.HasPrefix(d, "-") {
								bytesOK = true
							}
						}
					}
					c.Check(bytesOK, key+" updates the byte counter", w.ipos(site.Instr), "txsBytes adjusted with the list", "the pool list changes without the byte counter moving the same way")
				}
			}
		}
	})

	// ------------------------------------------------------------------ C12.R5
	register("C12", "R5", "K1", "cache discipline: CheckTx asks the cache before the app; committed txs are remembered and removed from the pool; the LRU only evicts on a miss", 9, func(c *Ctx) {
		w := c.W
		k := newKeyer()
		for _, s := range w.allCallsTo("proxy#AppConnMempool.CheckTxAsync", "proxy#AppConnMempool.CheckTxSync") {
			if !strings.HasPrefix(relPkg(s.Fn), "mempool/") || outermost(s.Fn).Name() != "CheckTx" {
				continue
			}
			c.guards(s.Fn, s.Instr, k.key(outermost(s.Fn), "send first-time CheckTx to the app"), 1, guardRe("cache did not already hold the tx", `^true\(\w+\.cache\.Push\(tx\)\)$`))
		}
		for _, ms := range mempoolSiblings {
			f := c.fn(ms.pkg, ms.typ+".Update")
			if f == nil {
				continue
			}
			fk := funcKey(f)
			pushes := w.callsMatching(f, `\.cache\.Push\(`)
			c.Check(len(pushes) == 1, fk+" :: committed txs are pushed into the cache", w.pos(f.Pos()), "cache.Push in the update loop", fmt.Sprintf("%d cache.Push calls", len(pushes)))
			for _, p := range pushes {
				c.guards(f, p, fk+" :: cache.Push(committed tx)", 0, guardCmp("DeliverTx code OK", `.*\[`+fwdIdx+`\]\.Code`, "==", "0"))
				c.Check(regexp.MustCompile(`\.cache\.Push\((txs|blockTxs)\[`+fwdIdx+`\]\)$`).MatchString(w.callStr(p)), fk+" :: cache.Push argument is the committed tx", w.ipos(p), w.callStr(p), "argument is "+w.callStr(p))
			}
			// every committed tx is removed from the pool by key
			rm := 0
			for _, call := range callInstrs(f) {
				cs := w.callStr(call)
				if regexp.MustCompile(`\.(removeTx|removeTxByKey)\(`).MatchString(cs) && regexp.MustCompile(`\[`+fwdIdx+`\]`).MatchString(cs) {
					rm++
					// not conditional on the DeliverTx code
					for _, a := range w.atomsAt(call) {
						if strings.Contains(a, ".Code ") {
							c.Fail(fk+" :: committed tx removed regardless of result code", w.ipos(call), "removal is conditional on "+a)
						}
					}
				}
			}
			c.Check(rm >= 1, fk+" :: committed txs are removed from the pool", w.pos(f.Pos()), "removal by key in the update loop", "no removal of committed txs in Update")
		}
		// LRU cache: eviction only after a miss; hit returns false
		if f := c.fn("mempool", "LRUTxCache.Push"); f != nil {
			miss := guardRe("key not cached", `^false\(\w+\.cacheMap\[\w+\.Key\(\)\]#1\)$`)
			for _, call := range callInstrs(f) {
				cs := w.callStr(call)
				if strings.HasPrefix(cs, "delete(") || regexp.MustCompile(`\.list\.Remove\(`).MatchString(cs) {
					c.guards(f, call, k.key(f, "evict oldest"), 0, miss, guardCmp("cache full", `\w+\.list\.Len\(\)`, ">=", `\w+\.size`))
				}
				if regexp.MustCompile(`\.list\.PushBack\(`).MatchString(cs) {
					c.guards(f, call, k.key(f, "remember key"), 0, miss)
				}
			}
			// true only on a miss
			for _, b := range f.Blocks {
				for _, in := range b.Instrs {
					if st, ok := in.(*ssa.Store); ok {
						if v, ok := boolConst(st.Val); ok && v {
							c.guards(f, st, k.key(f, "report new"), 0, miss)
						}
					}
				}
			}
		}
	})
}

// sharedLoopCaptures finds closures created inside a loop that capture (by reference) a variable which
// lives outside the loop but is re-assigned on every iteration (the pre-Go-1.22 loop variable), and
// which escape the iteration (passed to a call or started with go) — every asynchronous task then sees
// whatever the variable holds when it runs, not the value of its own iteration.
func sharedLoopCaptures(w *World, f *ssa.Function) []ssa.Instruction {
	var out []ssa.Instruction
	for _, h := range f.Blocks {
		// loop headers: blocks with a back edge
		isHeader := false
		for _, p := range h.Preds {
			if h.Dominates(p) {
				isHeader = true
			}
		}
		if !isHeader {
			continue
		}
		body := loopBlocks(h)
		for b := range body {
			for _, in := range b.Instrs {
				mc, ok := in.(*ssa.MakeClosure)
				if !ok {
					continue
				}
				for _, bind := range mc.Bindings {
					al, ok := bind.(*ssa.Alloc)
					if !ok || body[al.Block()] {
						continue
					}
					// re-assigned inside the loop?
					stored := false
					for _, r := range *al.Referrers() {
						if st, ok := r.(*ssa.Store); ok && st.Addr == al && body[st.Block()] {
							stored = true
						}
					}
					if !stored {
						continue
					}
					// does the closure escape (argument of a call / go) rather than being called in place?
					for _, r := range *mc.Referrers() {
						switch x := r.(type) {
						case *ssa.Go:
							out = append(out, in)
						case *ssa.Call:
							if x.Common().Value != ssa.Value(mc) {
								out = append(out, in)
							}
						}
					}
				}
			}
		}
	}
	return out
}

func init() {
	register("C12", "R8", "K3", "recheck/async tasks started in a loop each work on their own transaction (no closure shares the loop variable)", 1, func(c *Ctx) {
		w := c.W
		n := 0
		for _, f := range w.Funcs {
			if !strings.HasPrefix(relPkg(f), "mempool") {
				continue
			}
			hits := sharedLoopCaptures(w, f)
			for _, h := range hits {
				n++
				c.Fail(funcKey(f)+" :: closure escaping a loop iteration captures the shared loop variable", w.ipos(h), "a closure handed to another goroutine/task captures a variable that the loop overwrites on the next iteration (module language version < 1.22): tasks may all observe the same, later element")
			}
		}
		// the recheck loop exists and creates one task per tx
		if f := c.fn("mempool/v1", "TxMempool.recheckTransactions"); f != nil {
			tasks := 0
			for _, a := range f.AnonFuncs {
				for _, aa := range append([]*ssa.Function{a}, a.AnonFuncs...) {
					if len(w.callsTo(aa, "proxy#AppConnMempool.CheckTxSync")) > 0 {
						tasks++
					}
				}
			}
			c.Check(tasks == 1, funcKey(f)+" :: one recheck task closure per transaction", w.pos(f.Pos()), "recheck closure found; it captures a per-iteration copy", fmt.Sprintf("%d recheck task closures found", tasks))
		}
		_ = n
	})
}

// ------------------------------------------------------------------ C12.R9
// After every committed block the remaining pool content is rechecked (when rechecking is configured and
// the pool is not empty): the application's verdict can change with any block, also an empty one. Decided
// like the liveness transitions of C03: the recheck call's necessary branch conditions must come from the
// table; an extra condition means a block after which stale transactions stay in the pool.
func init() {
	register("C12", "R9", "K11", "Update rechecks the remaining transactions after every block whenever rechecking is on and the pool is non-empty (both mempool versions)", 2, func(c *Ctx) {
		w := c.W
		type site struct{ pkg, fn, callee string }
		for _, s := range []site{
			{"mempool/v0", "CListMempool.Update", "mempool/v0#CListMempool.recheckTxs"},
			{"mempool/v1", "TxMempool.Update", "mempool/v1#TxMempool.recheckTransactions"},
		} {
			f := c.fn(s.pkg, s.fn)
			if f == nil {
				continue
			}
			fk := funcKey(f)
			calls := w.deepCallsTo(f, 1, s.callee)
			var sites []ssa.Instruction
			for _, dc := range calls {
				sites = append(sites, dc.site)
			}
			if len(sites) == 0 {
				// the recheck written out in Update itself: it starts where the recheck cursor is set to the
				// front of the pool
				for _, fs := range w.fieldStoresInRaw(f, s.pkg, strings.Split(s.fn, ".")[0], "recheckCursor") {
					if strings.HasSuffix(w.expr(fs.Store.Val), ".txs.Front()") {
						sites = append(sites, fs.Store)
					}
				}
			}
			c.Check(len(sites) == 1, fk+" :: recheck after the block", w.pos(f.Pos()), "1 call", fmt.Sprintf("%d recheck calls", len(sites)))
			for _, site := range sites {
				for _, a := range w.necessaryAtoms(f, site) {
					// rechecking configured; pool not empty; the loop over the block's txs ran to its end; (v1) the
					// argument-shape assertion that panics otherwise
					ok := regexp.MustCompile(`^true\(\w+\.config\.Recheck\)$|^0 (<|!=) \w+\.Size\(\)$|^\w+\.Size\(\) (>|!=) 0$|^0 (<|!=) \w+\.txs\.Len\(\)$|^` + fwdIdx + ` >= len\((txs|blockTxs)\)$|^len\((txs|blockTxs)\) <= ` + fwdIdx + `$|^len\(blockTxs\) == len\(deliverTxResponses\)$`).MatchString(a)
					c.Check(ok, fk+" :: recheck happens after every block", w.ipos(site), a, "the recheck additionally requires ["+a+"]: after a block for which that does not hold, transactions the application no longer accepts stay in the pool")
				}
			}
		}
	})
}

// ------------------------------------------------------------------ C12.R10
// The v0 pool is walked by following Next() of an element that may have been removed in the meantime: the
// recheck cursor steps to cursor.Next() right after removeTx(cursor), and the gossip routine holds an
// element across removals. A removed element must therefore keep its forward pointer (only the backward
// pointer is detached, for the garbage collector). If removal clears it, the recheck stops at the first
// rejected transaction and every later rejected transaction stays in the pool.
func init() {
	register("C12", "R10", "K2+K3", "v0: an element removed from the pool keeps its forward pointer (the recheck cursor and the gossip routine step over removed elements with Next)", 4, func(c *Ctx) {
		w := c.W
		// (a) the reliance: in resCbRecheck the cursor is advanced with Next() after it may have been removed
		if f := c.fn("mempool/v0", "CListMempool.resCbRecheck"); f != nil {
			fk := funcKey(f)
			rm := w.callsTo(f, "mempool/v0#CListMempool.removeTx")
			n := 0
			for _, r := range rm {
				if w.expr(callArgs(r)[1]) != "mem.recheckCursor" {
					continue
				}
				isAdvance := func(call ssa.CallInstruction) bool {
					return w.isCall(call, "libs/clist#CElement.Next") && strings.HasSuffix(w.expr(callRecv(call)), ".recheckCursor")
				}
				q := &pathQ{target: func(in ssa.Instruction) bool {
					call, ok := in.(ssa.CallInstruction)
					if !ok {
						return false
					}
					if isAdvance(call) {
						return true
					}
					// the advance moved into a helper of the mempool introduced later
					if h := staticCallee(call); h != nil && isNewFunc(h) {
						for _, hc := range callInstrs(h) {
							if isAdvance(hc) {
								return true
							}
						}
					}
					return false
				}}
				idx := 0
				for i, in := range r.Block().Instrs {
					if in == ssa.Instruction(r) {
						idx = i + 1
					}
				}
				if hit, _ := q.reach(r.Block(), idx); hit != nil {
					n++
				}
			}
			c.Check(n >= 1, fk+" :: the cursor is advanced with Next() after its element may have been removed", w.pos(f.Pos()), "removeTx(cursor) … cursor.Next()", "pattern not found (the rule's premise changed: re-confirm by reading)")
		}
		// (b) nothing in the v0 mempool clears or redirects an element's forward pointer
		k := newKeyer()
		control := 0
		for _, f := range w.FuncsInPkg("mempool/v0") {
			for _, call := range callInstrs(f) {
				switch {
				case w.isCall(call, "libs/clist#CElement.DetachPrev"):
					control++
				case w.isCall(call, "libs/clist#CElement.DetachNext"), w.isCall(call, "libs/clist#CElement.SetNext"):
					c.Fail(k.key(f, "forward pointer of a pool element changed"), w.ipos(call), w.callStr(call)+": walkers standing on this element lose the rest of the pool")
				}
			}
		}
		c.Check(control >= 2, "mempool/v0 :: element detach calls seen (matcher control)", "-", ">= 2 DetachPrev", fmt.Sprintf("%d", control))
		// (c) CList.Remove unlinks the element from its neighbours and marks it, without touching its own next
		if f := c.fn("libs/clist", "CList.Remove"); f != nil {
			fk := funcKey(f)
			e := paramName(f, 1)
			relinked := 0
			for _, call := range callInstrs(f) {
				if w.isCall(call, "libs/clist#CElement.SetNext") || w.isCall(call, "libs/clist#CElement.DetachNext") {
					if w.expr(callRecv(call)) == e {
						c.Fail(fk+" :: the removed element keeps its forward pointer", w.ipos(call), w.callStr(call))
					} else {
						relinked++
					}
				}
			}
			c.Check(relinked >= 1, fk+" :: predecessor is relinked past the removed element", w.pos(f.Pos()), "prev.SetNext(next)", "no SetNext on the predecessor")
			c.Check(w.alwaysCalls(f, 0, "libs/clist#CElement.SetRemoved") || len(w.callsTo(f, "libs/clist#CElement.SetRemoved")) >= 1, fk+" :: the element is marked removed", w.pos(f.Pos()), "e.SetRemoved()", "not marked")
		}
		if f := c.fn("libs/clist", "CElement.SetRemoved"); f != nil {
			c.Check(len(w.fieldStoresInRaw(f, "libs/clist", "CElement", "next")) == 0, funcKey(f)+" :: marking an element removed leaves its forward pointer", w.pos(f.Pos()), "no store to next", "next is overwritten when the element is marked removed")
		}
	})
}

// ------------------------------------------------------------------ C12.R11
// "After a block update with recheck only transactions the application still accepts remain": a transaction
// rejected on recheck leaves the *pool* unconditionally; the keep-invalid-txs-in-cache option decides only
// whether it also leaves the cache. Sibling rule over v0 (resCbRecheck) and v1 (handleRecheckResult).
func init() {
	register("C12", "R11", "K5+K11", "a transaction rejected on recheck is removed from the pool whatever the cache option says (v0 and v1)", 2, func(c *Ctx) {
		w := c.W
		for _, spec := range []struct{ pkg, fn, remove string }{
			{"mempool/v0", "CListMempool.resCbRecheck", "mempool/v0#CListMempool.removeTx"},
			{"mempool/v1", "TxMempool.handleRecheckResult", "mempool/v1#TxMempool.removeTxByElement"},
		} {
			f := c.fn(spec.pkg, spec.fn)
			if f == nil {
				continue
			}
			fk := funcKey(f)
			sites := w.deepCallsTo(f, 2, spec.remove)
			c.Check(len(sites) >= 1, fk+" :: rejected transaction is removed from the pool", w.pos(f.Pos()), "removal call present", "no removal of the rejected transaction")
			for _, dc := range sites {
				for _, a := range w.necessaryAtoms(dc.site.Parent(), dc.site) {
					if strings.Contains(a, "KeepInvalidTxsInCache") {
						c.Fail(fk+" :: removal from the pool does not depend on the cache option", w.ipos(dc.site), "the rejected transaction is removed from the pool only when "+a+": with the other setting it stays in the pool after recheck")
					}
				}
				c.OK(fk+" :: removal site", w.ipos(dc.site), "unconditional w.r.t. the cache option")
			}
		}
	})
}

// ------------------------------------------------------------------ C12.R12
// F29: in v0 the decision "not in the pool yet, and there is room" and the insertion are taken in the
// first-time CheckTx callback. With an in-process ABCI client that callback runs in the caller's goroutine,
// and concurrent callers share only the *read* side of the update lock: the step must run under an exclusive
// lock of its own, or two callers both decide "absent / room" and both insert.
func init() {
	register("C12", "R12", "K6", "v0: the pool insertion and the checks deciding it run under an exclusive lock (callers of CheckTx only share a read lock)", 3, func(c *Ctx) {
		w := c.W
		k := newKeyer()
		n := 0
		for _, s := range w.allCallsTo("mempool/v0#CListMempool.addTx") {
			if strings.HasSuffix(w.Fset.Position(s.Instr.Pos()).Filename, "_test.go") {
				continue
			}
			n++
			f := s.Fn
			excl := func(at ssa.Instruction) (bool, []string) {
				held := w.computeLocks(at.Parent()).heldAt(at)
				for _, h := range held {
					if !strings.HasSuffix(h, "updateMtx") && !strings.HasSuffix(h, "!") {
						return true, held
					}
				}
				return false, held
			}
			ok, held := excl(s.Instr)
			c.Check(ok, k.key(f, "insert into the pool"), w.ipos(s.Instr), "an exclusive mutex is held", "the insertion runs with only ["+strings.Join(held, ",")+"] held: concurrent CheckTx callbacks can insert the same transaction twice or overshoot the size limit")
			// the two deciding checks are inside the same critical section
			for _, dc := range w.deepCallsMatching(f, 1, `^mem\.txsMap\.Load\(|^mem\.isFull\(`) {
				if !dc.site.Block().Dominates(s.Instr.Block()) && dc.site.Block() != s.Instr.Block() {
					continue
				}
				okc, heldc := excl(dc.site)
				c.Check(okc, k.key(f, "check deciding the insertion"), w.ipos(dc.site), "under the same exclusive mutex", w.callStr(dc.call)+" is evaluated with only ["+strings.Join(heldc, ",")+"] held, before the insertion's critical section")
			}
		}
		c.Check(n >= 1, "mempool/v0 :: insertion sites found", "-", ">= 1", fmt.Sprintf("%d", n))
	})
}
