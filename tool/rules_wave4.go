package main

// Rules written with the repairs of the fourth hunting wave (F75–F80).

import (
	"fmt"
	"go/token"
	"regexp"
	"strings"

	"golang.org/x/tools/go/ssa"
)

// fullCommitGuard: "the commit of light block LB verified in full against LB's own validator set" —
// LB.ValidatorSet.VerifyCommit(chain id, LB.Commit.BlockID, LB.Height, LB.Commit) answered nil.
func fullCommitGuard(lbRe string) Guard {
	L := `(?:` + lbRe + `)`
	return guardRe("every slot of the light block's commit verified against its validator set",
		`^nil\(`+L+`\.ValidatorSet\.VerifyCommit\(\w+\.lc\.ChainID\(\), `+L+`\.SignedHeader\.Commit\.BlockID, `+L+`\.SignedHeader\.Header\.Height, `+L+`\.SignedHeader\.Commit\)\)$`)
}

func init() {
	// ------------------------------------------------------------------ C14.R13
	// F80: Bootstrap ends with a synced write of the state; the seen commit went afterwards, unsynced, into
	// another database. A state without that commit cannot be started from, and state sync is skipped once a
	// state exists. Commit first (synced), state last.
	register("C14", "R13", "K2", "after state sync the seen commit is durable before the state is (commit stored first and synced, state bootstrapped behind its success)", 3, func(c *Ctx) {
		w := c.W
		n := 0
		for _, f := range w.FuncsInPkg("node") {
			for _, call := range w.callsTo(f, "state#Store.Bootstrap") {
				n++
				fk := funcKey(f)
				c.guards(f, call, fk+" :: bootstrap the synced state", 0, guardRe("the seen commit was stored", `^nil\(\w+\.SaveSeenCommit\(.*\)\)$`))
			}
		}
		c.Check(n >= 1, "node state-sync bootstrap site", "node/node.go", ">= 1", fmt.Sprintf("%d", n))
		if f := c.fn("store", "BlockStore.SaveSeenCommit"); f != nil {
			fk := funcKey(f)
			sync := w.callsMatching(f, `\.db\.SetSync\(`)
			plain := w.callsMatching(f, `\.db\.Set\(`)
			c.Check(len(sync) == 1 && len(plain) == 0, fk+" :: the seen commit is written synced", w.pos(f.Pos()), "db.SetSync", fmt.Sprintf("%d synced, %d unsynced writes: the state written after it can outlive it", len(sync), len(plain)))
		}
	})

	// ------------------------------------------------------------------ C14.R14
	// F79: the light client verifies a header; of its commit it checks +2/3 (forwards) or nothing (backwards).
	// The node stores that commit as seen commit and takes LastBlockID from it.
	register("C14", "R14", "K1", "the state provider hands out a commit / a last block id only from a light block whose commit it verified in full", 4, func(c *Ctx) {
		w := c.W
		if f := c.fn("statesync", "lightClientStateProvider.Commit"); f != nil {
			fk := funcKey(f)
			n := 0
			for _, r := range returnsOf(f) {
				ret := r.(*ssa.Return)
				if len(ret.Results) != 2 || isNilConst(ret.Results[0]) {
					continue
				}
				s := w.expr(ret.Results[0])
				if !strings.HasSuffix(s, ".SignedHeader.Commit") {
					continue
				}
				n++
				lb := strings.TrimSuffix(s, ".SignedHeader.Commit")
				c.guards(f, ret, fk+" :: hand out the commit", 0, fullCommitGuard(regexp.QuoteMeta(lb)))
			}
			c.Check(n == 1, fk+" :: commit-returning exit found", w.pos(f.Pos()), "1", fmt.Sprintf("%d", n))
		}
		if f := c.fn("statesync", "lightClientStateProvider.State"); f != nil {
			fk := funcKey(f)
			got := storedFields(w, f, "State")["LastBlockID"]
			ok := strings.HasSuffix(got, ".SignedHeader.Commit.BlockID")
			c.Check(ok, fk+" :: LastBlockID comes from a light block's commit", w.pos(f.Pos()), got, "LastBlockID = "+got)
			if ok {
				lb := strings.TrimSuffix(got, ".SignedHeader.Commit.BlockID")
				c.Check(c.ge().ensures(f, fullCommitGuard(regexp.QuoteMeta(lb)), 3), fk+" ensures the commit LastBlockID is taken from was verified in full", w.pos(f.Pos()), "success only behind it", "State can answer with a LastBlockID taken from a commit of which the light client checked +2/3 of the slots, or (backwards) none, and whose part-set header nothing binds")
			}
		}
	})

	// ------------------------------------------------------------------ C13.R14
	// F78: sibling agreement — a reactor that consumes the height a peer reports in its status consumes the
	// base with it (v1 dropped it: every peer had base 0, pruned honest peers were asked for blocks below
	// their base and removed for not having them).
	register("C13", "R14", "K8", "each block-sync reactor takes a peer's reported base together with its reported height", 3, func(c *Ctx) {
		w := c.W
		n := 0
		for _, ver := range []string{"v0", "v1", "v2"} {
			f := c.fn("blockchain/"+ver, "BlockchainReactor.ReceiveEnvelope")
			if f == nil {
				continue
			}
			fk := funcKey(f)
			sinks := map[string]map[string]bool{"Height": {}, "Base": {}}
			for _, di := range w.deepInstrs(f, 2) {
				fa, ok := di.in.(*ssa.FieldAddr)
				if !ok {
					continue
				}
				nt := derefNamed(fa.X.Type())
				if nt == nil || nt.Obj().Name() != "StatusResponse" {
					continue
				}
				fld := fieldName(fa.X.Type(), fa.Field)
				if sinks[fld] == nil {
					continue
				}
				for _, ld := range *fa.Referrers() {
					u, isLd := ld.(*ssa.UnOp)
					if !isLd || u.Op != token.MUL {
						continue
					}
					for _, ref := range *u.Referrers() {
						switch r := ref.(type) {
						case *ssa.Store:
							if dst, isFa := r.Addr.(*ssa.FieldAddr); isFa && r.Val == ssa.Value(u) {
								sinks[fld][fmt.Sprintf("store:%p", dst.X)] = true
							}
						case ssa.CallInstruction:
							if !strings.Contains(w.callStr(r), "Logger") && !strings.Contains(w.callStr(r), "fmt.") {
								sinks[fld][fmt.Sprintf("call:%p", r)] = true
							}
						}
					}
				}
			}
			for s := range sinks["Height"] {
				n++
				c.Check(sinks["Base"][s], fk+" :: a status response's height is recorded together with its base", w.pos(f.Pos()), "base and height go to the same place", "the peer's reported height is recorded without the base it reported: the peer counts as having every block from 0")
			}
		}
		c.Check(n >= 3, "block-sync status response sinks found", "blockchain/", ">= 3", fmt.Sprintf("%d", n))
	})

	// ------------------------------------------------------------------ C19.R13
	// F75: a height (or hash) equality is one condition of the query; answering from it alone ignores the
	// others. Both indexers' Search have the shortcut.
	register("C19", "R13", "K1+K8", "an indexer answers a search from the height/hash shortcut only when that condition is the whole query", 2, func(c *Ctx) {
		w := c.W
		type ix struct{ pkg, fn, look string }
		n := 0
		for _, x := range []ix{{"state/indexer/block/kv", "BlockerIndexer.Search", "lookForHeight"}, {"state/txindex/kv", "TxIndex.Search", "lookForHash"}} {
			f := c.fn(x.pkg, x.fn)
			if f == nil {
				continue
			}
			fk := funcKey(f)
			okRe := regexp.MustCompile(`^true\(` + regexp.QuoteMeta(x.pkg) + `\.` + x.look + `\(.*\)#1\)$`)
			for _, r := range returnsOf(f) {
				ret := r.(*ssa.Return)
				if len(ret.Results) != 2 || !isNilConst(ret.Results[1]) {
					continue
				}
				short := false
				for _, at := range dominatingAtoms(ret.Block()) {
					if okRe.MatchString(w.atomStr(at)) {
						short = true
					}
				}
				if !short {
					continue
				}
				n++
				c.guards(f, ret, fk+" :: answer from the "+x.look+" shortcut", 0, guardCmp("the query has no other condition", `len\(\w+\)|len\(.*Conditions\(\)#0\)`, "==", "1"))
			}
		}
		c.Check(n >= 2, "indexer shortcut returns found", "state/", ">= 2", fmt.Sprintf("%d", n))
	})

	// ------------------------------------------------------------------ C19.R14
	// F76: the table Subscribe consults (Server.subscriptions) and the loop's own state must agree: a
	// subscription the loop cancels on its own (subscriber out of capacity) is dropped from the table too.
	register("C19", "R14", "K2", "a subscription the pubsub loop cancels by itself is also dropped from the table Subscribe consults", 3, func(c *Ctx) {
		w := c.W
		send := c.fn("libs/pubsub", "state.send")
		loop := c.fn("libs/pubsub", "Server.loop")
		if send == nil || loop == nil {
			return
		}
		fk := funcKey(send)
		// the callback parameter of send
		var cb *ssa.Parameter
		for _, p := range send.Params {
			if strings.HasPrefix(p.Type().String(), "func(") {
				cb = p
			}
		}
		if !c.Check(cb != nil, fk+" :: takes a callback that drops the table entry", w.pos(send.Pos()), "func parameter", "send has no way to tell the server which subscription it cancelled") {
			return
		}
		isCb := func(in ssa.Instruction) bool {
			call, ok := in.(ssa.CallInstruction)
			return ok && call.Common().Value == ssa.Value(cb)
		}
		blocked := map[Edge]bool{}
		for _, ea := range condEdges(send) {
			if ea.A.Kind == "nil" && ea.A.V == ssa.Value(cb) {
				blocked[ea.E] = true
			}
		}
		n := 0
		for _, rm := range w.callsTo(send, "libs/pubsub#state.remove") {
			n++
			reach, path := reachFromEntry(send, blocked, isCb, rm)
			c.Check(!reach, fk+" :: cancel a subscription from inside the loop", w.ipos(rm), "the table entry is dropped first", "the subscription is removed from the loop's state and cancelled, but stays in Server.subscriptions: Subscribe answers ErrAlreadySubscribed for ever ("+pathStr(w, path)+")")
			// same client and query
			for _, b := range send.Blocks {
				for _, in := range b.Instrs {
					if isCb(in) {
						ca, ra := in.(ssa.CallInstruction).Common().Args, callArgs(rm)
						same := len(ca) == 2 && len(ra) >= 2 && w.expr(ca[0]) == w.expr(ra[0]) && w.expr(ca[1]) == w.expr(ra[1])
						c.Check(same, fk+" :: the entry dropped is the subscription cancelled", w.ipos(in), "same client and query", "the callback names another client/query than the removal")
					}
				}
			}
		}
		c.Check(n >= 1, fk+" :: loop-initiated removal found", w.pos(send.Pos()), ">= 1", fmt.Sprintf("%d", n))
		// the loop passes a function that deletes from s.subscriptions under s.mtx
		lk := funcKey(loop)
		m := 0
		for _, call := range w.callsTo(loop, "libs/pubsub#state.send") {
			m++
			a := callArgs(call)
			var fn *ssa.Function
			if len(a) == 3 {
				if mc, ok := a[2].(*ssa.MakeClosure); ok {
					fn, _ = mc.Fn.(*ssa.Function)
				} else if g, ok := a[2].(*ssa.Function); ok {
					fn = g
				}
			}
			if fn != nil {
				fn = unwrapSynthetic(fn)
			}
			if !c.Check(fn != nil && fn.Blocks != nil, lk+" :: send is given the server's drop function", w.ipos(call), "a function of the server", "send is called without a function that drops the table entry") {
				continue
			}
			dels := 0
			for _, in := range rawCallInstrs(fn) {
				if b, ok := in.Common().Value.(*ssa.Builtin); ok && b.Name() == "delete" && strings.Contains(w.expr(in.Common().Args[0]), ".subscriptions") {
					dels++
					ok, why := w.holdsLock(fn, in, regexp.MustCompile(`\.mtx$`), 0)
					c.Check(ok, funcKey(fn)+" :: delete from the subscription table under the server's mutex", w.ipos(in), "s.mtx held", why)
				}
			}
			c.Check(dels >= 1, funcKey(fn)+" :: deletes the entry from Server.subscriptions", w.pos(fn.Pos()), ">= 1 delete", "the function handed to send does not delete from Server.subscriptions")
		}
		c.Check(m == 1, lk+" :: call of send found", w.pos(loop.Pos()), "1", fmt.Sprintf("%d", m))
	})

	// ------------------------------------------------------------------ C19.R15
	// F77: an event key can carry several values; a query matches if any of them does. A value that cannot
	// be converted to the operand's type is not a match — it must not end the scan of the values behind it.
	register("C19", "R15", "K1", "in matching a query, a value that does not convert does not decide for the other values of the key", 2, func(c *Ctx) {
		w := c.W
		f := c.fn("libs/pubsub/query", "match")
		if f == nil {
			return
		}
		fk := funcKey(f)
		n := 0
		for _, call := range w.callsTo(f, "libs/pubsub/query#matchValue") {
			hdr := loopOf(call)
			if !c.Check(hdr != nil, fk+" :: values are matched in a loop", w.ipos(call), "loop over the key's values", "matchValue is not called in a loop over the values") {
				continue
			}
			n++
			body := loopBlocks(hdr)
			for b := range body {
				ret, ok := b.Instrs[len(b.Instrs)-1].(*ssa.Return)
				if !ok || len(ret.Results) != 2 {
					continue
				}
				c.Check(isNilConst(ret.Results[1]), fk+" :: leave the scan of the values", w.ipos(ret), "only with a match", "the scan ends with the conversion error of one value: whether the subscriber gets the event depends on the order of the values")
			}
			trips, okT := unitLoopTripsX(w, call, func(b *ssa.BasicBlock) bool {
				// leaving early is fine with a match (true, nil)
				ret, ok := b.Instrs[len(b.Instrs)-1].(*ssa.Return)
				if !ok || len(ret.Results) != 2 {
					return false
				}
				v, isB := boolConst(ret.Results[0])
				return isB && v && isNilConst(ret.Results[1])
			})
			c.Check(okT && strings.HasPrefix(trips, "len("), fk+" :: every value is tried unless one matches", w.ipos(call), trips, "the loop over the values runs "+trips+" times or is left early without a match")
		}
		c.Check(n == 1, fk+" :: value loop found", w.pos(f.Pos()), "1", fmt.Sprintf("%d", n))
	})
}
