package main

// Rules written with the repairs of the fourth hunting wave (F75–F80).

import (
	"fmt"
	"go/token"
	"regexp"
	"strings"

	"golang.org/x/tools/go/ssa"
)

// fullCommitGuard: "the commit of light block LB verified in full against LB's own validator set" —
// LB.ValidatorSet.VerifyCommit(chain id, LB.Commit.BlockID, LB.Height, LB.Commit) answered nil.
func fullCommitGuard(lbRe string) Guard {
	L := `(?:` + lbRe + `)`
	return guardRe("every slot of the light block's commit verified against its validator set",
		`^nil\(`+L+`\.ValidatorSet\.VerifyCommit\(\w+\.lc\.ChainID\(\), `+L+`\.SignedHeader\.Commit\.BlockID, `+L+`\.SignedHeader\.Header\.Height, `+L+`\.SignedHeader\.Commit\)\)$`)
}

func init() {
	// ------------------------------------------------------------------ C14.R13
	// F80: Bootstrap ends with a synced write of the state; the seen commit went afterwards, unsynced, into
	// another database. A state without that commit cannot be started from, and state sync is skipped once a
	// state exists. Commit first (synced), state last.
	register("C14", "R13", "K2", "after state sync the seen commit is durable before the state is (commit stored first and synced, state bootstrapped behind its success)", 3, func(c *Ctx) {
		w := c.W
		n := 0
		for _, f := range w.FuncsInPkg("node") {
			for _, call := range w.callsTo(f, "state#Store.Bootstrap") {
				n++
				fk := funcKey(f)
				c.guards(f, call, fk+" :: bootstrap the synced state", 0, guardRe("the seen commit was stored", `^nil\(\w+\.SaveSeenCommit\(.*\)\)$`))
			}
		}
		c.Check(n >= 1, "node state-sync bootstrap site", "node/node.go", ">= 1", fmt.Sprintf("%d", n))
		if f := c.fn("store", "BlockStore.SaveSeenCommit"); f != nil {
			fk := funcKey(f)
			sync := w.callsMatching(f, `\.db\.SetSync\(`)
			plain := w.callsMatching(f, `\.db\.Set\(`)
			c.Check(len(sync) == 1 && len(plain) == 0, fk+" :: the seen commit is written synced", w.pos(f.Pos()), "db.SetSync", fmt.Sprintf("%d synced, %d unsynced writes: the state written after it can outlive it", len(sync), len(plain)))
		}
	})

	// ------------------------------------------------------------------ C14.R14
	// F79: the light client verifies a header; of its commit it checks +2/3 (forwards) or nothing (backwards).
	// The node stores that commit as seen commit and takes LastBlockID from it.
	register("C14", "R14", "K1", "the state provider hands out a commit / a last block id only from a light block whose commit it verified in full", 4, func(c *Ctx) {
		w := c.W
		if f := c.fn("statesync", "lightClientStateProvider.Commit"); f != nil {
			fk := funcKey(f)
			n := 0
			for _, r := range returnsOf(f) {
				ret := r.(*ssa.Return)
				if len(ret.Results) != 2 || isNilConst(ret.Results[0]) {
					continue
				}
				s := w.expr(ret.Results[0])
				if !strings.HasSuffix(s, ".SignedHeader.Commit") {
					continue
				}
				n++
				lb := strings.TrimSuffix(s, ".SignedHeader.Commit")
				c.guards(f, ret, fk+" :: hand out the commit", 0, fullCommitGuard(regexp.QuoteMeta(lb)))
			}
			c.Check(n == 1, fk+" :: commit-returning exit found", w.pos(f.Pos()), "1", fmt.Sprintf("%d", n))
		}
		if f := c.fn("statesync", "lightClientStateProvider.State"); f != nil {
			fk := funcKey(f)
			got := storedFields(w, f, "State")["LastBlockID"]
			ok := strings.HasSuffix(got, ".SignedHeader.Commit.BlockID")
			c.Check(ok, fk+" :: LastBlockID comes from a light block's commit", w.pos(f.Pos()), got, "LastBlockID = "+got)
			if ok {
				lb := strings.TrimSuffix(got, ".SignedHeader.Commit.BlockID")
				c.Check(c.ge().ensures(f, fullCommitGuard(regexp.QuoteMeta(lb)), 3), fk+" ensures the commit LastBlockID is taken from was verified in full", w.pos(f.Pos()), "success only behind it", "State can answer with a LastBlockID taken from a commit of which the light client checked +2/3 of the slots, or (backwards) none, and whose part-set header nothing binds")
			}
		}
	})

	// ------------------------------------------------------------------ C13.R14
	// F78: sibling agreement — a reactor that consumes the height a peer reports in its status consumes the
	// base with it (v1 dropped it: every peer had base 0, pruned honest peers were asked for blocks below
	// their base and removed for not having them).
	register("C13", "R14", "K8", "each block-sync reactor takes a peer's reported base together with its reported height", 3, func(c *Ctx) {
		w := c.W
		n := 0
		for _, ver := range []string{"v0", "v1", "v2"} {
			f := c.fn("blockchain/"+ver, "BlockchainReactor.ReceiveEnvelope")
			if f == nil {
				continue
			}
			fk := funcKey(f)
			sinks := map[string]map[string]bool{"Height": {}, "Base": {}}
			for _, di := range w.deepInstrs(f, 2) {
				fa, ok := di.in.(*ssa.FieldAddr)
				if !ok {
					continue
				}
				nt := derefNamed(fa.X.Type())
				if nt == nil || nt.Obj().Name() != "StatusResponse" {
					continue
				}
				fld := fieldName(fa.X.Type(), fa.Field)
				if sinks[fld] == nil {
					continue
				}
				for _, ld := range *fa.Referrers() {
					u, isLd := ld.(*ssa.UnOp)
					if !isLd || u.Op != token.MUL {
						continue
					}
					for _, ref := range *u.Referrers() {
						switch r := ref.(type) {
						case *ssa.Store:
							if dst, isFa := r.Addr.(*ssa.FieldAddr); isFa && r.Val == ssa.Value(u) {
								sinks[fld][fmt.Sprintf("store:%p", dst.X)] = true
							}
						case ssa.CallInstruction:
							if !strings.Contains(w.callStr(r), "Logger") && !strings.Contains(w.callStr(r), "fmt.") {
								sinks[fld][fmt.Sprintf("call:%p", r)] = true
							}
						}
					}
				}
			}
			for s := range sinks["Height"] {
				n++
				c.Check(sinks["Base"][s], fk+" :: a status response's height is recorded together with its base", w.pos(f.Pos()), "base and height go to the same place", "the peer's reported height is recorded without the base it reported: the peer counts as having every block from 0")
			}
		}
		c.Check(n >= 3, "block-sync status response sinks found", "blockchain/", ">= 3", fmt.Sprintf("%d", n))
	})

	// ------------------------------------------------------------------ C19.R13
	// F75: a height (or hash) equality is one condition of the query; answering from it alone ignores the
	// others. Both indexers' Search have the shortcut.
	register("C19", "R13", "K1+K8", "an indexer answers a search from the height/hash shortcut only when that condition is the whole query", 2, func(c *Ctx) {
		w := c.W
		type ix struct{ pkg, fn, look string }
		n := 0
		for _, x := range []ix{{"state/indexer/block/kv", "BlockerIndexer.Search", "lookForHeight"}, {"state/txindex/kv", "TxIndex.Search", "lookForHash"}} {
			f := c.fn(x.pkg, x.fn)
			if f == nil {
				continue
			}
			fk := funcKey(f)
			okRe := regexp.MustCompile(`^true\(` + regexp.QuoteMeta(x.pkg) + `\.` + x.look + `\(.*\)#1\)$`)
			for _, r := range returnsOf(f) {
				ret := r.(*ssa.Return)
				if len(ret.Results) != 2 || !isNilConst(ret.Results[1]) {
					continue
				}
				short := false
				for _, at := range dominatingAtoms(ret.Block()) {
					if okRe.MatchString(w.atomStr(at)) {
						short = true
					}
				}
				if !short {
					continue
				}
				n++
				c.guards(f, ret, fk+" :: answer from the "+x.look+" shortcut", 0, guardCmp("the query has no other condition", `len\(\w+\)|len\(.*Conditions\(\)#0\)`, "==", "1"))
			}
		}
		c.Check(n >= 2, "indexer shortcut returns found", "state/", ">= 2", fmt.Sprintf("%d", n))
	})

	// ------------------------------------------------------------------ C19.R14
	// F76: the table Subscribe consults (Server.subscriptions) and the loop's own state must agree: a
	// subscription the loop cancels on its own (subscriber out of capacity) is dropped from the table too.
	register("C19", "R14", "K2", "a subscription the pubsub loop cancels by itself is also dropped from the table Subscribe consults", 3, func(c *Ctx) {
		w := c.W
		send := c.fn("libs/pubsub", "state.send")
		loop := c.fn("libs/pubsub", "Server.loop")
		if send == nil || loop == nil {
			return
		}
		fk := funcKey(send)
		// the callback parameter of send
		var cb *ssa.Parameter
		for _, p := range send.Params {
			if strings.HasPrefix(p.Type().String(), "func(") {
				cb = p
			}
		}
		if !c.Check(cb != nil, fk+" :: takes a callback that drops the table entry", w.pos(send.Pos()), "func parameter", "send has no way to tell the server which subscription it cancelled") {
			return
		}
		isCb := func(in ssa.Instruction) bool {
			call, ok := in.(ssa.CallInstruction)
			return ok && call.Common().Value == ssa.Value(cb)
		}
		blocked := map[Edge]bool{}
		for _, ea := range condEdges(send) {
			if ea.A.Kind == "nil" && ea.A.V == ssa.Value(cb) {
				blocked[ea.E] = true
			}
		}
		n := 0
		for _, rm := range w.callsTo(send, "libs/pubsub#state.remove") {
			n++
			reach, path := reachFromEntry(send, blocked, isCb, rm)
			c.Check(!reach, fk+" :: cancel a subscription from inside the loop", w.ipos(rm), "the table entry is dropped first", "the subscription is removed from the loop's state and cancelled, but stays in Server.subscriptions: Subscribe answers ErrAlreadySubscribed for ever ("+pathStr(w, path)+")")
			// same client and query
			for _, b := range send.Blocks {
				for _, in := range b.Instrs {
					if isCb(in) {
						ca, ra := in.(ssa.CallInstruction).Common().Args, callArgs(rm)
						same := len(ca) == 2 && len(ra) >= 2 && w.expr(ca[0]) == w.expr(ra[0]) && w.expr(ca[1]) == w.expr(ra[1])
						c.Check(same, fk+" :: the entry dropped is the subscription cancelled", w.ipos(in), "same client and query", "the callback names another client/query than the removal")
					}
				}
			}
		}
		c.Check(n >= 1, fk+" :: loop-initiated removal found", w.pos(send.Pos()), ">= 1", fmt.Sprintf("%d", n))
		// the loop passes a function that deletes from s.subscriptions under s.mtx
		lk := funcKey(loop)
		m := 0
		for _, call := range w.callsTo(loop, "libs/pubsub#state.send") {
			m++
			a := callArgs(call)
			var fn *ssa.Function
			if len(a) == 3 {
				if mc, ok := a[2].(*ssa.MakeClosure); ok {
					fn, _ = mc.Fn.(*ssa.Function)
				} else if g, ok := a[2].(*ssa.Function); ok {
					fn = g
				}
			}
			if fn != nil {
				fn = unwrapSynthetic(fn)
			}
			if !c.Check(fn != nil && fn.Blocks != nil, lk+" :: send is given the server's drop function", w.ipos(call), "a function of the server", "send is called without a function that drops the table entry") {
				continue
			}
			dels := 0
			for _, in := range rawCallInstrs(fn) {
				if b, ok := in.Common().Value.(*ssa.Builtin); ok && b.Name() == "delete" && strings.Contains(w.expr(in.Common().Args[0]), ".subscriptions") {
					dels++
					ok, why := w.holdsLock(fn, in, regexp.MustCompile(`\.mtx$`), 0)
					c.Check(ok, funcKey(fn)+" :: delete from the subscription table under the server's mutex", w.ipos(in), "s.mtx held", why)
				}
			}
			c.Check(dels >= 1, funcKey(fn)+" :: deletes the entry from Server.subscriptions", w.pos(fn.Pos()), ">= 1 delete", "the function handed to send does not delete from Server.subscriptions")
		}
		c.Check(m == 1, lk+" :: call of send found", w.pos(loop.Pos()), "1", fmt.Sprintf("%d", m))
	})

	// ------------------------------------------------------------------ C19.R15
	// F77: an event key can carry several values; a query matches if any of them does. A value that cannot
	// be converted to the operand's type is not a match — it must not end the scan of the values behind it.
	register("C19", "R15", "K1", "in matching a query, a value that does not convert does not decide for the other values of the key", 2, func(c *Ctx) {
		w := c.W
		f := c.fn("libs/pubsub/query", "match")
		if f == nil {
			return
		}
		fk := funcKey(f)
		n := 0
		for _, call := range w.callsTo(f, "libs/pubsub/query#matchValue") {
			hdr := loopOf(call)
			if !c.Check(hdr != nil, fk+" :: values are matched in a loop", w.ipos(call), "loop over the key's values", "matchValue is not called in a loop over the values") {
				continue
			}
			n++
			body := loopBlocks(hdr)
			for b := range body {
				ret, ok := b.Instrs[len(b.Instrs)-1].(*ssa.Return)
				if !ok || len(ret.Results) != 2 {
					continue
				}
				c.Check(isNilConst(ret.Results[1]), fk+" :: leave the scan of the values", w.ipos(ret), "only with a match", "the scan ends with the conversion error of one value: whether the subscriber gets the event depends on the order of the values")
			}
			trips, okT := unitLoopTripsX(w, call, func(b *ssa.BasicBlock) bool {
				// leaving early is fine with a match (true, nil)
				ret, ok := b.Instrs[len(b.Instrs)-1].(*ssa.Return)
				if !ok || len(ret.Results) != 2 {
					return false
				}
				v, isB := boolConst(ret.Results[0])
				return isB && v && isNilConst(ret.Results[1])
			})
			c.Check(okT && strings.HasPrefix(trips, "len("), fk+" :: every value is tried unless one matches", w.ipos(call), trips, "the loop over the values runs "+trips+" times or is left early without a match")
		}
		c.Check(n == 1, fk+" :: value loop found", w.pos(f.Pos()), "1", fmt.Sprintf("%d", n))
	})
}

func init() {
	// ------------------------------------------------------------------ C11.R12
	// F82: the handshake applies a stored-but-unexecuted block with a stub evidence pool; the real pool is
	// opened afterwards. Whoever opens it reconciles it with the last block.
	register("C11", "R12", "K2", "the node marks the evidence of the last block committed when it opens the evidence pool (a block replayed by the handshake never reached the pool)", 4, func(c *Ctx) {
		w := c.W
		n := 0
		for _, f := range w.FuncsInPkg("node") {
			for _, np := range w.callsTo(f, "evidence#NewPool") {
				n++
				fk := funcKey(f)
				pool := w.expr(np.(ssa.Value)) + "#0"
				marks := w.callsMatching(f, `^`+regexp.QuoteMeta(pool)+`\.MarkCommitted\(`)
				if !c.Check(len(marks) == 1, fk+" :: reconciles the pool with the last block", w.ipos(np), "pool.MarkCommitted(last block's evidence)", "the pool is handed out without the evidence of the last stored block being marked committed: after a stop between saving and executing a block its evidence is proposed and executed a second time") {
					continue
				}
				mk := marks[0]
				arg := w.expr(callArgs(mk)[0])
				want := regexp.MustCompile(`^\w+\.LoadBlock\(` + regexp.QuoteMeta(pool) + `\.State\(\)\.LastBlockHeight\)\.Evidence\.Evidence$`)
				c.Check(want.MatchString(arg), fk+" :: the evidence marked is that of the block at the pool's state height", w.ipos(mk), arg, "MarkCommitted is given "+arg)
				// every exit that hands the pool out passes it, unless there is no such block — level by level
				// when the reconciliation was carved out into a helper: inside the helper every return lies
				// behind it, in the caller every hand-out lies behind the helper's call
				chain := siteChain(f, mk)
				if !c.Check(chain != nil, fk+" :: reconciliation reachable from the constructor", w.ipos(mk), "in the function or a helper of its own", "MarkCommitted is called from a function that is not part of the constructor") {
					continue
				}
				for _, ln := range chain {
					g, kill := ln.fn, ln.at
					blocked := map[Edge]bool{}
					for _, ea := range condEdges(g) {
						if ea.A.Kind == "nil" && strings.Contains(w.atomStr(ea.A), ".LoadBlock(") {
							blocked[ea.E] = true
						}
					}
					for _, r := range returnsOf(g) {
						ret := r.(*ssa.Return)
						if g == f {
							hands := false
							for _, res := range ret.Results {
								if w.expr(res) == pool {
									hands = true
								}
							}
							if !hands {
								continue
							}
						}
						reach, path := reachFromEntry(g, blocked, func(in ssa.Instruction) bool { return in == kill }, ret)
						c.Check(!reach, funcKey(g)+" :: hand out the pool", w.ipos(ret), "behind the reconciliation", "the pool is returned on a path that skips MarkCommitted although the block exists: "+pathStr(w, path))
					}
				}
			}
		}
		c.Check(n >= 1, "node :: evidence pool construction found", "node/node.go", ">= 1", fmt.Sprintf("%d", n))
		if f := c.fn("evidence", "Pool.MarkCommitted"); f != nil {
			fk := funcKey(f)
			calls := w.callsTo(f, "evidence#Pool.markEvidenceAsCommitted")
			c.Check(len(calls) == 1, fk+" :: marks the given evidence", w.pos(f.Pos()), "markEvidenceAsCommitted", fmt.Sprintf("%d calls", len(calls)))
			for _, call := range calls {
				c.Check(w.expr(callArgs(call)[0]) == paramName(f, 1), fk+" :: marks exactly the list it was given", w.ipos(call), paramName(f, 1), w.expr(callArgs(call)[0]))
				ok, why := w.holdsLock(f, call, regexp.MustCompile(`\.admitMtx$`), 0)
				c.Check(ok, fk+" :: under the admission mutex", w.ipos(call), "admitMtx held", why)
			}
		}
	})

	// ------------------------------------------------------------------ C12.R13
	// F83: the running gas total can exceed MaxInt64 when the limit is above MaxInt64/2; a wrapped sum is
	// negative and passes `total > limit`. Decided: the sum is compared with its previous value (the shape of
	// a wrap test); what the comparison then leads to is not followed.
	register("C12", "R13", "K10", "reaping by gas tests the running gas total for wrap-around (both mempool versions)", 2, func(c *Ctx) {
		w := c.W
		n := 0
		for _, impl := range [][2]string{{"mempool/v0", "CListMempool.ReapMaxBytesMaxGas"}, {"mempool/v1", "TxMempool.ReapMaxBytesMaxGas"}} {
			f := c.fn(impl[0], impl[1])
			if f == nil {
				continue
			}
			fk := funcKey(f)
			var acc *accumulator
			for _, a := range accumulators(f) {
				if strings.HasSuffix(w.expr(a.y), ".gasWanted") {
					a := a
					acc = &a
				}
			}
			if !c.Check(acc != nil, fk+" :: gas total found", w.pos(f.Pos()), "total += gasWanted", "no accumulation of gasWanted found") {
				continue
			}
			n++
			sum, prev := w.expr(acc.add), w.expr(acc.phi)
			found := false
			scan := func(g *ssa.Function, sub map[ssa.Value]string) {
				for _, b := range g.Blocks {
					for _, in := range b.Instrs {
						bo, ok := in.(*ssa.BinOp)
						if !ok {
							continue
						}
						x, y := w.exprWith(bo.X, sub), w.exprWith(bo.Y, sub)
						if (bo.Op == token.LSS && x == sum && y == prev) || (bo.Op == token.GTR && x == prev && y == sum) {
							if len(*bo.Referrers()) > 0 {
								found = true
							}
						}
					}
				}
			}
			scan(f, nil)
			// the test may live in a predicate the loop calls with the total and the addend
			for _, call := range rawCallInstrs(f) {
				h := staticCallee(call)
				if h == nil || h.Blocks == nil || pkgPathOf(h) != pkgPathOf(f) || len(call.Common().Args) != len(h.Params) {
					continue
				}
				sub := map[ssa.Value]string{}
				for i, p := range h.Params {
					sub[p] = w.expr(call.Common().Args[i])
				}
				scan(h, sub)
			}
			c.Check(found, fk+" :: the gas total is tested for wrap-around", w.ipos(acc.add), "sum < previous total", "total + gasWanted is only compared with the limit: above MaxInt64/2 the sum of two admissible values wraps to a negative number and every transaction is reaped")
		}
		c.Check(n == 2, "reap functions with a gas total", "mempool/", "2", fmt.Sprintf("%d", n))
	})

	// ------------------------------------------------------------------ C12.R14
	// F84: Flush empties pool, index, cache and byte counter in several steps. It must exclude the step that
	// inserts a checked transaction (and, in v0, notifies behind it): it holds, exclusively, every mutex that
	// is held where a transaction is inserted — and a function that mutates holds no read lock.
	register("C12", "R14", "K5+K8", "Flush excludes the insertion of checked transactions: it takes exclusively every mutex held at an insertion site", 4, func(c *Ctx) {
		w := c.W
		n := 0
		for _, impl := range [][3]string{{"mempool/v0", "CListMempool", "addTx"}, {"mempool/v1", "TxMempool", "insertTx"}} {
			fl := c.fn(impl[0], impl[1]+".Flush")
			if fl == nil {
				continue
			}
			fk := funcKey(fl)
			need := map[string]bool{}
			sites := 0
			for _, s := range w.allCallsTo(impl[0] + "#" + impl[1] + "." + impl[2]) {
				if relPkg(s.Fn) != impl[0] {
					continue
				}
				sites++
				for _, l := range w.computeLocks(s.Fn).heldAt(s.Instr) {
					if !strings.HasSuffix(l, "!") {
						need[l[strings.LastIndex(l, ".")+1:]] = true
					}
				}
			}
			c.Check(sites >= 1 && len(need) >= 1, fk+" :: insertion sites and their mutexes found", w.pos(fl.Pos()), fmt.Sprintf("%d sites, mutexes %v", sites, sortedKeys(need)), "no insertion site under a mutex found")
			excl := map[string]bool{}
			for _, in := range rawCallInstrs(fl) {
				d, ok := describeCallee(in)
				if !ok || !strings.HasSuffix(d.Recv, "Mutex") {
					continue
				}
				if d.Name == "RLock" {
					c.Fail(fk+" :: mutates under a read lock", w.ipos(in), "Flush empties the pool while holding only the read side of "+mutexField(w, in)+": it runs concurrently with every other reader-side holder (CheckTx, reaping)")
				}
				if d.Name == "Lock" {
					if _, isCall := in.(*ssa.Call); isCall {
						excl[mutexField(w, in)] = true
					}
				}
			}
			for _, m := range sortedKeys(need) {
				n++
				c.Check(excl[m], fk+" :: holds "+m+" exclusively", w.pos(fl.Pos()), "Lock()", "Flush does not take "+m+", under which checked transactions are inserted: an insertion between its steps leaves counters and list disagreeing (and, in v0, a submission panics on an emptied pool)")
			}
			// and it is held from before the first step to the end (released by defer only)
			for _, in := range rawCallInstrs(fl) {
				if d, ok := describeCallee(in); ok && strings.HasSuffix(d.Recv, "Mutex") && d.Name == "Unlock" && need[mutexField(w, in)] {
					_, isDefer := in.(*ssa.Defer)
					c.Check(isDefer, fk+" :: keeps "+mutexField(w, in)+" to the end", w.ipos(in), "deferred Unlock", "released before Flush is done")
				}
			}
		}
		c.Check(n >= 2, "Flush obligations found", "mempool/", ">= 2", fmt.Sprintf("%d", n))
	})
}
