#!/bin/bash
R=${REPO:-/repo}   # REPO=<scratch worktree> lets several of these run side by side; the default is /repo itself
# usage: run_seed.sh <patch.diff> <props...> : applies the patch to /repo, runs the checks, reverts.
p=$1; shift
git -C $R apply "$p" 2>/dev/null || git -C $R apply -C1 "$p" || { echo "APPLY FAILED $p"; exit 3; }
for prop in "$@"; do
  ./bin/tmverif -repo $R -prop $prop -no-evidence 2>&1 | grep -E "^  (VIOLATION|UNDECIDED|FLOOR)|^C[0-9]+:|LOAD-FAILED" | cut -c1-260
done
git -C $R checkout -- . 
