#!/bin/bash
R=${REPO:-/repo}   # REPO=<scratch worktree> lets several of these run side by side; the default is /repo itself
# usage: run_neutral.sh <ID> : applies each /tmp/neutralout/<ID>/k/patch.diff to /repo, runs the property's check, reverts.
id=$1
for d in ${NEUTRAL_ROOT:-/tmp/neutralout}/$id/*/; do
  k=$(basename $d)
  git -C $R apply $d/patch.diff 2>/dev/null || git -C $R apply -C1 $d/patch.diff || { echo "APPLY FAILED $id/$k"; continue; }
  out=$(./bin/tmverif -repo $R -prop ${2:-$id} -no-evidence 2>&1)
  git -C $R checkout -- .
  if echo "$out" | grep -q "^VIOLATION\|LOAD-FAILED"; then echo "ALARM $id/$k"; echo "$out" | grep "^  VIOLATION\|^  UNDECIDED\|^  FLOOR\|LOAD-FAILED" | cut -c1-330; else echo "silent $id/$k"; fi
done
