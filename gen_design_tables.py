#!/usr/bin/env python3
"""Regenerates the machine-written parts of DESIGN.md between <!-- BEGIN x --> / <!-- END x --> markers:
 rules   : the registered rules (bin/tmverif -list)
 seeds   : stored seeded changes and the rules that report them (seeded/*/meta.json)
 neutral : stored behaviour-preserving refactorings (neutral/*/meta.json)
Nothing here decides anything; it only keeps the report in step with what is stored."""
import json, os, re, subprocess, glob
os.chdir('/verif')
s = open('DESIGN.md').read()

def put(name, body):
    global s
    b, e = f'<!-- BEGIN {name} -->', f'<!-- END {name} -->'
    if b not in s:
        raise SystemExit(f'marker {name} missing')
    i, j = s.index(b) + len(b), s.index(e)
    s = s[:i] + '\n' + body.rstrip() + '\n' + s[j:]

# rules
out = subprocess.run(['bin/tmverif', '-list'], capture_output=True, text=True).stdout.strip().splitlines()
rows = ['| rule | kind | floor | obligation |', '|---|---|---|---|']
for l in out:
    m = re.match(r'(C\d+\.R\d+) \[(.*?)\] floor=(\d+) (.*)', l)
    if m:
        rows.append('| %s | %s | %s | %s |' % (m.group(1), m.group(2), m.group(3), m.group(4).replace('|', '\\|')))
put('rules', '%d rules registered.\n\n' % (len(rows) - 2) + '\n'.join(rows))

def natkey(d):
    b = os.path.basename(d.rstrip('/'))
    p, k = b.split('-')
    return (p, int(k))

# seeds
rows = ['| seed | change (from the agent\'s summary) | reported by |', '|---|---|---|']
n = 0
for d in sorted(glob.glob('seeded/*/'), key=natkey):
    m = json.load(open(d + 'meta.json'))
    n += 1
    rules = sorted(set(r['rule'] for r in m.get('reported_by', [])))
    summ = re.sub(r'\s+', ' ', str(m.get('summary', '')))[:170].replace('|', '\\|')
    tag = ''
    if m.get('seeded_for'):
        tag = ' (written for %s; crash-dependent, filed here)' % m['seeded_for']
    rows.append('| %s | %s%s | %s |' % (os.path.basename(d.rstrip('/')), summ, tag, ', '.join(rules)))
put('seeds', '%d stored seeded changes, every one reported by its own property\'s check.\n\n' % n + '\n'.join(rows))

# neutral
rows = ['| set | kind / place |', '|---|---|']
n = 0
for d in sorted(glob.glob('neutral/*/'), key=natkey):
    n += 1
    desc = ''
    if os.path.exists(d + 'meta.json'):
        try:
            m = json.load(open(d + 'meta.json'))
            desc = '%s — %s' % (m.get('kind', ''), re.sub(r'\s+', ' ', str(m.get('summary', m.get('what', ''))))[:150])
        except Exception:
            pass
    rows.append('| %s | %s |' % (os.path.basename(d.rstrip('/')), desc.replace('|', '\\|')))
put('neutral', '%d stored refactorings; the property\'s check is silent on each.\n\n' % n + '\n'.join(rows))
open('DESIGN.md', 'w').write(s)
print('ok')
