#!/bin/bash
# usage: verify_seed.sh <seed dir> <worktree> [pkgs to test with the change...]
# Confirms: (a) builds with the change, (b) demo fails with the change, (c) listed packages' existing tests pass
# with the change, (d) demo passes on the pristine tree. Prints a RESULT line.
export GOFLAGS=-mod=mod GOPROXY=off GOSUMDB=off GOTOOLCHAIN=local; unset GOWORK
sd=$1; wt=$2; shift 2
pkgdir=$(python3 -c "import json;print(json.load(open('$sd/meta.json'))['demo_pkg_dir'])")
demo=$sd/zz_seed_demo_test.go; [ -f $demo ] || demo=$(ls $sd/*_test.go | head -1)
cd $wt || exit 9
git checkout -q -- . && git clean -fdq
git apply $sd/patch.diff || { echo "RESULT $sd apply-failed"; exit 1; }
go build ./... >/tmp/seedverify/build.$$ 2>&1 || { echo "RESULT $sd build-failed"; git checkout -q -- .; exit 1; }
cp $demo $pkgdir/zz_seed_demo_test.go
go test -vet=off -count=1 -timeout 15m -run "${VS_DEMO_RUN:-TestZZSeed|TestSeed}" ./$pkgdir > /tmp/seedverify/demo_with.$$ 2>&1; with=$?
rm -f $pkgdir/zz_seed_demo_test.go
existing=0
for p in "$@"; do
  # the consensus package has known timing-flaky tests (TestByzantinePrevoteEquivocation, TestStateFullRound1 can
  # hang): a failing package gets up to two more attempts before it counts as failing with the change
  ok=1
  for attempt in 1 2 3; do
    if go test -vet=off -count=1 -timeout 6m ${VS_RUN:+-run "$VS_RUN"} $p > /tmp/seedverify/exist.$$ 2>&1; then ok=0; break; fi
    grep -E "^(--- FAIL|FAIL|panic)" /tmp/seedverify/exist.$$ | head -3 | sed "s/^/  attempt $attempt: /"
  done
  [ $ok -ne 0 ] && existing=1
done
git checkout -q -- . && git clean -fdq
cp $demo $pkgdir/zz_seed_demo_test.go
go test -vet=off -count=1 -timeout 15m -run "${VS_DEMO_RUN:-TestZZSeed|TestSeed}" ./$pkgdir > /tmp/seedverify/demo_without.$$ 2>&1; without=$?
rm -f $pkgdir/zz_seed_demo_test.go
git checkout -q -- . && git clean -fdq
echo "RESULT $sd demo_with_change_exit=$with (want !=0) existing_tests_exit=$existing (want 0) demo_pristine_exit=$without (want 0)"
rm -f /tmp/seedverify/*.$$
