#!/usr/bin/env python3
"""import_seed.py <ID> <k> "<RESULT line from verify_seed.sh>" — copies a confirmed seeded change into
/verif/seeded/<ID>-<k>/ and records which checks report it (by applying it to /repo, running every
registered check once, and reverting)."""
import sys, json, os, shutil, subprocess, re
REPO = os.environ.get('REPO', '/repo')
pid, k, result = sys.argv[1], sys.argv[2], sys.argv[3]
srcroot = sys.argv[4] if len(sys.argv) > 4 else '/tmp/seedout'
dstk = sys.argv[5] if len(sys.argv) > 5 else k
dstpid = sys.argv[6] if len(sys.argv) > 6 else pid
src = f'{srcroot}/{pid}/{k}'
dst = f'/verif/seeded/{dstpid}-{dstk}'
os.makedirs(dst, exist_ok=True)
for f in os.listdir(src):
    if f.endswith('.diff') or f.endswith('_test.go') or f == 'meta.json':
        shutil.copy(os.path.join(src, f), os.path.join(dst, f if not f.endswith('_test.go') else f + '.txt'))
if subprocess.run(["git", "-C", REPO, "apply", os.path.join(src, "patch.diff")]).returncode != 0:
    subprocess.run(["git", "-C", REPO, "apply", "-C1", os.path.join(src, "patch.diff")], check=True)
try:
    out = subprocess.run(['/verif/bin/tmverif', '-repo', REPO, '-prop', 'all', '-no-evidence'], capture_output=True, text=True).stdout
finally:
    subprocess.run(['git', '-C', REPO, 'checkout', '--', '.'], check=True)
caught = sorted(set(re.findall(r'^  (?:VIOLATION|UNDECIDED|FLOOR): (C\d+\.R\d+) key=(.*?) at ', out, re.M)))
m = json.load(open(os.path.join(dst, 'meta.json')))
m['breaks_property'] = dstpid
if dstpid != pid:
    m['seeded_for'] = pid
    m['note'] = 'produced by an agent given property %s; it only manifests across a crash/restart, which %s does not quantify over, so it is filed under %s, whose statement it falsifies' % (pid, pid, dstpid)
m['confirmed'] = {'how': 'verify_seed.sh in a scratch worktree: build with the change; demo test with the change (must fail); listed existing test packages with the change (must pass; known flaky tests TestByzantinePrevoteEquivocation / psql sink noted); demo on pristine tree (must pass)', 'result': result}
m['reported_by'] = [{'rule': r, 'construct': key} for r, key in caught]
m['reported_by_own_property_check'] = any(r.startswith(dstpid + '.') for r, _ in caught)
json.dump(m, open(os.path.join(dst, 'meta.json'), 'w'), indent=1)
print(dstpid, dstk, 'caught by', sorted(set(r for r, _ in caught)) or 'NOTHING', '| own property:', m['reported_by_own_property_check'])
