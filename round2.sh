#!/bin/bash
# usage: round2.sh verify <ID> [pkgs...]   — confirm the round-2 seeds of <ID> in its scratch worktree (does not touch /repo)
#        round2.sh import <ID>             — import the confirmed ones as seeded/<ID>-4..6 (applies to /repo: run alone)
mode=$1; id=$2; shift 2
mkdir -p /tmp/seedverify
if [ "$mode" = verify ]; then
  : > /tmp/seedverify/$id.r2.log
  for k in 1 2 3 4; do
    [ -f ${SEED_ROOT:-/tmp/seedout2}/$id/$k/patch.diff ] || continue
    ./verify_seed.sh ${SEED_ROOT:-/tmp/seedout2}/$id/$k ${WT_PREFIX:-/tmp/wt2-}$id "$@" 2>&1 | grep "^RESULT\|attempt" >> /tmp/seedverify/$id.r2.log
  done
  echo "verified $id" >> /tmp/seedverify/$id.r2.log
else
  for k in 1 2 3 4; do
    r=$(grep "^RESULT ${SEED_ROOT:-/tmp/seedout2}/$id/$k " /tmp/seedverify/$id.r2.log | tail -1)
    if echo "$r" | grep -q "demo_with_change_exit=[1-9].*existing_tests_exit=0.*demo_pristine_exit=0"; then
      python3 import_seed.py $id $k "$r" ${SEED_ROOT:-/tmp/seedout2} $((k+${SEED_OFFSET:-3})) | tail -1
    else
      echo "NOT CONFIRMED $id/$k: $r"
    fi
  done
fi
