#!/bin/bash
# usage: round2.sh <ID> [pkgs...] : verify the round-2 seeds of <ID> in its scratch worktree and import the confirmed ones as <ID>-4..6
id=$1; shift
mkdir -p /tmp/seedverify
for k in 1 2 3; do
  [ -f /tmp/seedout2/$id/$k/patch.diff ] || continue
  r=$(./verify_seed.sh /tmp/seedout2/$id/$k /tmp/wt2-$id "$@" 2>&1 | grep "^RESULT" | tail -1)
  echo "$r" >> /tmp/seedverify/$id.r2.log
  if echo "$r" | grep -q "demo_with_change_exit=[1-9].*existing_tests_exit=0.*demo_pristine_exit=0"; then
    python3 import_seed.py $id $k "$r" /tmp/seedout2 $((k+3)) | tail -1
  else
    echo "NOT CONFIRMED $id/$k: $r"
  fi
done
