#!/usr/bin/env python3
"""Regenerates MANIFEST.json from the rules registered in bin/tmverif (claimed properties)
and the per-property notes below. Properties without rules are listed as not_applicable."""
import json, subprocess, collections, os
V = os.path.dirname(os.path.abspath(__file__))
props = [json.loads(l) for l in open(os.path.join(V, 'properties.jsonl'))]
out = subprocess.run([os.path.join(V, 'bin/tmverif'), '-list'], capture_output=True, text=True).stdout
rules = collections.OrderedDict()
for line in out.splitlines():
    head, desc = line.split(' floor=', 1)
    rid, kind = head.split(' ', 1)
    prop = rid.split('.')[0]
    rules.setdefault(prop, []).append((rid, kind.strip(), desc.split(' ', 1)[1]))

NOT_DECIDED = {
 'C01': 'agreement itself (quorum intersection over all schedules and Byzantine strategies)',
 'C02': 'reachability of protocol states; that the polka seen belongs to this height\'s validator set beyond vote admission',
 'C03': 'termination, round bounds and timing — only the named liveness mechanisms are checked to be present',
 'C04': 'behaviour at each crash offset and replay equivalence',
 'C05': 'agreement of the three stores after each crash point',
 'C06': 'median arithmetic and byte-exact size constants',
 'C07': 'arithmetic at the overflow boundary beyond the shape of the threshold expression',
 'C08': 'proportional fairness and bit-exact equality of reconstructed priorities',
 'C09': 'soundness against every forgery strategy; bisection progress',
 'C10': 'reassembly equality for all data; hash security',
 'C11': 'evidence lifecycle over long histories',
 'C12': 'bounds under all interleavings; recheck completeness',
 'C13': 'reaching the tip with one honest peer',
 'C14': 'arrival-order behaviour of the chunk queue',
 'C15': 'what a reader sees for each truncation offset / crash cycle',
 'C16': 'cryptographic strength; byte-stream equality for all read/write sizes',
 'C17': 'exactly-once in-order delivery; absence of every possible panic',
 'C18': 'store consistency after each crash prefix',
 'C19': 'search soundness/completeness of the indexers',
 'C20': 'acceptance of every honest answer beyond constructor agreement',
}
ENV = ''
checks = []
for p in props:
    pid = p['id']
    if pid not in rules:
        continue
    rl = rules[pid]
    text = ('Static analysis (level "other"): structural necessary conditions of the property decided on every CFG path of the current source: '
            + '; '.join('%s [%s] %s' % r for r in rl)
            + '. A violated obligation names the function, construct and path. Not decided: ' + NOT_DECIDED.get(pid, 'the behavioural remainder') + '.')
    checks.append({
        'property_id': pid,
        'quick_cmd': './check %s quick' % pid,
        'thorough_cmd': './check %s thorough' % pid,
        'evidence_file': '/verif/evidence/%s.json' % pid,
        'replay_cmd_template': './check %s quick -replay {path}' % pid,
        'engine': 'tmverif',
        'level_claimed': {'category': 'other', 'text': text, 'design_ref': 'DESIGN.md §4 ' + pid},
        'level_note': 'Trusted base: go/types, go/ssa (x/tools v0.29.0), the scope table and allow-lists frozen in /verif/tool. The rules are necessary, not sufficient: a pass means the mechanisms the property rests on are intact on all paths, not that the behaviour is proved.',
        'technique': 'repository-specific static analysis over SSA: ' + ', '.join(sorted(set(k.strip('[]') for _, k, _ in rl))) + ' (guard-dominance on all paths, ordering, ownership, exhaustiveness, agreement)',
    })
na = [{'property_id': p['id'], 'reason': 'no check registered yet in this build of the tool; static rules are designed in DESIGN.md §4 but not claimed until implemented and validated'} for p in props if p['id'] not in rules]
m = {
 'version': 1,
 'setup_cmd': 'cd /verif/tool && GOFLAGS=-mod=mod GOPROXY=off GOSUMDB=off GOTOOLCHAIN=local GOWORK=off go build -o /verif/bin/tmverif .',
 'hooks': {'guard': 'verif', 'enable': 'none needed: static analysis reads /repo\'s source; no hooks are compiled into /repo', 'baseline_off_cmd': 'cd /repo && go test -vet=off -count=1 -timeout 25m ./...', 'source_commits': [], 'add_only': True},
 'engines': [{'name': 'tmverif', 'path': '/verif/tool', 'serves_properties': list(rules.keys()), 'kind_free_text': 'repository-specific static analyser over go/packages + go/ssa: guards on all paths (with callee summaries and caller lifting), ordering, ownership, exhaustiveness, writer/reader agreement, lock-held, bounded, send-count; sensitivity witnesses via in-memory overlays in the thorough tier'}],
 'checks': checks,
 'notes': 'Static analysis only (DESIGN.md). Every check loads /repo\'s current working tree with go/packages on each run. known_findings.json lists genuine defects recorded rather than repaired.',
 'not_applicable': na,
}
json.dump(m, open(os.path.join(V, 'MANIFEST.json'), 'w'), indent=1)
print('claimed:', ' '.join(rules.keys()), '| not applicable:', len(na))
