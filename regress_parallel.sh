#!/bin/bash
# Runs check_seeds.sh and check_neutral.sh over N scratch worktrees of /repo's HEAD side by side (never in
# /repo itself) and prints everything that is not "caught"/"silent". usage: regress_parallel.sh [N=4]
N=${1:-4}
cd /verif
for i in $(seq 0 $((N-1))); do
  wt=/tmp/wt-reg$$-$i
  git -C /repo worktree remove --force $wt 2>/dev/null
  git -C /repo worktree add --detach $wt HEAD -q || exit 3
  ( REPO=$wt SHARD=$i/$N ./check_seeds.sh > /tmp/regress$$.seeds.$i 2>&1; REPO=$wt SHARD=$i/$N ./check_neutral.sh > /tmp/regress$$.neutral.$i 2>&1 ) &
done
wait
for i in $(seq 0 $((N-1))); do git -C /repo worktree remove --force /tmp/wt-reg$$-$i; done
echo "seeds: caught $(cat /tmp/regress$$.seeds.* | grep -c '^caught')  neutral: silent $(cat /tmp/regress$$.neutral.* | grep -c '^silent')"
cat /tmp/regress$$.seeds.* | grep -v '^caught'
cat /tmp/regress$$.neutral.* | grep -v '^silent'
rm -f /tmp/regress$$.seeds.* /tmp/regress$$.neutral.*
