#!/bin/bash
R=${REPO:-/repo}   # REPO=<scratch worktree> lets several of these run side by side; the default is /repo itself
# Re-runs every stored behaviour-preserving refactoring against the checks of the property it was written
# around — or, with NEUTRAL_PROPS=all, against the checks of every property (a refactoring of a function is
# neutral for all rules anchored in it, whichever property they belong to); prints ALARM for any on which a
# check is no longer silent. (Applies each patch to $REPO and reverts it.)
cd /verif
bad=0
for d in neutral/*/; do
  id=$(basename $d); prop=${id%-*}
  n=$((n+1)); if [ -n "$SHARD" ] && [ $((n % ${SHARD#*/})) -ne ${SHARD%/*} ]; then continue; fi   # SHARD=i/n: every n-th entry, offset i
  git -C $R apply /verif/$d/patch.diff 2>/dev/null || git -C $R apply -C1 /verif/$d/patch.diff 2>/dev/null || { echo "APPLY-FAILED $id"; continue; }
  out=$(./bin/tmverif -repo $R -prop ${NEUTRAL_PROPS:-$prop} -no-evidence 2>&1)
  git -C $R checkout -- .
  if echo "$out" | grep -q "^VIOLATION\|LOAD-FAILED"; then echo "ALARM $id: $(echo "$out" | grep -m2 '^  VIOLATION\|^  UNDECIDED\|^  FLOOR\|LOAD-FAILED' | cut -c1-200)"; bad=1; else echo "silent $id"; fi
done
exit $bad
